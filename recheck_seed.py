#!/usr/bin/env python3
"""recheck_seed.py <seed-dir-name> [check ids...]: re-run checks against an adopted seeded change and refresh detected_by."""
import json, os, shutil, subprocess, sys, re
sys.path.insert(0, os.path.dirname(os.path.abspath(__file__)))
from amverif import selftest
name = sys.argv[1]
dst = "/verif/seeded/%s" % name
meta = json.load(open(os.path.join(dst, "meta.json")))
checks = sys.argv[2:] or [meta["property"]]
detected = [d for d in meta.get("detected_by", []) if d["check"] not in checks]
for c in checks:
    d = selftest.scratch_copy()
    try:
        r = subprocess.run(["patch", "-p1", "-s", "-i", os.path.join(dst, "patch.diff")], cwd=d, stdout=subprocess.PIPE, stderr=subprocess.STDOUT, text=True)
        assert r.returncode == 0, r.stdout
        env = dict(os.environ, AMVERIF_REPO=d, AMVERIF_EVID=os.path.join(d, "evidence"))
        r = subprocess.run(["/verif/check", c], env=env, stdout=subprocess.PIPE, stderr=subprocess.STDOUT, text=True)
        keys = [k for k in re.findall(r"violated: (\S.*?) at ", r.stdout) if not k.startswith("anchor|internal error")]
        print(c, "exit", r.returncode, keys[:3])
        if r.returncode == 1 and keys:
            detected.append({"check": c, "expect": keys[0]})
    finally:
        shutil.rmtree(d, ignore_errors=True)
meta["detected_by"] = detected
json.dump(meta, open(os.path.join(dst, "meta.json"), "w"), indent=1)
print(name, "detected_by", detected)
