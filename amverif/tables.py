"""Extraction of match tables from MIR: `match x { A => 1, B => 2 }` and `match n { 1 => Ok(A), .. , _ => Err }`.

A table maps a *key* (enum variant name or integer literal) to a *value* descriptor:
  ('const', '7') | ('variant', 'Enum::Name' [, nested...]) | ('err',) | ('panic',) | ('other', text)
"""
from . import util
from .util import norm_fn


def _describe_operand(b, op, depth=0):
    """what constant / enum variant does this operand hold (following single definitions)?"""
    k = util.op_const(op)
    if k is not None:
        if "v" in k:
            return ("const", k["v"])
        return ("other", "const " + str(k.get("def") or k.get("ty")))
    pl = util.op_place(op)
    if pl is None or depth > 8:
        return ("other", "?")
    if pl["p"]:
        return ("other", "place")
    d = b.single_def(pl["l"])
    if d is None:
        # several definitions: describe each and require agreement
        vals = set()
        for (bi, si, rec) in b.defs().get(pl["l"], []):
            if si == "t":
                vals.add(("other", "call " + str(norm_fn(rec.get("fn")))))
            else:
                vals.add(_describe_rvalue(b, rec["rv"], depth + 1))
        return vals.pop() if len(vals) == 1 else ("other", "multiple")
    if d[1] == "t":
        return ("other", "call " + str(norm_fn(d[2].get("fn"))))
    return _describe_rvalue(b, d[2]["rv"], depth + 1)


def _describe_rvalue(b, rv, depth=0):
    k = rv["k"]
    if k == "Use":
        return _describe_operand(b, rv["o"][0], depth)
    if k == "Agg" and rv.get("ak") == "adt":
        adt, var = rv["adt"], rv["variant"]
        if adt == "core::result::Result":
            if var == "Err":
                return ("err",)
            return _describe_operand(b, rv["o"][0], depth)
        if adt == "core::option::Option":
            if var == "None":
                return ("none",)
            return _describe_operand(b, rv["o"][0], depth)
        inner = tuple(_describe_operand(b, o, depth + 1) for o in rv["o"])
        name = "%s::%s" % (adt.split("::")[-1], var)
        inner = tuple(i for i in inner if i[0] in ("variant", "const", "const-part"))
        return ("variant", name) + inner
    if k == "Agg" and rv.get("ak") == "tuple" and rv["o"]:
        return _describe_operand(b, rv["o"][0], depth)      # (Action, value, ..): the table is about the first component
    if k == "Bin" and rv["op"] in ("BitOr", "Add"):
        # (len << 4) | CODE : keep the constant part
        consts = [util.op_const(o) for o in rv["o"]]
        cs = [c["v"] for c in consts if c is not None and "v" in c]
        if len(cs) == 1:
            return ("const-part", cs[0])
    if k == "Cast":
        return _describe_operand(b, rv["o"][0], depth)
    return ("other", k)


def arm_value(b, start, ret_local=0):
    """value produced by the arm starting at block `start` (first assignment to _0 on every path)"""
    firsts = util.first_ret_assignments(b, start)
    if not firsts:
        return ("panic",)      # no return reachable: unreachable!/panic!
    vals = set()
    for (bi, kind, rec) in firsts:
        if kind == "stmt":
            vals.add(_describe_rvalue(b, rec["rv"]))
        elif kind == "call":
            vals.add(("other", "call " + str(norm_fn(rec.get("fn")))))
        else:
            vals.add(("other", "no assignment"))
    return vals.pop() if len(vals) == 1 else ("other", "paths disagree: %s" % sorted(map(str, vals)))


def switch_on_param(b, param=1):
    """the first switch whose operand derives from the parameter: returns (block, terminator, source descriptor)"""
    best = None
    for sb, sw in b.switches():
        src = b.bool_operand_source(sw["op"])
        if not src:
            continue
        if src["kind"] == "discr" and src["origin"][0] == param:
            cand = (sb, sw, src)
        elif src["kind"] == "place" and src["origin"][0] == param:
            cand = (sb, sw, src)
        elif src["kind"] == "bin" and src["op"] in ("BitAnd", "Rem", "Shr") and any(b.provenance(o).depends_on_param(param) for o in src["o"] if util.op_place(o)):
            cand = (sb, sw, src)      # match (x & MASK) { .. }
        else:
            continue
        if best is None or b.can_reach(cand[0], best[0]):
            best = cand
    return best


def _nested_switch(b, start, param):
    """a switch on the discriminant of a sub-place of the parameter reached from `start` before _0 is assigned"""
    seen, st = set(), [start]
    while st:
        x = st.pop()
        if x in seen:
            continue
        seen.add(x)
        blk = b.blocks[x]
        if any(s["d"]["l"] == 0 for s in blk["st"]):
            continue
        t = blk["t"]
        if t["k"] == "switch":
            src = b.bool_operand_source(t["op"])
            if src and src["kind"] == "discr" and src["origin"][0] == param and src["origin"][1]:
                return (x, t, src)
            continue
        if t["k"] == "call" and t["dst"]["l"] == 0:
            continue
        st.extend(b.succ[x])
    return None


def _table_from(b, found, param):
    sb, sw, src = found
    out = {}
    arms = [(v, tb) for v, tb in sw["targets"]]
    if b.blocks[sw["otherwise"]]["t"]["k"] != "unreachable":
        arms.append(("_", sw["otherwise"]))
    for v, tb in arms:
        key = v if v == "_" else ((src.get("vars") or {}).get(v, v) if src["kind"] == "discr" else v)
        nested = _nested_switch(b, tb, param) if src["kind"] == "discr" else None
        if nested is not None and nested[0] != sb:
            for k2, v2 in _table_from(b, nested, param).items():
                out["%s/%s" % (key, k2)] = v2
        else:
            out[key] = arm_value(b, tb)
    return out


def table_of(b, param=1):
    """{key: value} for a function that is one `match` over its parameter; keys are variant names or integers
    (nested patterns give 'Outer/Inner'); key '_' is the wildcard arm"""
    found = switch_on_param(b, param)
    if found is None:
        return None
    return _table_from(b, found, param)
