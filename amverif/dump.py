"""Developer aid: pretty-print the extracted MIR facts of functions matching a substring.

usage: python3 -m amverif.dump <substring> [--config dev|rel] [--exact]
"""
import sys
from . import facts


def place(p):
    s = "_%d" % p["l"]
    for e in p["p"]:
        if e == "*":
            s = "(*%s)" % s
        else:
            s += e
    return s


def op(o):
    if "c" in o:
        return place(o["c"])
    if "m" in o:
        return "move " + place(o["m"])
    k = o["k"]
    if "fn" in k:
        return "fn(%s)" % k.get("fnargs", k["fn"])
    if "def" in k:
        return "const %s" % k["def"]
    if "v" in k:
        return "%s_%s" % (k["v"], k["ty"])
    if "s" in k:
        return k["s"]
    return "const<%s>" % k["ty"]


def rv(r):
    k = r["k"]
    if k == "Use":
        return op(r["o"][0])
    if k == "Ref":
        return ("&mut " if r["mut"] else "&") + place(r["p"])
    if k == "RawPtr":
        return ("&raw mut " if r["mut"] else "&raw const ") + place(r["p"])
    if k == "Cast":
        return "%s as %s (%s)" % (op(r["o"][0]), r["ty"], r["ck"])
    if k == "Bin":
        return "%s(%s, %s)" % (r["op"], op(r["o"][0]), op(r["o"][1]))
    if k == "Un":
        return "%s(%s)" % (r["op"], op(r["o"][0]))
    if k == "Discr":
        return "discriminant(%s)" % place(r["p"])
    if k == "Agg":
        if r["ak"] == "adt":
            return "%s::%s{%s}" % (r["adt_args"], r["variant"], ", ".join("%s: %s" % (f, op(o)) for f, o in zip(r["fields"], r["o"])))
        if r["ak"] in ("closure", "coroutine"):
            return "closure %s [%s]" % (r["closure"], ", ".join(op(o) for o in r["o"]))
        return "%s[%s]" % (r["ak"], ", ".join(op(o) for o in r["o"]))
    if k == "SetDiscr":
        return "set_discriminant(%s)" % r["v"]
    return str(r)


def show(r, out=sys.stdout):
    w = out.write
    w("fn %s  [%s] vis=%s exported=%s abi=%s\n" % (r["path"], r["sp"], r.get("vis"), r.get("exported"), r.get("abi")))
    for i, l in enumerate(r["locals"]):
        w("    let _%d: %s%s%s\n" % (i, l["ty"], "  // " + l["n"] if "n" in l else "", "  (arg)" if 1 <= i <= r["argc"] else ""))
    for bi, b in enumerate(r["blocks"]):
        w("  bb%d%s:\n" % (bi, " (cleanup)" if b.get("cleanup") else ""))
        for s in b["st"]:
            w("      %s = %s;   // %s%s\n" % (place(s["d"]), rv(s["rv"]), s["sp"].split("/")[-1], " " + ",".join(s["mac"]) if "mac" in s else ""))
        t = b["t"]
        k = t["k"]
        if k == "call":
            callee = t.get("resargs") or t.get("fnargs") or ("(*%s)" % op(t["fnop"]))
            decl = ""
            if t.get("res") and t.get("fn") and t["res"] != t["fn"]:
                decl = "  [decl %s]" % t["fn"]
            w("      %s = %s(%s) -> bb%s%s;   // %s%s\n" % (place(t["dst"]), callee, ", ".join(op(a) for a in t["args"]), t.get("target"), decl, t["sp"].split("/")[-1], " " + ",".join(t["mac"]) if "mac" in t else ""))
        elif k == "switch":
            w("      switch(%s: %s) [%s, otherwise: bb%d]\n" % (op(t["op"]), t["ty"], ", ".join("%s: bb%d" % (v, tb) for v, tb in t["targets"]), t["otherwise"]))
        elif k == "assert":
            w("      assert(%s == %s, %s) -> bb%d   // %s\n" % (op(t["cond"]), t["expected"], t["msg"], t["target"], t["sp"].split("/")[-1]))
        elif k == "drop":
            w("      drop(%s) -> bb%d\n" % (place(t["p"]), t["target"]))
        elif k == "goto":
            w("      goto bb%d\n" % t["target"])
        else:
            w("      %s\n" % k)


def main():
    args = [a for a in sys.argv[1:] if not a.startswith("--")]
    config = "dev"
    if "--config" in sys.argv:
        config = sys.argv[sys.argv.index("--config") + 1]
        args = [a for a in args if a != config]
    exact = "--exact" in sys.argv
    names = "--names" in sys.argv
    f = facts.load(config)
    for p, r in sorted(f.fns.items()):
        if (exact and p == args[0]) or (not exact and args[0] in p):
            if names:
                print(p, r["sp"])
            else:
                show(r)
                print()


if __name__ == "__main__":
    main()
