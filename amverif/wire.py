"""Wire-grammar abstraction of encoders and decoders (rule R5, token sequences).

A function is abstracted to the *set* of token sequences it can emit/consume on its non-error paths:
  RAW   one or more raw bytes (push / extend / take1 / take4 / take_n / change_hash ...); adjacent RAWs merge
  LEBU / LEBI   unsigned / signed LEB128 integer
  ('LOOP', seq)  a counted repetition of seq (encode_many / length_prefixed: the LEBU count is emitted separately)
Local helper functions that take the output buffer / the parse Input are inlined (with the closure or function
item they are given), so `encode_hashes(buf, h)` and `length_prefixed(change_hash)(i)` both become LEBU LOOP(RAW).
"""
from . import cfg, util
from .util import norm_fn, callee as _callee

MAX_SEQS = 200

W_PRIM = {
    "alloc::vec::Vec::push": ("RAW",),
    "alloc::vec::Vec::extend_from_slice": ("RAW",),
    "core::iter::traits::collect::Extend::extend": ("RAW",),
    "alloc::slice::<impl [T]>::into_vec": ("RAW",),        # vec![a, b] literal
    "alloc::vec::from_elem": ("RAW",),
    "leb128::write::unsigned": ("LEBU",),
    "leb128::write::signed": ("LEBI",),
}
P = "automerge::storage::parse::"
R_PRIM = {
    P + "take1": ("RAW",), P + "take4": ("RAW",), P + "take_n": ("RAW",), P + "change_hash": ("RAW",),
    P + "leb128::leb128_u64": ("LEBU",), P + "leb128::leb128_u32": ("LEBU",), P + "leb128::leb128_i64": ("LEBI",), P + "leb128::leb128_i32": ("LEBI",),
    P + "leb128::nonzero_leb128_u64": ("LEBU",),
    P + "length_prefixed_bytes": ("LEBU", "RAW"),
    P + "actor_id": ("LEBU", "RAW"),
    P + "utf_8": ("RAW",),
}
LENGTH_PREFIXED = P + "length_prefixed"


def norm(seq):
    out = []
    for t in seq:
        if t == "RAW" and out and out[-1] == "RAW":
            continue
        out.append(t)
    return tuple(out)


class Abstractor:
    def __init__(self, facts, mode):
        self.f = facts
        self.mode = mode          # 'w' or 'r'
        self.memo = {}
        self.stack = []
        self.notes = []
        self.sites = {}           # fn path -> list of (block, token kinds) for provenance checks

    def fn_by_norm(self, name):
        c = [p for p in self.f.fns if norm_fn(p) == name and not p.startswith("bin:")]
        return c[0] if len(c) == 1 else None

    # ------------------------------------------------------------------------------------------
    def seqs(self, path, closures=None):
        """set of normalised token tuples of function `path`; closures: {param index: callable path}"""
        key = (path, tuple(sorted((closures or {}).items())))
        if key in self.memo:
            return self.memo[key]
        if path in self.stack or len(self.stack) > 6:
            return {()}
        rec = self.f.fns.get(path)
        if rec is None:
            return {("?%s" % norm_fn(path),)}
        self.stack.append(path)
        b = cfg.body(rec)
        tok = {}
        for bi, t in b.calls():
            ts = self.tokens_of_call(b, bi, t, closures or {})
            if ts:
                tok[bi] = ts
        self.sites[path] = sorted((bi, v) for bi, v in tok.items())
        dead = self.error_blocks(b)
        # loops: blocks on a cycle get their tokens wrapped
        memo = {}

        def go(bi, on_path):
            if bi in dead:
                return None
            if bi in on_path:
                return {()}          # back edge: cut
            if bi in memo and not (on_path & memo[bi][1]):
                return memo[bi][0]
            here = tok.get(bi, [()])
            blk = b.blocks[bi]
            if blk["t"]["k"] == "return":
                res = set(norm(h) for h in here)
            else:
                res = set()
                succ = b.succ[bi]
                alive = False
                for s in succ:
                    r = go(s, on_path | {bi})
                    if r is None:
                        continue
                    alive = True
                    for h in here:
                        for tail in r:
                            res.add(norm(tuple(h) + tuple(tail)))
                            if len(res) > MAX_SEQS:
                                raise TooManyPaths(path)
                if not alive:
                    res = None if succ else set()
            memo[bi] = (res, set(on_path))
            return res
        out = go(0, frozenset()) or set()
        # tokens inside a cycle of the function itself are repetitions
        out = prune_zero_iterations(self.wrap_loops(b, tok, out))
        self.stack.pop()
        self.memo[key] = out
        return out

    def wrap_loops(self, b, tok, out):
        # a token-emitting block that can reach itself is a loop body: replace its tokens by ('LOOP', tokens)
        loopers = [bi for bi in tok if any(b.can_reach(s, bi) for s in b.succ[bi])]
        if not loopers:
            return out
        res = set()
        body = []
        for bi in sorted(loopers):
            for alt in tok[bi]:
                body.append(alt)
        # conservative: every sequence containing the loop body's tokens gets them wrapped once
        for seq in out:
            seq = list(seq)
            for alt in body:
                alt = list(norm(alt))
                n = len(alt)
                for i in range(len(seq) - n + 1):
                    if seq[i:i + n] == alt:
                        seq[i:i + n] = [("LOOP", tuple(alt))]
                        break
            res.add(tuple(seq))
        return res

    def error_blocks(self, b):
        dead = set()
        for bi, blk in enumerate(b.blocks):
            if blk.get("cleanup"):
                dead.add(bi)
                continue
            for s in blk["st"]:
                if s["d"]["l"] == 0 and not s["d"]["p"] and util.is_err_agg(s["rv"]):
                    dead.add(bi)
            t = blk["t"]
            if t["k"] == "call" and t["dst"]["l"] == 0 and util.is_from_residual(t):
                dead.add(bi)
            if t["k"] == "call" and "target" not in t:
                dead.add(bi)      # diverging call (panic)
        return dead

    def remaining_input_used(self, b, bi, t):
        """does the Input returned by this parser call flow anywhere (field .0 of its Ok tuple is read)?"""
        S = {t["dst"]["l"]}
        changed = True
        used = False
        while changed:
            changed = False
            for blk in b.blocks:
                for s in blk["st"]:
                    rv = s["rv"]
                    for o in rv.get("o", ()):
                        pl = util.op_place(o)
                        if pl and pl["l"] in S:
                            ty = b.local_ty(pl["l"])
                            if ty.startswith("(automerge::storage::parse::Input") and pl["p"][:1] == [".0"]:
                                used = True
                            if "@Break" in pl["p"]:
                                continue           # the error residual carries no Input
                            if s["d"]["l"] not in S and not (ty.startswith("(automerge::storage::parse::Input") and pl["p"][:1] == [".1"]):
                                S.add(s["d"]["l"])
                                changed = True
                tt = blk["t"]
                if tt["k"] == "call" and tt["dst"]["l"] not in S:
                    if any((util.op_place(a) or {}).get("l") in S for a in tt["args"]):
                        nf = norm_fn(tt.get("fn")) or ""
                        if nf in ("core::ops::try_trait::Try::branch", "core::result::Result::map_err", "core::result::Result::map"):
                            S.add(tt["dst"]["l"])
                            changed = True
        if 0 in S:
            used = True           # returned to the caller as is
        return used

    # ------------------------------------------------------------------------------------------
    def callable_of(self, b, op):
        """the function item / closure an operand denotes (path) or ('param', index)"""
        k = util.op_const(op)
        if k is not None and "fn" in k:
            return k["fn"]
        pl = util.op_place(op)
        if pl is None:
            return None
        o = b.origin(pl["l"], tuple(pl["p"]))
        base = o[0]
        if 1 <= base <= b.argc:
            return ("param", base)
        d = b.single_def(base)
        if d and d[1] != "t":
            rv = d[2]["rv"]
            if rv["k"] == "Agg" and rv.get("ak") == "closure":
                return rv["closure"]
            if rv["k"] == "Use":
                return self.callable_of(b, rv["o"][0])
        # zero-sized fn item stored in a local of fn-def type
        ty = b.local_ty(base)
        if ty.startswith("fn(") or "{closure@" in ty:
            for p, r in self.f.fns.items():
                pass
        return None

    def tokens_of_call(self, b, bi, t, closures):
        fn = t.get("fn")
        nfn = norm_fn(fn) if fn else None
        res = norm_fn(t.get("res")) if t.get("res") else None
        prim = W_PRIM if self.mode == "w" else R_PRIM
        if self.mode == "w" and "vec" in t.get("mac", []) and (nfn or "").startswith("alloc::boxed::Box") and "[u8;" in (t.get("fnargs") or ""):
            return [("RAW",)]          # vec![a, b, ..] literal of bytes
        if self.mode == "r" and (nfn in prim or res in prim) and not self.remaining_input_used(b, bi, t):
            return None           # look-ahead: the advanced Input is thrown away, nothing is consumed
        if nfn in prim or res in prim:
            if self.mode == "w" and (nfn or "").endswith("Extend::extend") and "u8" not in " ".join(t.get("argtys", [])[:1]):
                return None
            if self.mode == "w" and nfn in ("alloc::slice::<impl [T]>::into_vec", "alloc::vec::from_elem") and "u8" not in (t.get("fnargs") or "") + " ".join(t.get("ga", [])):
                return None
            return [prim.get(nfn) or prim.get(res)]
        if self.mode == "r" and nfn == LENGTH_PREFIXED:
            inner = self.callable_of(b, t["args"][0])
            if isinstance(inner, tuple):
                inner = closures.get(inner[1])
            body = self.seqs(inner) if inner else {("?",)}
            return [("LEBU", ("LOOP", alt)) for alt in sorted(body, key=str)] or [("LEBU", ("LOOP", ()))]
        # invocation of a closure / fn parameter
        if nfn in ("core::ops::function::Fn::call", "core::ops::function::FnMut::call_mut", "core::ops::function::FnOnce::call_once", "automerge::storage::parse::Parser::parse"):
            target = self.callable_of(b, t["args"][0])
            if isinstance(target, tuple):
                target = closures.get(target[1])
            if target is None:
                return None
            if self.mode == "r":
                # calling the closure returned by length_prefixed(..) was already accounted for at its construction
                rec = self.f.fns.get(target)
                if rec is None:
                    return None
            body = self.seqs(target)
            return [alt for alt in sorted(body, key=str)] if body else None
        # local helper taking the buffer / the input: inline
        target = t.get("res") or fn
        rec = self.f.fns.get(target)
        if rec is None or rec["ckey"][0] != "automerge":
            return None
        argtys = t.get("argtys", [])
        if self.mode == "w":
            takes = any(ty in ("&mut alloc::vec::Vec<u8>",) for ty in argtys)
        else:
            takes = any(util.base_ty(ty) == "automerge::storage::parse::Input" for ty in argtys)
            if takes:
                # a fresh Input::new(..) over bytes that were already consumed is a nested grammar, not a continuation
                for a, ty in zip(t["args"], argtys):
                    if util.base_ty(ty) == "automerge::storage::parse::Input":
                        pv = b.provenance(a, through_calls=False)
                        if any(norm_fn(c) == "automerge::storage::parse::Input::new" for c in pv.callees()) and not (1 <= (b.operand_origin(a) or (0,))[0] <= b.argc):
                            if self.stack and len(self.stack) >= 1 and b.path != self.stack[0]:
                                takes = False
        if not takes:
            return None
        cl = {}
        for i, a in enumerate(t["args"]):
            c = self.callable_of(b, a)
            if isinstance(c, tuple):
                c = closures.get(c[1])
            if c:
                cl[i + 1] = c
        body = self.seqs(target, cl)
        return [alt for alt in sorted(body, key=str)] if body else None


def strip_loops(seq):
    return tuple(t for t in seq if not (isinstance(t, tuple) and t and t[0] == "LOOP"))


def prune_zero_iterations(seqs):
    """a `for` loop that runs zero times leaves a path without its LOOP token; such a sequence is an artefact when the
    same sequence with the LOOP token present is also in the set (the grammar always has the repetition, possibly empty)"""
    out = set(seqs)
    for s in list(seqs):
        for t in seqs:
            if t is s or len(t) <= len(s):
                continue
            # is s obtained from t by deleting some LOOP tokens?
            i = 0
            ok = True
            for tok in t:
                if i < len(s) and tok == s[i]:
                    i += 1
                elif isinstance(tok, tuple) and tok and tok[0] == "LOOP":
                    continue
                else:
                    ok = False
                    break
            if ok and i == len(s):
                out.discard(s)
                break
    return out


class TooManyPaths(Exception):
    pass
