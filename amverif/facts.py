"""Fact extraction (runs the rustc_private driver over /repo/rust) and loading.

Nothing here executes automerge code: `cargo +nightly check` type-checks the workspace and the
driver dumps MIR facts after analysis.
"""
import fcntl
import glob
import hashlib
import json
import os
import shutil
import subprocess
import sys
import time

VERIF = os.path.dirname(os.path.dirname(os.path.abspath(__file__)))
REPO = os.environ.get("AMVERIF_REPO", "/repo")
RUST = os.path.join(REPO, "rust")
CACHE = os.path.join(VERIF, ".cache")
DRIVER_DIR = os.path.join(VERIF, "driver")
DRIVER_BIN = os.path.join(DRIVER_DIR, "target", "debug", "amverif-driver")
PACKAGES = ["automerge", "hexane", "automerge-c", "automerge-cli"]
# fact files expected: (crate name, kind)
EXPECT = [("automerge", "lib"), ("hexane", "lib"), ("automerge_core", "lib"), ("automerge", "bin")]
# floors measured on the pinned tree (dev config): bodies per fact file. A build that stopped covering
# a package, or a wrapper silently skipped by cargo's freshness cache, falls below these.
FLOORS = {("automerge", "lib"): 3900, ("hexane", "lib"): 1000, ("automerge_core", "lib"): 400, ("automerge", "bin"): 100}

CONFIGS = {
    # what the test suite builds: debug assertions + overflow checks on
    "dev": "-Zmir-opt-level=0 -Awarnings",
    # release semantics: overflow checks / debug_assert compiled out
    "rel": "-Zmir-opt-level=0 -Awarnings -Cdebug-assertions=off -Coverflow-checks=off",
}


class FactError(Exception):
    pass


def _sysroot():
    return subprocess.check_output(["rustc", "+nightly", "--print", "sysroot"], text=True).strip()


def tree_hash(rust_dir=None):
    """sha256 over every file cargo can see under <repo>/rust (not target/)."""
    rust_dir = rust_dir or RUST
    h = hashlib.sha256()
    paths = []
    for root, dirs, files in os.walk(rust_dir):
        dirs[:] = sorted(d for d in dirs if d not in ("target", ".git", "node_modules"))
        for f in sorted(files):
            if f.endswith(".rs") or f in ("Cargo.toml", "Cargo.lock", "build.rs", "cbindgen.toml") or f.endswith(".h.in"):
                paths.append(os.path.join(root, f))
    for p in paths:
        h.update(os.path.relpath(p, rust_dir).encode())
        h.update(b"\0")
        with open(p, "rb") as fh:
            h.update(fh.read())
        h.update(b"\0")
    # the driver is part of the key: new driver => new facts
    with open(os.path.join(DRIVER_DIR, "src", "main.rs"), "rb") as fh:
        h.update(fh.read())
    return h.hexdigest()[:24]


def build_driver():
    env = dict(os.environ, CARGO_NET_OFFLINE="true")
    r = subprocess.run(["cargo", "+nightly", "build", "--offline"], cwd=DRIVER_DIR, env=env,
                       stdout=subprocess.PIPE, stderr=subprocess.STDOUT, text=True)
    if r.returncode != 0 or not os.path.exists(DRIVER_BIN):
        raise FactError("driver build failed:\n" + r.stdout[-4000:])


def _driver_fresh():
    if not os.path.exists(DRIVER_BIN):
        return False
    src = os.path.join(DRIVER_DIR, "src", "main.rs")
    return os.path.getmtime(DRIVER_BIN) >= os.path.getmtime(src)


def extract(config="dev", rust_dir=None, log=sys.stderr):
    """Return the directory holding fact files for the current tree, extracting if needed."""
    rust_dir = rust_dir or RUST
    os.makedirs(CACHE, exist_ok=True)
    lock = open(os.path.join(CACHE, ".lock"), "w")
    fcntl.flock(lock, fcntl.LOCK_EX)
    try:
        if not _driver_fresh():
            build_driver()
        key = tree_hash(rust_dir) + "-" + config
        out = os.path.join(CACHE, "facts", key)
        if os.path.exists(os.path.join(out, "OK")):
            os.utime(os.path.join(out, "OK"))
            return out
        t0 = time.time()
        tmp = out + ".tmp%d" % os.getpid()
        shutil.rmtree(tmp, ignore_errors=True)
        os.makedirs(tmp)
        target = os.path.join(CACHE, "target-" + config)
        # cargo's freshness cache would skip the wrapper for unchanged workspace crates: drop
        # their fingerprints so that every member is re-analysed (dependencies stay cached).
        fp = os.path.join(target, "debug", ".fingerprint")
        if os.path.isdir(fp):
            for d in os.listdir(fp):
                if d.split("-")[0] in ("automerge", "hexane") or d.startswith(("automerge-", "hexane-")):
                    shutil.rmtree(os.path.join(fp, d), ignore_errors=True)
        env = dict(os.environ)
        env.update({
            "CARGO_NET_OFFLINE": "true",
            "RUSTC_ICE": "0",
            "LD_LIBRARY_PATH": _sysroot() + "/lib:" + env.get("LD_LIBRARY_PATH", ""),
            "RUSTFLAGS": CONFIGS[config],
            "RUSTC_WORKSPACE_WRAPPER": DRIVER_BIN,
            "AMVERIF_OUT": tmp,
            "CARGO_TARGET_DIR": target,
        })
        env.pop("RUSTC_WRAPPER", None)
        cmd = ["cargo", "+nightly", "check", "--offline"]
        for p in PACKAGES:
            cmd += ["-p", p]
        r = subprocess.run(cmd, cwd=rust_dir, env=env, stdout=subprocess.PIPE, stderr=subprocess.STDOUT, text=True)
        if r.returncode != 0:
            shutil.rmtree(tmp, ignore_errors=True)
            raise FactError("cargo check failed (the tree does not compile?):\n" + r.stdout[-6000:])
        # every expected fact file must exist and be above its floor
        for (c, k) in EXPECT:
            fs = glob.glob(os.path.join(tmp, "%s-%s-*.jsonl" % (c, k)))
            if len(fs) != 1:
                shutil.rmtree(tmp, ignore_errors=True)
                raise FactError("fact file for %s (%s) missing or duplicated: %r" % (c, k, fs))
            os.rename(fs[0], os.path.join(tmp, "%s-%s.jsonl" % (c, k)))
        with open(os.path.join(tmp, "OK"), "w") as fh:
            fh.write(json.dumps({"wall_s": time.time() - t0, "config": config, "rust_dir": rust_dir}))
        shutil.rmtree(out, ignore_errors=True)
        os.rename(tmp, out)
        print("[facts] extracted %s in %.1fs" % (key, time.time() - t0), file=log)
        _gc()
        return out
    finally:
        fcntl.flock(lock, fcntl.LOCK_UN)
        lock.close()


def _gc(keep=6):
    d = os.path.join(CACHE, "facts")
    ents = []
    for e in os.listdir(d):
        p = os.path.join(d, e)
        ok = os.path.join(p, "OK")
        if os.path.exists(ok):
            ents.append((os.path.getmtime(ok), p))
        elif ".tmp" in e and time.time() - os.path.getmtime(p) > 3600:
            shutil.rmtree(p, ignore_errors=True)
    ents.sort(reverse=True)
    for _, p in ents[keep:]:
        shutil.rmtree(p, ignore_errors=True)


class Crate:
    def __init__(self, name, kind):
        self.name, self.kind = name, kind
        self.fns = {}      # path -> body record
        self.adts = {}
        self.impls = []
        self.traits = {}
        self.summary = None


class Facts:
    """All fact files of one extraction."""

    def __init__(self, directory, config="dev"):
        self.dir = directory
        self.config = config
        self.crates = {}
        self.fns = {}       # path -> record (lib crates; cli bin is keyed 'bin:'+path)
        self.adts = {}
        self.impls = []
        self.traits = {}
        for (c, k) in EXPECT:
            cr = Crate(c, k)
            p = os.path.join(directory, "%s-%s.jsonl" % (c, k))
            with open(p) as fh:
                for line in fh:
                    r = json.loads(line)
                    kk = r["k"]
                    if kk == "fn":
                        r["ckey"] = (c, k)
                        cr.fns[r["path"]] = r
                    elif kk == "adt":
                        cr.adts[r["path"]] = r
                    elif kk == "impl":
                        cr.impls.append(r)
                    elif kk == "trait":
                        cr.traits[r["path"]] = r
                    elif kk == "summary":
                        cr.summary = r
            if cr.summary is None or cr.summary["bodies"] < FLOORS[(c, k)]:
                raise FactError("fact file %s-%s below floor: %r < %d" % (c, k, cr.summary, FLOORS[(c, k)]))
            self.crates[(c, k)] = cr
            pref = "bin:" if k == "bin" else ""
            for p_, r in cr.fns.items():
                self.fns[pref + p_] = r
            for p_, r in cr.adts.items():
                self.adts[pref + p_] = r
            self.impls += cr.impls
            self.traits.update(cr.traits)
        self._callers = None

    def fn(self, path):
        r = self.fns.get(path)
        if r is None:
            raise AnchorMissing(path)
        return r

    def find(self, pred):
        return [r for r in self.fns.values() if pred(r)]

    def closures_of(self, path):
        """closure bodies whose typeck root is `path` (transitively nested)."""
        return [r for r in self.fns.values() if r.get("root") == path]

    def calls(self, body):
        for bi, b in enumerate(body["blocks"]):
            t = b["t"]
            if t["k"] == "call":
                yield bi, t

    def callee(self, t):
        """best resolved callee path of a call terminator (or None for indirect)."""
        return t.get("res") or t.get("fn")

    def callers(self):
        """map callee path -> list of (caller path, block index); closures count for themselves."""
        if self._callers is None:
            m = {}
            for p, r in self.fns.items():
                for bi, t in self.calls(r):
                    for c in {t.get("res"), t.get("fn")}:
                        if c:
                            m.setdefault(c, []).append((p, bi))
                # function items taken by value (fn pointers / passed to map etc.)
                for bi, b in enumerate(r["blocks"]):
                    for op in iter_operands_block(b):
                        k = op.get("k")
                        if k and "fn" in k:
                            m.setdefault(k["fn"], []).append((p, bi))
            self._callers = m
        return self._callers


class AnchorMissing(Exception):
    pass


def iter_operands_block(b):
    for s in b["st"]:
        rv = s["rv"]
        for o in rv.get("o", ()):
            yield o
    t = b["t"]
    if t["k"] == "call":
        for o in t["args"]:
            yield o
        if "fnop" in t:
            yield t["fnop"]


_loaded = {}


def load(config="dev", rust_dir=None):
    import gc
    import pickle
    key = (config, rust_dir or RUST)
    if key not in _loaded:
        d = extract(config, rust_dir)
        pk = os.path.join(d, "facts.pickle")
        f = None
        if os.path.exists(pk):
            try:
                gc.disable()
                with open(pk, "rb") as fh:
                    f = pickle.load(fh)
            except Exception:
                f = None
            finally:
                gc.enable()
        if f is None:
            f = Facts(d, config)
            try:
                tmp = pk + ".tmp%d" % os.getpid()
                with open(tmp, "wb") as fh:
                    pickle.dump(f, fh, protocol=pickle.HIGHEST_PROTOCOL)
                os.rename(tmp, pk)
            except Exception:
                pass
        _loaded[key] = f
    return _loaded[key]
