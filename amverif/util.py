"""Small helpers shared by the rule modules."""
import re
from . import cfg


def strip_refs(ty):
    t = ty.strip()
    while True:
        if t.startswith("&mut "):
            t = t[5:]
        elif t.startswith("&"):
            t = t[1:].lstrip()
        elif t.startswith("*const "):
            t = t[7:]
        elif t.startswith("*mut "):
            t = t[5:]
        else:
            return t


def base_ty(ty):
    """type constructor path without generic args: `a::B<'_, X>` -> `a::B`"""
    t = strip_refs(ty)
    i = t.find("<")
    return t if i < 0 else t[:i]


def norm_fn(path):
    """normalise a def path for comparisons: drop lifetime/generic parameter lists in impl headers,
    `Chunk::<'a>::parse` -> `Chunk::parse`"""
    if path is None:
        return None
    prev = None
    s = path
    while prev != s:
        prev = s
        s = re.sub(r"::<[^<>]*>", "", s)
    return s


def callee(t):
    return norm_fn(t.get("res") or t.get("fn"))


def decl(t):
    return norm_fn(t.get("fn"))


def callee_in(t, names):
    """resolved or declared callee (normalised) is one of names"""
    return callee(t) in names or decl(t) in names


def op_place(o):
    return o.get("c") or o.get("m")


def op_const(o):
    return o.get("k")


def where(rec_or_body, bi=None):
    """file:line of block bi's terminator (reporting only)"""
    rec = rec_or_body.rec if isinstance(rec_or_body, cfg.Body) else rec_or_body
    if bi is None:
        return rec["sp"]
    b = rec["blocks"][bi]
    t = b["t"]
    if "sp" in t:
        return t["sp"]
    if b["st"]:
        return b["st"][-1]["sp"]
    return rec["sp"]


def ordinal_keys(items, keyf):
    """attach an ordinal among equal keys so that instance keys are unique without line numbers"""
    seen = {}
    out = []
    for it in items:
        k = keyf(it)
        n = seen.get(k, 0)
        seen[k] = n + 1
        out.append(("%s|%d" % (k, n), it))
    return out


def ret_defs(b):
    """every definition of _0 in body b: list of (block, 'call'|'stmt', record)"""
    out = []
    for (bi, si, rec) in b.defs().get(0, []):
        out.append((bi, "call" if si == "t" else "stmt", rec))
    return out


def is_err_agg(rv):
    return rv.get("k") == "Agg" and rv.get("ak") == "adt" and rv.get("adt") == "core::result::Result" and rv.get("variant") == "Err"


def is_ok_agg(rv):
    return rv.get("k") == "Agg" and rv.get("ak") == "adt" and rv.get("adt") == "core::result::Result" and rv.get("variant") == "Ok"


def is_from_residual(t):
    return decl(t) == "core::ops::try_trait::FromResidual::from_residual"


def first_ret_assignments(b, start, stop_edges=()):
    """Walk forward from block `start`; on each path find the first block that assigns _0.
    Returns list of (block, kind, rec); kind 'none' with block of a return reached without assignment."""
    out = []
    seen = set()
    st = [start]
    stop = set(stop_edges)
    while st:
        x = st.pop()
        if x in seen:
            continue
        seen.add(x)
        blk = b.blocks[x]
        hit = None
        for s in blk["st"]:
            if s["d"]["l"] == 0:
                hit = (x, "stmt", s)
                break
        t = blk["t"]
        if hit is None and t["k"] == "call" and t["dst"]["l"] == 0:
            hit = (x, "call", t)
        if hit is not None:
            out.append(hit)
            continue
        if t["k"] == "return":
            out.append((x, "none", None))
            continue
        for y in b.succ[x]:
            if (x, y) not in stop:
                st.append(y)
    return out
