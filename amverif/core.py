"""Check context: obligations, floors, known findings, evidence and exit protocol."""
import json
import os
import sys
import time

from . import facts as F
from . import cfg

VERIF = F.VERIF
EVID = os.environ.get("AMVERIF_EVID") or os.path.join(VERIF, "evidence")
KNOWN = os.path.join(VERIF, "known_findings.txt")
TABLES = os.path.join(VERIF, "tables")

TRUSTED = [
    "rustc 1.97.0-nightly: type checking, trait resolution and MIR construction for the profile analysed",
    "/verif/driver (fact extractor, ~800 lines)",
    "/verif/amverif rule code and the reviewed tables under /verif/tables",
]


class Ctx:
    def __init__(self, pid, tier="quick", seed=0):
        self.pid = pid
        self.tier = tier
        self.seed = seed
        self.config = os.environ.get("AMVERIF_CONFIG", "dev")
        self.t0 = time.time()
        self.obs = []          # obligations
        self.floors = []
        self.notes = []
        self.samples = []
        self.analysed_fns = set()
        self.rules = {}
        self._facts = {}
        self.assumptions = []
        self.level = "other"
        self.explanation = ""
        self.decides = ""
        self.not_decided = ""

    # ---- facts -----------------------------------------------------------------------------
    def facts(self, config=None):
        config = config or self.config
        if config not in self._facts:
            self._facts[config] = F.load(config)
        return self._facts[config]

    def fn(self, path, config=None):
        """anchor lookup; a missing anchor fails the check closed"""
        r = self.facts(config).fns.get(path)
        if r is None:
            raise F.AnchorMissing(path)
        self.analysed_fns.add(path)
        return r

    def body(self, path, config=None):
        return cfg.body(self.fn(path, config))

    def table(self, name):
        """reviewed table: TSV `key<TAB>reason`; returns dict key->reason"""
        p = os.path.join(TABLES, name)
        out = {}
        if os.path.exists(p):
            for line in open(p):
                line = line.rstrip("\n")
                if not line or line.startswith("#"):
                    continue
                parts = line.split("\t")
                if len(parts) < 2 or not parts[1].strip():
                    raise SystemExit("table %s: row without reason: %r" % (name, line))
                out[parts[0]] = parts[1]
        return out

    # ---- obligations -----------------------------------------------------------------------
    def rule(self, rid, text):
        self.rules[rid] = text

    def ob(self, rule, key, ok, where="", detail="", via=None, nontrivial=True):
        """Record one rule instance. ok: True (discharged by the rule), False (violation).
        via: 'rule' | 'table:<reason>'"""
        self.obs.append({
            "rule": rule, "key": "%s|%s" % (rule, key), "ok": bool(ok), "where": where,
            "detail": detail, "via": via or ("rule" if ok else None), "nontrivial": nontrivial,
        })

    def floor(self, what, count, minimum):
        self.floors.append({"what": what, "count": count, "floor": minimum, "ok": count >= minimum})

    def note(self, s):
        self.notes.append(s)


def load_known():
    """lines `finding: property=<id> key=<key> :: <what>`; `fixed:` lines suppress nothing"""
    out = []
    if os.path.exists(KNOWN):
        for line in open(KNOWN):
            line = line.strip()
            if line.startswith("finding:"):
                rest = line[len("finding:"):].strip()
                prop, rest = rest.split(" ", 1)
                key, _, what = rest.partition(" :: ")
                assert prop.startswith("property=") and key.startswith("key="), line
                out.append({"status": "finding", "property": prop[len("property="):], "key": key[len("key="):], "what": what})
    return out


def finish(ctx, error=None):
    """Write evidence, print protocol lines, return exit code."""
    os.makedirs(EVID, exist_ok=True)
    pid = ctx.pid
    known = {(k["property"], k["key"]): k for k in load_known() if k.get("status") == "finding"}
    viol, kf = [], []
    for o in ctx.obs:
        if not o["ok"]:
            k = known.get((pid, o["key"]))
            if k is not None:
                kf.append((o, k))
            else:
                viol.append(o)
    for fl in ctx.floors:
        if not fl["ok"]:
            viol.append({"rule": "floor", "key": "floor|%s" % fl["what"], "where": "", "ok": False,
                         "detail": "rule instances found (%d) below the floor confirmed on the pinned tree (%d): the rule would pass vacuously" % (fl["count"], fl["floor"])})
    if error is not None:
        viol.append({"rule": "anchor", "key": "anchor|%s" % error, "where": "", "ok": False,
                     "detail": "anchor missing or facts unavailable: %s (the check fails closed)" % error})
    # listed findings that no longer fire are reported as stale (informational)
    fired = {o["key"] for o, _ in kf}
    stale = [k for (p, key), k in known.items() if p == pid and key not in fired]

    n_ob = len(ctx.obs)
    n_ok = sum(1 for o in ctx.obs if o["ok"])
    distinct = len({o["key"] for o in ctx.obs if o["nontrivial"]})
    samples = ctx.samples[:] or [{"key": o["key"], "where": o["where"], "status": "ok" if o["ok"] else "VIOLATION", "via": o["via"], "detail": o["detail"][:300]} for o in ctx.obs[:8]]
    cov = {
        "evaluations": n_ob,
        "distinct_nontrivial": distinct,
        "rule": "one evaluation per rule instance found in the MIR of /repo's current tree (call site, "
                "terminator, table row, function); an instance is non-trivial when the rule had to inspect "
                "the code to discharge it (not a floor or bookkeeping entry); distinct by instance key. "
                + " ".join("%s: %s" % kv for kv in sorted(ctx.rules.items())),
        "samples": samples,
        "obligations": n_ob,
        "discharged": n_ok + len(kf) * 0,
        "checker_cmd": "./check %s --tier %s" % (pid, ctx.tier),
        "trusted_base": TRUSTED,
        "explanation": ctx.explanation or ("Static analysis over rustc MIR facts. Decides: %s Not decided: %s" % (ctx.decides, ctx.not_decided)),
        "exhaustive": True,
        "functions_analysed": sorted(ctx.analysed_fns)[:400],
        "n_functions_analysed": len(ctx.analysed_fns),
        "floors": ctx.floors,
        "rules": ctx.rules,
        "decides": ctx.decides,
        "not_decided": ctx.not_decided,
        "via_table": [{"key": o["key"], "reason": o["via"]} for o in ctx.obs if o["ok"] and o["via"] and o["via"].startswith("table:")],
        "known_findings_fired": [o["key"] for o, _ in kf],
        "known_findings_stale": [k["key"] for k in stale],
        "notes": ctx.notes,
        "fact_configs": sorted(ctx._facts.keys()),
        "tree_hash": F.tree_hash(),
    }
    level = ctx.level
    if level == "proof" and (n_ok != n_ob or n_ob == 0):
        level = "other"
    ev = {
        "property_id": pid, "tier": ctx.tier, "seed": ctx.seed, "level": level, "coverage": cov,
        "assumptions": ctx.assumptions + ["the structural clause decided is a necessary condition of the property, not the whole behaviour (see coverage.decides / not_decided)"],
        "wall_s": round(time.time() - ctx.t0, 3), "violations": len(viol),
    }
    with open(os.path.join(EVID, "%s.json" % pid), "w") as fh:
        json.dump(ev, fh, indent=1)
    for o, k in kf:
        print("KNOWN-FINDING: property=%s %s %s" % (pid, o["key"], k.get("what", "")))
    for k in stale:
        print("note: listed finding no longer fires: %s" % k["key"])
    if viol:
        rp = os.path.join(EVID, "%s.violation.json" % pid)
        with open(rp, "w") as fh:
            json.dump({"property": pid, "violations": viol}, fh, indent=1)
        for v in viol:
            print("  violated: %s at %s: %s" % (v["key"], v["where"], v["detail"]))
        print("VIOLATION property=%s replay=%s" % (pid, rp))
        return 1
    else:
        try:
            os.remove(os.path.join(EVID, "%s.violation.json" % pid))
        except OSError:
            pass
    print("OK property=%s obligations=%d discharged=%d known_findings=%d wall=%.1fs" % (pid, n_ob, n_ok, len(kf), time.time() - ctx.t0))
    return 0
