"""Reusable rule fragments: guards, mutation points, who-may-call."""
from . import cfg, util
from .util import callee, decl, norm_fn


def bool_switch_edge(b, sb, operand_value):
    """edge of bool switch `sb` taken when the switch operand has the given truth value"""
    t = b.blocks[sb]["t"]
    want = "1" if operand_value else "0"
    for v, tb in t["targets"]:
        if v == want:
            return (sb, tb)
    return (sb, t["otherwise"])


def guard_edges(b, pred):
    """pred(src_dict) -> None (not this predicate) | True/False: the truth value of the *underlying*
    predicate we want the edge for. Returns list of edges."""
    out = []
    for sb, sw in b.switches():
        if sw["ty"] != "bool":
            continue
        src = b.bool_operand_source(sw["op"])
        if src is None:
            continue
        want = pred(src)
        if want is None:
            continue
        operand_value = (not want) if src["negated"] else want
        out.append(bool_switch_edge(b, sb, operand_value))
    return out


def place_pred(param, fields, want):
    """predicate: switch operand is a load of param.<fields>"""
    def p(src):
        if src["kind"] != "place":
            return None
        o = src["origin"]
        if o[0] == param and tuple(e for e in o[1] if e not in ("*", "&")) == tuple(fields):
            return want
        return None
    return p


def call_pred(names, want):
    def p(src):
        if src["kind"] == "call" and (norm_fn(src["callee"]) in names or norm_fn(src.get("decl")) in names):
            return want
        return None
    return p


def mutation_points(b, is_doc_ty, param=None):
    """Blocks where the body may mutate a value of a 'document' type reachable from its parameters:
    (a) a call with an argument of type `&mut T`, is_doc_ty(T); (b) a direct write through a place
    rooted at a `&mut T` parameter. Returns [(block, description, span)]."""
    out = []
    for bi in sorted(b.live_blocks()):
        blk = b.blocks[bi]
        if blk.get("cleanup"):
            continue
        for s in blk["st"]:
            d = s["d"]
            if "*" in d["p"]:
                o = b.origin(d["l"], tuple(d["p"]))
                root_ty = b.local_ty(o[0])
                if root_ty.startswith("&mut ") and is_doc_ty(util.strip_refs(root_ty)) and (param is None or o[0] == param):
                    out.append((bi, "write to %s" % b.origin_str(o), s["sp"]))
        t = blk["t"]
        if t["k"] == "call":
            for a, ty in zip(t["args"], t["argtys"]):
                if ty.startswith("&mut ") and is_doc_ty(util.strip_refs(ty)):
                    out.append((bi, "call %s(&mut %s)" % (callee(t), util.base_ty(ty).split("::")[-1]), t["sp"]))
                    break
    return out
