"""Both-ways test of the checkers: every mutation patch under /verif/selftest and /verif/seeded is
applied to a scratch copy of /repo (under $TMPDIR, removed afterwards), must still type-check, and
the named check must report the expected instance key; patches under selftest/silent are behaviour-preserving edits on which every
check must stay silent. usage: ./check selftest [name-substring ...]
"""
import json
import os
import shutil
import subprocess
import sys
import tempfile

from . import facts

VERIF = facts.VERIF


def entries():
    out = []
    idx = os.path.join(VERIF, "selftest", "index.json")
    if os.path.exists(idx):
        for e in json.load(open(idx)):
            e["patch_path"] = os.path.join(VERIF, "selftest", e["patch"])
            out.append(e)
    # behaviour-preserving edits: every check must stay silent on them
    qd = os.path.join(VERIF, "selftest", "silent")
    if os.path.isdir(qd):
        for fn in sorted(os.listdir(qd)):
            if fn.endswith(".patch"):
                out.append({"name": "silent/" + fn[:-6], "property": "all", "expect": None, "patch_path": os.path.join(qd, fn), "silent": True})
    sd = os.path.join(VERIF, "seeded")
    if os.path.isdir(sd):
        for d in sorted(os.listdir(sd)):
            m = os.path.join(sd, d, "meta.json")
            if os.path.exists(m):
                meta = json.load(open(m))
                for chk in meta.get("detected_by", []):
                    out.append({"name": "seeded/" + d, "property": chk["check"], "expect": chk["expect"],
                                "patch_path": os.path.join(sd, d, "patch.diff")})
                if not meta.get("detected_by"):
                    out.append({"name": "seeded/" + d, "property": meta.get("property"), "expect": None,
                                "patch_path": os.path.join(sd, d, "patch.diff"), "undetected": True})
    return out


def scratch_copy():
    d = tempfile.mkdtemp(prefix="amverif_scratch_")
    subprocess.check_call(["rsync", "-a", "--exclude", "target", "--exclude", "node_modules", "--exclude", ".git",
                           os.path.join(facts.REPO, "rust"), d + "/"])
    return d


def run_entry(e):
    d = scratch_copy()
    try:
        r = subprocess.run(["patch", "-p1", "-s", "-i", e["patch_path"]], cwd=d, stdout=subprocess.PIPE, stderr=subprocess.STDOUT, text=True)
        if r.returncode != 0:
            return False, "patch does not apply: " + r.stdout[-500:]
        env = dict(os.environ, AMVERIF_REPO=d, AMVERIF_EVID=os.path.join(d, "evidence"))
        r = subprocess.run([os.path.join(VERIF, "check"), e["property"]], env=env, stdout=subprocess.PIPE, stderr=subprocess.STDOUT, text=True)
        out = r.stdout
        if "fact extraction failed" in out:
            return False, "mutant does not compile: " + out[-800:]
        if e.get("silent"):
            bad = [l for l in out.splitlines() if l.startswith("VIOLATION") or "violated:" in l]
            return (not bad and r.returncode == 0), ("all checks silent on a behaviour-preserving edit" if not bad and r.returncode == 0 else "FALSE ALARM: " + " ".join(bad)[:600])
        if e.get("undetected"):
            return True, "recorded as not detected (exit %d)" % r.returncode
        if r.returncode == 0:
            return False, "check stayed silent"
        if e["expect"] not in out:
            return False, "check fired but not on the expected instance %r:\n%s" % (e["expect"], out[-1500:])
        return True, "reported " + e["expect"]
    finally:
        shutil.rmtree(d, ignore_errors=True)


def main(argv):
    from concurrent.futures import ThreadPoolExecutor
    sel = argv
    bad = 0
    todo = [e for e in entries() if not sel or any(s in e["name"] or s == e["property"] for s in sel)]
    # each entry works on its own scratch copy and its own fact-cache key: AMVERIF_SELFTEST_JOBS of them run side by side
    jobs = max(1, int(os.environ.get("AMVERIF_SELFTEST_JOBS", "4")))
    with ThreadPoolExecutor(max_workers=jobs) as ex:
        for e, (ok, msg) in zip(todo, ex.map(run_entry, todo)):
            print("%s %-48s %s %s" % ("PASS" if ok else "FAIL", e["name"], e["property"], msg))
            sys.stdout.flush()
            if not ok:
                bad += 1
    print("selftest: %d entries, %d failed" % (len(todo), bad))
    return 1 if bad else 0
