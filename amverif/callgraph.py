"""Whole-program call graph over resolved callees (fact files of all workspace crates)."""
import re
from .util import norm_fn

_PRIMS = {"u8", "u16", "u32", "u64", "u128", "usize", "i8", "i16", "i32", "i64", "i128", "isize", "bool", "char", "str", "f32", "f64", "()", "!"}


def split_args(s):
    """split `A<B, C>, D` at top-level commas"""
    out, depth, cur = [], 0, ""
    for ch in s:
        if ch in "<([":
            depth += 1
        elif ch in ">)]":
            depth -= 1
        if ch == "," and depth == 0:
            out.append(cur.strip())
            cur = ""
        else:
            cur += ch
    if cur.strip():
        out.append(cur.strip())
    return out


def ty_head(t):
    """type constructor of a printed type, or None when it is a parameter / projection / opaque"""
    t = t.strip()
    while True:
        m = re.match(r"^&('\w+ )?(mut )?", t)
        if m and m.group(0):
            t = t[m.end():]
            continue
        if t.startswith("*const "):
            t = t[7:]
            continue
        if t.startswith("*mut "):
            t = t[5:]
            continue
        break
    if t.startswith("<") or t.startswith("impl ") or t.startswith("dyn ") or t == "_" or t.startswith("'"):
        return None
    if t in _PRIMS:
        return t
    if t.startswith("[") or t.startswith("("):
        return t[0]
    i = t.find("<")
    h = t if i < 0 else t[:i]
    if "::" not in h and re.match(r"^[A-Z][A-Za-z0-9_]*$", h):
        return None  # a type parameter
    return h


def compatible(a, b):
    ha, hb = ty_head(a), ty_head(b)
    return ha is None or hb is None or ha == hb


def trait_args(trait_ref):
    i = trait_ref.find("<")
    if i < 0:
        return []
    return [a for a in split_args(trait_ref[i + 1:-1]) if not a.startswith("'")]


class CallGraph:
    def __init__(self, facts):
        self.f = facts
        self.out = {}          # caller path -> set(callee path) (paths as in facts.fns keys where local)
        self.sites = {}        # (caller, callee) -> [block]
        self.impls_of = {}     # trait item path -> [(impl fn path, impl self type, trait args)]
        impl_hdr = {i["path"]: i for i in facts.impls}
        for p, r in facts.fns.items():
            ti = r.get("trait_item")
            if ti:
                h = impl_hdr.get(r.get("container"), {})
                self.impls_of.setdefault(ti, []).append((p, h.get("self", "_"), trait_args(h.get("trait_ref", ""))))
        # default method bodies are bodies too (path == trait item path)
        for p, r in facts.fns.items():
            outs = set()
            # a function "calls" its closures (they run at most when it or a callee invokes them)
            for bi, b in enumerate(r["blocks"]):
                for s in b["st"]:
                    rv = s["rv"]
                    if rv["k"] == "Agg" and rv.get("ak") in ("closure", "coroutine"):
                        outs.add(rv["closure"])
                    for o in rv.get("o", ()):
                        k = o.get("k")
                        if k and "fn" in k:
                            outs.add(k["fn"])
                t = b["t"]
                if t["k"] != "call":
                    continue
                for o in t["args"]:
                    k = o.get("k")
                    if k and "fn" in k:
                        outs.add(k["fn"])
                res, decl = t.get("res"), t.get("fn")
                tgt = []
                if res:
                    tgt.append(res)
                if decl and decl != res:
                    tgt.append(decl)
                # unresolved trait call (on a type parameter / dyn): may reach any impl
                if decl and t.get("trait") and (res is None or res == decl or t.get("reskind") == "virtual"):
                    ga = [a for a in t.get("ga", []) if not a.startswith("'")]
                    for (ip, iself, targs) in self.impls_of.get(decl, []):
                        if ga and not compatible(ga[0], iself):
                            continue
                        if any(not compatible(x, y) for x, y in zip(ga[1:], targs)):
                            continue
                        tgt.append(ip)
                for c in tgt:
                    outs.add(c)
                    self.sites.setdefault((p, c), []).append(bi)
            self.out[p] = outs
        self.inn = {}
        for p, outs in self.out.items():
            for c in outs:
                self.inn.setdefault(c, set()).add(p)

    def reach(self, roots, stop=()):
        seen = set()
        st = [r for r in roots]
        stop = set(stop)
        while st:
            x = st.pop()
            if x in seen or x in stop:
                continue
            seen.add(x)
            for y in self.out.get(x, ()):
                if y not in seen:
                    st.append(y)
        return seen

    def callers_closure(self, targets):
        """all functions from which some target is reachable"""
        seen = set()
        st = list(targets)
        while st:
            x = st.pop()
            if x in seen:
                continue
            seen.add(x)
            for y in self.inn.get(x, ()):
                if y not in seen:
                    st.append(y)
        return seen

    def path(self, src, dst_set):
        """one shortest call path from src to any of dst_set"""
        prev = {src: None}
        q = [src]
        while q:
            nq = []
            for x in q:
                if x in dst_set and x != src:
                    p = []
                    while x is not None:
                        p.append(x)
                        x = prev[x]
                    return p[::-1]
                for y in self.out.get(x, ()):
                    if y not in prev:
                        prev[y] = x
                        nq.append(y)
            q = nq
        return None


_cg = {}


def get(facts):
    cg = _cg.get(id(facts))
    if cg is None:
        cg = CallGraph(facts)
        _cg[id(facts)] = cg
    return cg
