"""R7: inventory and classification of discarded error channels (Result/Option unwrap/expect) and panic-capable constructs."""
from . import cfg, util, eam
from .util import norm_fn

RES_UNWRAP = ("core::result::Result::<T, E>::unwrap", "core::result::Result::<T, E>::expect", "core::result::Result::<T, E>::unwrap_unchecked")
OPT_UNWRAP = ("core::option::Option::<T>::unwrap", "core::option::Option::<T>::expect", "core::option::Option::<T>::unwrap_unchecked")
LIB_CRATES = (("automerge", "lib"), ("hexane", "lib"), ("automerge_core", "lib"))


class MayFail:
    """can a workspace function return Err? (shared with R4)"""

    def __init__(self, facts):
        self.e = eam.Eam.__new__(eam.Eam)
        self.e.f = facts

    def __call__(self, path):
        return self.e.may_fail(path)


def result_unwraps(f, crates=LIB_CRATES):
    """[(fn path, body, block, terminator, E, sources)] for every Result::unwrap/expect in shipped library code"""
    out = []
    for p, r in sorted(f.fns.items()):
        if r["ckey"] not in crates:
            continue
        b = None
        for bi, t in f.calls(r):
            if (t.get("fn") or "") in RES_UNWRAP:
                b = b or cfg.body(r)
                E = t["ga"][1] if len(t.get("ga", [])) > 1 else "?"
                pv = b.provenance(t["args"][0], through_calls=False, follow=cfg.TRANSPARENT)
                srcs = [(c, cb) for c, cb in pv.calls if (b.blocks[cb]["t"].get("fn") or "") not in cfg.TRANSPARENT]
                out.append((p, b, bi, t, E, srcs))
    return out


def classify_result_unwrap(f, mayfail, p, b, bi, t, E, srcs):
    """returns (class, reason) where class in 'infallible-type' | 'vec-writer' | 'callee-cannot-fail' | None"""
    if E == "core::convert::Infallible" or E.endswith("core::convert::Infallible>"):
        return "infallible-type", "the error type is uninhabited"
    if srcs:
        ts = [b.blocks[cb]["t"] for _, cb in srcs]
        if E == "std::io::error::Error" and all((norm_fn(x.get("fn")) or "").startswith(("leb128::write::", "std::io::Write::")) and x.get("argtys") and util.strip_refs(x["argtys"][0]) == "alloc::vec::Vec<u8>" for x in ts):
            return "vec-writer", "io::Error from writing into a Vec<u8>, which cannot fail"
        if all((x.get("res") or x.get("fn")) in f.fns and not mayfail(x.get("res") or x.get("fn")) for x in ts):
            return "callee-cannot-fail", "the callee has no path that returns Err"
    return None, None


def key_of(p, t, E, srcs, b):
    src = ",".join(sorted({norm_fn(c).split("::")[-1] for c, _ in srcs})) or "-"
    return "%s|%s|%s" % (norm_fn(p), E.split("::")[-1].rstrip(">"), src)
