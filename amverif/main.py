"""Entry point: python3 -m amverif.main <Cxx|all> [--tier quick|thorough]"""
import importlib
import os
import sys
import traceback

from . import core, facts


def run_config(pid, tier, seed, config):
    ctx = core.Ctx(pid, tier, seed)
    ctx.config = config
    err = None
    try:
        mod = importlib.import_module("amverif.props.%s" % pid)
        mod.run(ctx)
    except facts.AnchorMissing as e:
        err = "anchor function not found: %s" % e
    except facts.FactError as e:
        err = "fact extraction failed: %s" % str(e)[-1500:]
    except Exception:
        traceback.print_exc()
        err = "internal error in the checker: %s" % traceback.format_exc().strip().splitlines()[-1]
    return ctx, err


def run_one(pid, tier, seed):
    """quick: the rules over the MIR of the dev profile. thorough: the same rules over the MIR of both build configurations
    (dev, and release semantics: debug assertions and overflow checks off, so cfg(debug_assertions) code is absent and release-only
    paths are present); an instance must be discharged in every configuration in which it exists."""
    base = os.environ.get("AMVERIF_CONFIG", "dev")
    ctx, err = run_config(pid, tier, seed, base)
    if tier == "thorough" and err is None:
        other = "rel" if base == "dev" else "dev"
        ctx2, err2 = run_config(pid, tier, seed, other)
        have = {o["key"]: o for o in ctx.obs}
        for o in ctx2.obs:
            if o["key"] not in have:
                o = dict(o, detail="[%s only] %s" % (other, o["detail"]))
                ctx.obs.append(o)
            elif not o["ok"] and have[o["key"]]["ok"]:
                have[o["key"]].update(ok=False, detail="[%s] %s" % (other, o["detail"]), via=None)
        for fl in ctx2.floors:
            ctx.floors.append(dict(fl, what="[%s] %s" % (other, fl["what"])))
        ctx.analysed_fns |= ctx2.analysed_fns
        ctx._facts.update(ctx2._facts)
        ctx.notes.append("thorough tier: rules evaluated over both fact configurations %s (instances: %d and %d)" % ([base, other], len(have), len(ctx2.obs)))
        err = err2
    return core.finish(ctx, err)


def main():
    argv = sys.argv[1:]
    tier = os.environ.get("VERIF_TIER", "quick")
    if "--tier" in argv:
        i = argv.index("--tier")
        tier = argv[i + 1]
        del argv[i:i + 2]
    seed = int(os.environ.get("VERIF_SEED", "0") or 0)
    if not argv:
        print(__doc__)
        return 2
    what = argv[0]
    if what == "all":
        ids = sorted(f[:-3] for f in os.listdir(os.path.join(os.path.dirname(__file__), "props")) if f.startswith("C") and f.endswith(".py"))
        rc = 0
        for pid in ids:
            rc |= run_one(pid, tier, seed)
        return rc
    if what == "selftest":
        from . import selftest
        return selftest.main(argv[1:])
    return run_one(what, tier, seed)


if __name__ == "__main__":
    rc = main()
    sys.stdout.flush()
    sys.stderr.flush()
    os._exit(rc)
