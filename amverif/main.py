"""Entry point: python3 -m amverif.main <Cxx|all> [--tier quick|thorough]"""
import importlib
import os
import sys
import traceback

from . import core, facts


def run_one(pid, tier, seed):
    ctx = core.Ctx(pid, tier, seed)
    err = None
    try:
        mod = importlib.import_module("amverif.props.%s" % pid)
        mod.run(ctx)
    except facts.AnchorMissing as e:
        err = "anchor function not found: %s" % e
    except facts.FactError as e:
        err = "fact extraction failed: %s" % str(e)[-1500:]
    except Exception:
        traceback.print_exc()
        err = "internal error in the checker: %s" % traceback.format_exc().strip().splitlines()[-1]
    return core.finish(ctx, err)


def main():
    argv = sys.argv[1:]
    tier = os.environ.get("VERIF_TIER", "quick")
    if "--tier" in argv:
        i = argv.index("--tier")
        tier = argv[i + 1]
        del argv[i:i + 2]
    seed = int(os.environ.get("VERIF_SEED", "0") or 0)
    if not argv:
        print(__doc__)
        return 2
    what = argv[0]
    if what == "all":
        ids = sorted(f[:-3] for f in os.listdir(os.path.join(os.path.dirname(__file__), "props")) if f.startswith("C") and f.endswith(".py"))
        rc = 0
        for pid in ids:
            rc |= run_one(pid, tier, seed)
        return rc
    if what == "selftest":
        from . import selftest
        return selftest.main(argv[1:])
    return run_one(what, tier, seed)


if __name__ == "__main__":
    rc = main()
    sys.stdout.flush()
    sys.stderr.flush()
    os._exit(rc)
