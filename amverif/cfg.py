"""CFG, dominance, edge-dominance, def-use, place origins and backward provenance over MIR facts."""
from functools import lru_cache


def term_succs(t, unwind=False):
    k = t["k"]
    out = []
    if k == "goto":
        out = [t["target"]]
    elif k == "switch":
        out = [b for _, b in t["targets"]] + [t["otherwise"]]
    elif k in ("call", "drop", "assert"):
        if "target" in t:
            out = [t["target"]]
        if unwind and "unwind" in t:
            out.append(t["unwind"])
    return out


class Body:
    """Wrapper giving CFG queries over one fact record."""

    def __init__(self, rec):
        self.rec = rec
        self.path = rec["path"]
        self.blocks = rec["blocks"]
        self.n = len(self.blocks)
        self.argc = rec["argc"]
        self.locals = rec["locals"]
        self.succ = [list(dict.fromkeys(term_succs(b["t"]))) for b in self.blocks]
        self.pred = [[] for _ in range(self.n)]
        for i, ss in enumerate(self.succ):
            for s in ss:
                self.pred[s].append(i)
        self._dom = None
        self._defs = None
        self._reach_cache = {}

    # ---- basic queries -------------------------------------------------------------------
    def local_ty(self, l):
        return self.locals[l]["ty"]

    def local_name(self, l):
        return self.locals[l].get("n")

    def calls(self):
        for bi, b in enumerate(self.blocks):
            if b["t"]["k"] == "call":
                yield bi, b["t"]

    def returns(self):
        return [i for i, b in enumerate(self.blocks) if b["t"]["k"] == "return"]

    def reachable(self, start=0, removed_edges=(), removed_blocks=()):
        key = (start, tuple(sorted(removed_edges)), tuple(sorted(removed_blocks)))
        r = self._reach_cache.get(key)
        if r is not None:
            return r
        rem = set(removed_edges) | self.infeasible_edges()
        rb = set(removed_blocks)
        seen = set()
        if start in rb:
            self._reach_cache[key] = seen
            return seen
        st = [start]
        seen.add(start)
        while st:
            x = st.pop()
            for y in self.succ[x]:
                if (x, y) in rem or y in rb or y in seen:
                    continue
                seen.add(y)
                st.append(y)
        self._reach_cache[key] = seen
        return seen

    def infeasible_edges(self):
        """the `otherwise` edge of a switch on an enum discriminant whose targets already name every variant can never be taken
        (MIR built without optimisation re-uses a wildcard arm as that otherwise target)"""
        ie = getattr(self, "_infeasible", None)
        if ie is not None:
            return ie
        self._infeasible = set()          # guards against re-entry while sources are being computed
        out = set()
        for bi, blk in enumerate(self.blocks):
            t = blk["t"]
            if t["k"] != "switch":
                continue
            try:
                src = self.bool_operand_source(t["op"])
            except Exception:
                src = None
            if not src or src.get("kind") != "discr" or not src.get("vars"):
                continue
            named = {v for v, _ in t["targets"]}
            tgts = {tb for _, tb in t["targets"]}
            if set(src["vars"].keys()) <= named and t["otherwise"] not in tgts:
                out.add((bi, t["otherwise"]))
        self._infeasible = out
        self._reach_cache = {}
        return out

    def live_blocks(self):
        return self.reachable(0)

    def edge_dominates(self, edge, block):
        """every path entry -> block uses `edge`"""
        if block not in self.live_blocks():
            return True
        return block not in self.reachable(0, removed_edges=(edge,))

    def edges_dominate(self, edges, block):
        """every path entry -> block uses at least one of `edges`"""
        if block not in self.live_blocks():
            return True
        return block not in self.reachable(0, removed_edges=tuple(edges))

    def correlated_infeasible_edges(self, block):
        """edges that cannot lie on a path to `block` because of an enum discriminant the path must have: when one variant edge of a
        switch on a never-reassigned place dominates `block`, every other switch on the same place can only take that variant's
        edge on the way there (a second `match` on the same value, an early-return guard followed by the real match, ...)"""
        sws = []
        for sb, sw in self.switches():
            src = self.bool_operand_source(sw["op"])
            if src and src["kind"] == "discr" and src.get("vars"):
                sws.append((sb, sw, src))
        # places written in this body (an assignment or a mutable borrow of the scrutinee invalidates the correlation)
        dirty = set()
        for blk in self.blocks:
            for st in blk["st"]:
                d = st["d"]
                if d["p"]:
                    dirty.add(self.origin(d["l"], tuple(d["p"]))[0])
                if st["rv"]["k"] in ("Ref", "RawPtr") and st["rv"].get("mut"):
                    dirty.add(self.origin(st["rv"]["p"]["l"], tuple(st["rv"]["p"]["p"]))[0])
        need = {}
        for sb, sw, src in sws:
            if src["origin"][0] in dirty:
                continue
            for v, tb in sw["targets"]:
                name = src["vars"].get(v)
                if name is not None and tb != sw["otherwise"] and self.edges_dominate([(sb, tb)], block) and sb != block:
                    # only when this target is not shared with another variant
                    if sum(1 for _, t2 in sw["targets"] if t2 == tb) == 1:
                        need[src["origin"]] = name
        out = set()
        for sb, sw, src in sws:
            want = need.get(src["origin"])
            if want is None:
                continue
            listed = {src["vars"].get(v) for v, _ in sw["targets"]}
            for v, tb in sw["targets"]:
                if src["vars"].get(v) != want:
                    out.add((sb, tb))
            if want in listed:
                out.add((sb, sw["otherwise"]))
        # never remove an edge that is the only way the required variant is taken
        return {e for e in out if not any(e == (sb, tb) and src["vars"].get(v) == need.get(src["origin"]) for sb, sw, src in sws for v, tb in sw["targets"])}

    def edges_dominate_correlated(self, edges, block):
        """edges_dominate, ignoring paths that contradict the enum variant `block` is reached under"""
        if block not in self.live_blocks():
            return True
        return block not in self.reachable(0, removed_edges=tuple(set(edges) | self.correlated_infeasible_edges(block)))

    def block_dominates(self, a, b):
        if b not in self.live_blocks():
            return True
        if a == b:
            return True
        return b not in self.reachable(0, removed_blocks=(a,))

    def can_reach(self, a, b, avoiding=()):
        return b in self.reachable(a, removed_blocks=tuple(avoiding))

    def paths_exist_avoiding(self, src, dst, avoid_blocks=(), avoid_edges=()):
        return dst in self.reachable(src, removed_edges=tuple(avoid_edges), removed_blocks=tuple(avoid_blocks))

    def witness_path(self, src, dst, avoid_blocks=(), avoid_edges=()):
        """one shortest path src -> dst (list of blocks) or None"""
        rb, re_ = set(avoid_blocks), set(avoid_edges)
        if src in rb:
            return None
        prev = {src: None}
        q = [src]
        while q:
            nq = []
            for x in q:
                if x == dst:
                    p = []
                    while x is not None:
                        p.append(x)
                        x = prev[x]
                    return p[::-1]
                for y in self.succ[x]:
                    if y in prev or y in rb or (x, y) in re_:
                        continue
                    prev[y] = x
                    nq.append(y)
            q = nq
        return None

    # ---- definitions ---------------------------------------------------------------------
    def defs(self):
        """local -> list of (block, stmt index or 't', record) that write (a projection of) it"""
        if self._defs is None:
            d = {}
            for bi, b in enumerate(self.blocks):
                for si, s in enumerate(b["st"]):
                    d.setdefault(s["d"]["l"], []).append((bi, si, s))
                t = b["t"]
                if t["k"] == "call":
                    d.setdefault(t["dst"]["l"], []).append((bi, "t", t))
            self._defs = d
        return self._defs

    def single_def(self, l):
        alld = self.defs().get(l, [])
        whole = [x for x in alld if (x[1] == "t" and not x[2]["dst"]["p"]) or (x[1] != "t" and not x[2]["d"]["p"])]
        # a store *through* the local (`(*_l) = ..`, `(*_l).f = ..`) writes the pointee, it does not redefine the local
        through = [x for x in alld if ((x[2]["dst"]["p"] if x[1] == "t" else x[2]["d"]["p"]) or [""])[0] == "*"]
        if len(whole) == 1 and len(alld) - len(through) == 1:
            return whole[0]
        return None

    # ---- place origin --------------------------------------------------------------------
    def origin(self, l, proj=(), depth=0):
        """Follow single-definition Use/Ref/Cast chains: returns (base_local, projection tuple)
        such that place `l.proj` denotes (an alias of) base.projection. Refs and derefs cancel."""
        proj = tuple(proj)
        if depth > 40:
            return (l, proj)
        if 1 <= l <= self.argc:
            return (l, proj)
        d = self.single_def(l)
        if d is None or d[1] == "t":
            return (l, proj)
        rv = d[2]["rv"]
        k = rv["k"]
        if k == "Ref" or k == "RawPtr":
            p = rv["p"]
            # l = &P ; (*l).x == P.x
            if proj and proj[0] == "*":
                return self.origin(p["l"], tuple(p["p"]) + proj[1:], depth + 1)
            if not proj:
                # the reference itself: represent as base with '&' marker
                b, pp = self.origin(p["l"], tuple(p["p"]), depth + 1)
                return (b, pp + ("&",))
            return (l, proj)
        if k == "Use" or (k == "Cast" and rv.get("ck", "").startswith(("PtrToPtr", "Pointer", "Transmute"))):
            o = rv["o"][0]
            pl = o.get("c") or o.get("m")
            if pl is None:
                return (l, proj)
            b, pp = self.origin(pl["l"], tuple(pl["p"]), depth + 1)
            # cancel "&" followed by "*"
            return _join(b, pp, proj)
        return (l, proj)

    def operand_origin(self, op):
        pl = op.get("c") or op.get("m")
        if pl is None:
            return None
        return self.origin(pl["l"], tuple(pl["p"]))

    def origin_str(self, o):
        if o is None:
            return "const"
        l, p = o
        n = self.local_name(l) or ("_%d" % l)
        s = n
        for e in p:
            if e == "*":
                s = "(*%s)" % s
            elif e == "&":
                s = "&%s" % s
            else:
                s += e
        return s

    # ---- provenance ----------------------------------------------------------------------
    def provenance(self, op_or_local, through_calls=True, max_nodes=4000, skip_arg_ty=None, follow=(), stop=None):
        """Backward, flow-insensitive slice. Returns a Prov with: params (set of (idx, projection
        string)), consts (set of (ty, value/def)), calls (set of (callee, block)), locals visited."""
        pv = Prov()
        work = []
        if isinstance(op_or_local, int):
            work.append((op_or_local, ()))
        else:
            self._push_op(op_or_local, work, pv)
        seen = set()
        while work and len(seen) < max_nodes:
            l, proj = work.pop()
            if (l, proj[:2]) in seen:
                continue
            seen.add((l, proj[:2]))
            pv.locals.add(l)
            if 1 <= l <= self.argc:
                pv.params.add((l, "".join(proj)))
            for (bi, si, rec) in self.defs().get(l, []):
                if si == "t":
                    callee = rec.get("res") or rec.get("fn") or "<indirect>"
                    pv.calls.add((callee, bi))
                    if rec.get("fn"):
                        pv.decls.add((rec["fn"], bi))
                    if stop is not None and stop(rec):
                        pv.stopped.add((callee, bi))
                        continue
                    if through_calls or (rec.get("fn") in follow):
                        for a, aty in zip(rec["args"], rec.get("argtys", [""] * len(rec["args"]))):
                            if skip_arg_ty is not None and skip_arg_ty(aty):
                                continue
                            self._push_op(a, work, pv)
                    continue
                rv = rec["rv"]
                k = rv["k"]
                if k in ("Ref", "RawPtr", "Discr"):
                    p = rv["p"]
                    pv.places.add((p["l"], tuple(p["p"])))
                    work.append((p["l"], tuple(p["p"])))
                    for e in p["p"]:
                        if e.startswith("[_"):
                            work.append((int(e[2:-1]), ()))
                elif k == "Agg" and rv.get("ak") == "tuple" and proj and proj[0].startswith(".") and proj[0][1:].isdigit() and int(proj[0][1:]) < len(rv.get("o", ())):
                    # field-sensitive through tuples: `(a, b).1` depends on b only
                    self._push_op(rv["o"][int(proj[0][1:])], work, pv)
                else:
                    for o in rv.get("o", ()):
                        self._push_op(o, work, pv)
                    if k == "Agg" and rv.get("ak") == "adt":
                        pv.aggs.add((rv["adt"], rv["variant"]))
                    if k == "Agg" and rv.get("ak") == "closure":
                        pv.closures.add(rv.get("closure"))
        return pv

    def _push_op(self, o, work, pv):
        pl = o.get("c") or o.get("m")
        if pl is not None:
            pv.places.add((pl["l"], tuple(pl["p"])))
            work.append((pl["l"], tuple(pl["p"])))
            for e in pl["p"]:
                if e.startswith("[_"):
                    work.append((int(e[2:-1]), ()))
        else:
            k = o["k"]
            pv.consts.add((k.get("ty"), k.get("def") or k.get("fn") or k.get("v") or k.get("s")))

    # ---- switch helpers ------------------------------------------------------------------
    def switches(self):
        for bi, b in enumerate(self.blocks):
            if b["t"]["k"] == "switch":
                yield bi, b["t"]

    def switch_edges_for_value(self, bi, val):
        """edges (bi, target) taken when the discriminant equals `val` (string)"""
        t = self.blocks[bi]["t"]
        hit = [tb for v, tb in t["targets"] if v == str(val)]
        if hit:
            return [(bi, hit[0])]
        return [(bi, t["otherwise"])]

    def through_tuple(self, pl):
        """`(a, b).N` read back from a tuple built in this body: the place (or constant operand) that was stored there. A tuple match
        `match (x, y) { (true, Some(v)) => .. }` switches on fields of such a temporary."""
        depth = 0
        while pl is not None and pl.get("p") and depth < 8:
            depth += 1
            first = pl["p"][0]
            if not (first.startswith(".") and first[1:].isdigit()) or 1 <= pl["l"] <= self.argc:
                break
            d = self.single_def(pl["l"])
            if not (d and d[1] != "t" and d[2]["rv"]["k"] == "Agg" and d[2]["rv"].get("ak") == "tuple"):
                break
            ops = d[2]["rv"]["o"]
            i = int(first[1:])
            if i >= len(ops):
                break
            o = ops[i]
            inner = o.get("c") or o.get("m")
            if inner is None:
                return None, o
            pl = {"l": inner["l"], "p": list(inner["p"]) + list(pl["p"][1:])}
        return pl, None

    def bool_operand_source(self, op):
        """If a switch operand is a bool temp computed from a call / field, describe it:
        returns dict(kind='call', callee, block, negated) | dict(kind='place', origin, negated) | None."""
        neg = False
        pl = op.get("c") or op.get("m")
        depth = 0
        while pl is not None and depth < 20:
            depth += 1
            pl, konst = self.through_tuple(pl)
            if pl is None:
                return {"kind": "const", "k": konst["k"], "negated": neg}
            l = pl["l"]
            if pl["p"] or 1 <= l <= self.argc:
                return {"kind": "place", "origin": self.origin(l, tuple(pl["p"])), "negated": neg}
            d = self.single_def(l)
            if d is None:
                return {"kind": "place", "origin": (l, ()), "negated": neg}
            if d[1] == "t":
                t = d[2]
                return {"kind": "call", "callee": t.get("res") or t.get("fn"), "decl": t.get("fn"), "block": d[0], "negated": neg, "t": t}
            rv = d[2]["rv"]
            if rv["k"] == "Un" and rv["op"] == "Not":
                neg = not neg
                o = rv["o"][0]
                pl = o.get("c") or o.get("m")
                continue
            if rv["k"] == "Use":
                o = rv["o"][0]
                pl = o.get("c") or o.get("m")
                if pl is None:
                    return {"kind": "const", "k": o["k"], "negated": neg}
                continue
            if rv["k"] == "Bin":
                return {"kind": "bin", "op": rv["op"], "o": rv["o"], "negated": neg, "block": d[0]}
            if rv["k"] == "Discr":
                dp, _k = self.through_tuple(rv["p"])
                dp = dp or rv["p"]
                return {"kind": "discr", "p": dp, "origin": self.origin(dp["l"], tuple(dp["p"])), "negated": neg, "vars": rv.get("vars"), "ty": rv.get("ty")}
            return {"kind": "rv", "rv": rv, "negated": neg}
        return None


def cond_edges(b, atom_call=None, atom_place=None, want=True, seed_edges=()):
    """Edges whose traversal implies that an *atomic condition* has the value `want`, looking through boolean temporaries:
    `let c = a && b; if c { .. }` lowers to a bool local with several definitions (a constant false on the short-circuit path, the value
    of `b` otherwise) that is switched on later; taking the true edge of that switch implies both `a` and `b`.
    atom_call(t) -> bool selects call terminators whose bool result is the condition; atom_place(origin) -> bool selects bool places
    (fields) read as the condition. Returns a list of (block, successor) edges."""
    atoms = set()                   # locals holding the atomic condition's value
    for bi, t in b.calls():
        if atom_call is not None and t.get("dst") and not t["dst"]["p"] and b.local_ty(t["dst"]["l"]) == "bool" and atom_call(t):
            atoms.add(t["dst"]["l"])
    if atom_place is not None:
        for blk in b.blocks:
            for st in blk["st"]:
                if st["rv"]["k"] == "Use" and not st["d"]["p"] and b.local_ty(st["d"]["l"]) == "bool":
                    pl = st["rv"]["o"][0].get("c") or st["rv"]["o"][0].get("m")
                    if pl is not None and pl["p"] and atom_place(b.origin(pl["l"], tuple(pl["p"]))):
                        atoms.add(st["d"]["l"])

    def edge_for(sb, sw, truth):
        zero = [tb for v, tb in sw["targets"] if v == "0"]
        if truth:
            return [(sb, sw["otherwise"])]
        return [(sb, zero[0])] if zero else []

    E = list(seed_edges)           # e.g. the edges of a discriminant switch for one variant (`matches!(x, V)` hoisted into a bool)

    def switch_value_source(sw):
        """(local, negated) the switch tests, following Use / Not chains; or ('place', origin, negated)"""
        pl = sw["op"].get("c") or sw["op"].get("m")
        neg = False
        depth = 0
        while pl is not None and depth < 12:
            depth += 1
            if pl["p"]:
                return ("place", b.origin(pl["l"], tuple(pl["p"])), neg)
            l = pl["l"]
            if l in atoms:
                return ("local", l, neg)
            d = b.single_def(l)
            if d is None or d[1] == "t":
                return ("local", l, neg)
            rv = d[2]["rv"]
            if rv["k"] == "Un" and rv["op"] == "Not":
                neg = not neg
                pl = rv["o"][0].get("c") or rv["o"][0].get("m")
                continue
            if rv["k"] == "Use":
                nxt = rv["o"][0].get("c") or rv["o"][0].get("m")
                if nxt is None:
                    return ("local", l, neg)
                if nxt["p"]:
                    return ("place", b.origin(nxt["l"], tuple(nxt["p"])), neg)
                pl = nxt
                continue
            return ("local", l, neg)
        return None

    # direct tests of an atom
    for sb, sw in b.switches():
        if sw.get("ty") != "bool":
            continue
        v = switch_value_source(sw)
        if v is None:
            continue
        if v[0] == "local" and v[1] in atoms:
            E += edge_for(sb, sw, want != v[2])
        elif v[0] == "place" and atom_place is not None and atom_place(v[1]):
            E += edge_for(sb, sw, want != v[2])
    # bool temporaries whose truth implies the atom (== want)
    memo = {}

    def negated_atom(l):
        """l = !atom (one level)"""
        d = b.single_def(l)
        if d is None or d[1] == "t" or d[2]["rv"]["k"] != "Un" or d[2]["rv"]["op"] != "Not":
            return False
        pl = d[2]["rv"]["o"][0].get("c") or d[2]["rv"]["o"][0].get("m")
        if pl is None:
            return False
        if not pl["p"]:
            if pl["l"] in atoms:
                return True
            d2 = b.single_def(pl["l"])
            if d2 and d2[1] != "t" and d2[2]["rv"]["k"] == "Use":
                p2 = d2[2]["rv"]["o"][0].get("c") or d2[2]["rv"]["o"][0].get("m")
                if p2 is not None and p2["p"] and atom_place is not None and atom_place(b.origin(p2["l"], tuple(p2["p"]))):
                    return True
                if p2 is not None and not p2["p"] and p2["l"] in atoms:
                    return True
            return False
        return atom_place is not None and atom_place(b.origin(pl["l"], tuple(pl["p"])))

    def implies(l, depth=0):
        if l in atoms:
            return want
        if not want and negated_atom(l):
            return True
        if l in memo:
            return memo[l]
        memo[l] = False
        if depth > 8 or b.local_ty(l) != "bool" or 1 <= l <= b.argc:
            return False
        defs = b.defs().get(l, [])
        if not defs:
            return False
        ok = True
        for (db, si, rec) in defs:
            if si == "t":
                ok = ok and bool(E) and b.edges_dominate(E, db)
                continue
            if rec["d"]["p"]:
                ok = False
                continue
            rv = rec["rv"]
            if rv["k"] == "Use":
                o = rv["o"][0]
                k = o.get("k")
                if k is not None:
                    if k.get("v") == "0":
                        continue                    # this definition never makes it true
                    ok = ok and bool(E) and b.edges_dominate(E, db)
                    continue
                pl = o.get("c") or o.get("m")
                if pl is not None and not pl["p"] and implies(pl["l"], depth + 1):
                    continue
                if want and pl is not None and pl["p"] and atom_place is not None and atom_place(b.origin(pl["l"], tuple(pl["p"]))):
                    continue
                ok = ok and bool(E) and b.edges_dominate(E, db)
                continue
            if not want and rv["k"] == "Un" and rv["op"] == "Not":
                pl = rv["o"][0].get("c") or rv["o"][0].get("m")
                if pl is not None and ((not pl["p"] and pl["l"] in atoms) or (pl["p"] and atom_place is not None and atom_place(b.origin(pl["l"], tuple(pl["p"]))))):
                    continue
            ok = ok and bool(E) and b.edges_dominate(E, db)
        memo[l] = ok
        return ok

    changed = True
    rounds = 0
    while changed and rounds < 6:
        changed = False
        rounds += 1
        memo.clear()
        for sb, sw in b.switches():
            if sw.get("ty") != "bool":
                continue
            v = switch_value_source(sw)
            if v is None or v[0] != "local" or v[2]:
                continue
            e = edge_for(sb, sw, True)
            if e and e[0] not in E and implies(v[1]):
                E += e
                changed = True
    return E


def inlined_calls(f, b):
    """calls of a function body together with the calls made by the closures it hands to other calls (iterator adaptors such as
    for_each / map / all): yields (site, t, owner, adaptor) where `site` is the block of the parent body at which the call happens
    (the adaptor call for a closure), `owner` the body containing the call and `adaptor` the parent terminator (None for direct calls)"""
    for bi, t in b.calls():
        yield bi, t, b, None
    for r in f.closures_of(b.path):
        cb = body(r)
        line = r["sp"].split(":")[1] if r.get("sp") else None
        site = None
        adaptor = None
        for bi, t in b.calls():
            if any(g.startswith("{closure@") and g.split(":")[1] == line for g in t.get("ga", [])):
                site, adaptor = bi, t
        if site is None:
            continue
        for cbi, ct in cb.calls():
            yield site, ct, cb, adaptor


def _join(b, pp, proj):
    pp = list(pp)
    proj = list(proj)
    while pp and proj and pp[-1] == "&" and proj[0] == "*":
        pp.pop()
        proj.pop(0)
    return (b, tuple(pp) + tuple(proj))


# calls that merely unwrap / convert their argument; `follow=TRANSPARENT` lets a shallow slice see through them
TRANSPARENT = frozenset({
    "core::ops::try_trait::Try::branch", "core::result::Result::<T, E>::map_err", "core::result::Result::<T, E>::unwrap",
    "core::result::Result::<T, E>::expect", "core::option::Option::<T>::unwrap", "core::option::Option::<T>::expect",
    "core::convert::Into::into", "core::convert::From::from", "core::clone::Clone::clone", "core::ops::deref::Deref::deref",
    "core::option::Option::<T>::ok_or", "core::option::Option::<T>::ok_or_else", "core::result::Result::<T, E>::ok",
})


class Prov:
    def __init__(self):
        self.params = set()
        self.consts = set()
        self.calls = set()
        self.locals = set()
        self.places = set()
        self.aggs = set()
        self.decls = set()
        self.stopped = set()
        self.closures = set()      # def paths of closures whose value flows into the slice (their bodies are not followed)

    def callees(self):
        """resolved and declared callee paths of every call in the slice"""
        return {c for c, _ in self.calls} | {c for c, _ in self.decls}

    def has_field(self, name):
        return any(name in p for _, p in self.places)

    def depends_on_param(self, idx):
        return any(i == idx for i, _ in self.params)


_bodies = {}


def body(rec):
    b = _bodies.get(id(rec))
    if b is None:
        b = Body(rec)
        _bodies[id(rec)] = b
    return b
