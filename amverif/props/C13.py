"""C13 Truncated storage loads to the last complete save — rule R9 (no-drop clause) + R1-partial.

Decides: in both loaders (load_with_options_and_mark_validation, load_incremental_log_patches), on
every path that ends in Ok, each collection of completely parsed changes — the first chunk's
changes, LoadedChanges::Complete(c), and LoadedChanges::Partial{loaded} — has been handed to
apply_changes*; and after Partial an Ok result needs on_partial_load != Error (shared with C14).
A loader that forgets one of these collections loses every complete chunk before the cut.
Not decided: chunk-boundary arithmetic, "an error if the cut falls inside the first chunk", panics (C15).
"""
from .. import cfg, util, rules, facts
from ..util import callee, decl, norm_fn
from . import C14

LW = "automerge::automerge::Automerge::load_with_options_and_mark_validation"
LI = "automerge::automerge::Automerge::load_incremental_log_patches"
LOADED = "automerge::storage::load::LoadedChanges"
APPLY = ("automerge::automerge::Automerge::apply_changes", "automerge::automerge::Automerge::apply_changes_log_patches",
         "automerge::op_set2::change::batch::apply_changes_batch", "automerge::op_set2::change::batch::apply_changes_batch_log_patches")


def first_match(b):
    cands = []
    for sb, sw in b.switches():
        src = b.bool_operand_source(sw["op"])
        if src and src["kind"] == "discr" and util.base_ty(src.get("ty") or "") == LOADED and sb in b.live_blocks() and not b.blocks[sb].get("cleanup"):
            cands.append((sb, sw, src))
    first = [c for c in cands if not any(o[0] != c[0] and b.can_reach(o[0], c[0]) for o in cands)]
    if len(first) != 1:
        raise facts.AnchorMissing("match on LoadedChanges in " + b.path)
    return first[0]


def ok_blocks(b):
    return [bi for bi, blk in enumerate(b.blocks) for s in blk["st"] if s["d"]["l"] == 0 and not s["d"]["p"] and util.is_ok_agg(s["rv"])]


def check_loader(ctx, path, need_first_chunk):
    b = ctx.body(path)
    sb, sw, src = first_match(b)
    loaded_local = src["origin"][0]
    arms = {}
    for v, tb in sw["targets"]:
        name = (src["vars"] or {}).get(v)
        if name:
            arms[name] = tb
    ctx.floor("arms of the LoadedChanges match in %s" % path.split("::")[-1], len(arms), 2)
    oks = ok_blocks(b)
    ctx.floor("Ok results in %s" % path.split("::")[-1], len(oks), 1)
    # the vector holding the first chunk's changes: a Vec<Change> local that is pushed to / extended before load_changes
    first_vec = None
    if need_first_chunk:
        for bi, t in b.calls():
            fn = norm_fn(t.get("fn")) or ""
            if fn in ("alloc::vec::Vec::push", "core::iter::traits::collect::Extend::extend") and "Vec<automerge::change::Change>" in t["argtys"][0]:
                o = b.operand_origin(t["args"][0])
                if o:
                    first_vec = o[0]
        if first_vec is None:
            raise facts.AnchorMissing("first-chunk changes vector in " + path)
    for name, payload in (("Complete", ".0"), ("Partial", ".loaded")):
        if name not in arms:
            ctx.ob("R9-nodrop", "%s|%s arm" % (norm_fn(path), name), False, util.where(b, sb), "arm missing")
            continue
        arm = arms[name]
        good = []
        for bi, t in b.calls():
            if callee(t) not in APPLY:
                continue
            pv = b.provenance(t["args"][1], through_calls=True)
            has_payload = any(l == loaded_local and ("@" + name) in pr and (payload in pr) for l, pr in [b.origin(l, pr) for l, pr in pv.places])
            has_first = (not need_first_chunk) or (first_vec in pv.locals)
            if has_payload and has_first:
                good.append(bi)
        reach = b.reachable(arm, removed_blocks=tuple(good))
        leak = [o for o in oks if o in reach]
        ctx.ob("R9-nodrop", "%s|%s arm applies what was loaded" % (norm_fn(path), name), not leak and bool(good), util.where(b, arm),
               "every Ok path passes apply_changes(%s%s)" % ("first-chunk changes + " if need_first_chunk else "", name + payload) if not leak and good else
               "Ok reachable from the %s arm without applying %s%s (path %s)" % (name, "the first chunk's changes and " if need_first_chunk else "", "the completely loaded chunks", b.witness_path(arm, leak[0], avoid_blocks=good) if leak else "no apply call found"))


def implies_zero(op, c, truth, const_on_left):
    """does `(len op c) == truth` (or `(c op len)` when const_on_left) force len == 0 ?"""
    def holds(n):
        a, b_ = (c, n) if const_on_left else (n, c)
        r = {"Eq": a == b_, "Ne": a != b_, "Lt": a < b_, "Le": a <= b_, "Gt": a > b_, "Ge": a >= b_}.get(op)
        return r == truth
    cands = {0, 1, 2, max(c - 1, 0), c, c + 1, c + 2}
    sat = {n for n in cands if holds(n)}
    return sat == {0}


def empty_input_edges(b):
    """edges on which the remaining input is known to be empty: is_empty()==true, or a comparison of a len() with a
    constant whose outcome on that edge forces len == 0"""
    edges = []
    for sb, sw in b.switches():
        if sw["ty"] != "bool":
            continue
        src = b.bool_operand_source(sw["op"])
        if not src:
            continue
        for truth in (True, False):
            forces = False
            if src["kind"] == "call" and (src["callee"] or "").endswith("::is_empty") and "Input" in " ".join(src["t"].get("argtys", [])):
                forces = truth is True
            elif src["kind"] == "bin" and src["op"] in ("Eq", "Ne", "Lt", "Le", "Gt", "Ge"):
                ks = [util.op_const(o) for o in src["o"]]
                if sum(k is not None for k in ks) == 1:
                    ci = 0 if ks[0] is not None else 1
                    other = src["o"][1 - ci]
                    pv = b.provenance(other, through_calls=True)
                    lens = [c for c in pv.callees() if norm_fn(c).endswith("::len")]
                    from_input = any("Input" in b.local_ty(l) for l in pv.locals)
                    if lens and from_input and ks[ci].get("v") is not None:
                        forces = implies_zero(src["op"], int(ks[ci]["v"]), truth, ci == 0)
            if forces:
                operand_value = (not truth) if src["negated"] else truth
                edges.append(rules.bool_switch_edge(b, sb, operand_value))
    return edges


def check_complete_means_consumed(ctx, f):
    """R9-consumed: load_changes reports LoadedChanges::Complete only when the whole input has been consumed
    (a strict load must not succeed with unread bytes left over)."""
    LC = "automerge::storage::load::load_changes"
    bodies = [ctx.body(LC)] + [cfg.body(r) for r in f.closures_of(LC)]
    n = 0
    for b in bodies:
        for bi, blk in enumerate(b.blocks):
            for s in blk["st"]:
                rv = s["rv"]
                if rv["k"] == "Agg" and rv.get("adt") == LOADED and rv.get("variant") == "Complete":
                    n += 1
                    edges = empty_input_edges(b)
                    ok = bool(edges) and b.edges_dominate(edges, bi)
                    ctx.ob("R9-consumed", "load_changes|Complete only when the input is exhausted|%d" % (n - 1), ok, s["sp"],
                           "dominated by an `input is empty` edge" if ok else "LoadedChanges::Complete can be returned while unread bytes remain (no dominating emptiness test of the input): a strict load would succeed off a chunk boundary")
    ctx.floor("constructions of LoadedChanges::Complete", n, 1)


def check_first_chunk_error(ctx, f):
    """R1-first: if the first chunk does not parse, the loader returns an error whatever the partial-load policy."""
    b = ctx.body(LW)
    PARSE = "automerge::storage::chunk::Chunk::parse"
    pcalls = [bi for bi, t in b.calls() if callee(t) == PARSE]
    ctx.floor("Chunk::parse calls in the loader", len(pcalls), 1)
    n = 0
    for sb, sw in b.switches():
        src = b.bool_operand_source(sw["op"])
        if not src or src["kind"] != "discr":
            continue
        pv = b.provenance(src["origin"][0], through_calls=False, follow=cfg.TRANSPARENT)
        if not any(norm_fn(c) == PARSE for c in pv.callees()):
            continue
        ty = util.base_ty(src.get("ty") or "")
        if ty not in ("core::result::Result", "core::ops::control_flow::ControlFlow"):
            continue
        bad = [tb for v, tb in sw["targets"] if (src["vars"] or {}).get(v) in ("Err", "Break")]
        for tb in bad:
            n += 1
            firsts = util.first_ret_assignments(b, tb)
            ok = bool(firsts) and all((kind == "stmt" and util.is_err_agg(rec["rv"])) or (kind == "call" and util.is_from_residual(rec)) for (_, kind, rec) in firsts)
            ctx.ob("R1-first", "load_with_options_and_mark_validation|first chunk parse failure returns Err|%d" % (n - 1), ok, util.where(b, sb),
                   "error propagated" if ok else "a first chunk that fails to parse (e.g. truncated) can still yield Ok")
    ctx.floor("error edges of the first Chunk::parse", n, 1)


def run(ctx):
    ctx.level = "proof"
    ctx.decides = ("both loaders: every Ok path from the Complete and the Partial arm of the LoadedChanges match passes an apply_changes* call whose argument derives from that arm's payload "
                   "(and, in load_with_options, from the first chunk's changes); after Partial an Ok result requires on_partial_load != Error.")
    ctx.not_decided = "where chunk boundaries fall, behaviour for a cut inside the first chunk, panic-freedom (C15)."
    ctx.rule("R9-nodrop", "must-pass-through: arm entry -> Ok only via apply_changes*(payload)")
    ctx.rule("R9-consumed", "LoadedChanges::Complete is edge-dominated by an emptiness test of the remaining input")
    ctx.rule("R1-first", "the error edge of the first Chunk::parse reaches only Err returns")
    ctx.rule("R1-partial", "after LoadedChanges::Partial an Ok result is reachable only via on_partial_load != Error")
    f = ctx.facts()
    check_loader(ctx, LW, True)
    check_loader(ctx, LI, False)
    C14.check_partial_error(ctx, f)
    check_complete_means_consumed(ctx, f)
    check_first_chunk_error(ctx, f)
    # load_incremental into an empty document goes through the same loader with Ignore (so it inherits the rule above)
    b = ctx.body(LI)
    ctx.ob("R9-nodrop", "load_incremental_log_patches|empty document path uses the full loader", any(callee(t) == "automerge::automerge::Automerge::load_with_options" for _, t in b.calls()), b.rec["sp"], "")
    check_accumulator(ctx, f)


def check_accumulator(ctx, f):
    """Partial { loaded } must carry every change of the chunks that were read completely: in load_changes the vector handed to
    load_next_change and returned as `loaded` is never shrunk, except back to a checkpoint (its own len()) taken inside the chunk loop"""
    ctx.rule("R9-accum", "load_changes: no truncate / clear / drain / pop on the accumulated changes, unless to a len() checkpoint taken on a cycle of the chunk loop")
    b = ctx.body("automerge::storage::load::load_changes")
    acc = set()
    for blk in b.blocks:
        for st in blk["st"]:
            rv = st["rv"]
            if rv["k"] == "Agg" and (rv.get("adt") or "").endswith("LoadedChanges") and rv.get("variant") == "Partial" and "loaded" in rv.get("fields", []):
                o = b.operand_origin(rv["o"][rv["fields"].index("loaded")])
                if o:
                    acc.add(o[0])
    ctx.floor("LoadedChanges::Partial constructions in load_changes", len(acc), 1)
    shr = []
    for bi, t in b.calls():
        n = norm_fn(t.get("fn")) or ""
        if n in ("alloc::vec::Vec::truncate", "alloc::vec::Vec::clear", "alloc::vec::Vec::drain", "alloc::vec::Vec::pop", "alloc::vec::Vec::split_off", "alloc::vec::Vec::retain", "alloc::vec::Vec::remove", "alloc::vec::Vec::swap_remove"):
            o = b.operand_origin(t["args"][0])
            if o and o[0] in acc:
                shr.append((bi, t))
    for k, (bi, t) in util.ordinal_keys(shr, lambda it: "load_changes|%s on the accumulated changes" % norm_fn(it[1]["fn"]).split("::")[-1]):
        ok = False
        if norm_fn(t["fn"]).endswith("truncate"):
            pv = b.provenance(t["args"][1], through_calls=True)
            lens = [cb for c, cb in pv.calls | pv.decls if norm_fn(c).endswith("Vec::len") and (b.operand_origin(b.blocks[cb]["t"]["args"][0]) or (None,))[0] in acc]
            ok = bool(lens) and all(any(b.can_reach(s_, cb) for s_ in b.succ[cb]) for cb in lens)
        ctx.ob("R9-accum", k, ok, t["sp"], "rolled back to a checkpoint taken in the same loop" if ok else
               "the changes gathered from chunks that were read completely are discarded before they are returned as LoadedChanges::Partial.loaded")
    ctx.ob("R9-accum", "load_changes|accumulated changes only grow", True, b.rec["sp"], "%d shrinking operation(s) examined" % len(shr), nontrivial=False)
