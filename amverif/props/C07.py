"""C07 Historical reads equal reads of the document as it was — rule R2 (guard) + provenance.

Decides: (i) `Automerge::clock_at` returns `None` (= "read the current, indexed state") only on the
true edge of `heads_are_current(heads)`, otherwise `Some(change_graph.clock_at(heads))` of the very
heads it was given; (ii) every ReadDoc method that takes a `heads` argument obtains the clock it
hands to its `*_for` worker from those heads (Automerge: clock_at(heads); AutoCommit:
get_scope(Some(heads))) and never passes a literal `None`; (iii) AutoCommit::get_scope gives the
heads argument priority and takes the unscoped fast path only while no transaction is open.
Not decided: that the clock-filtered queries compute the historical value (runtime visibility).
"""
from .. import cfg, util, rules, facts
from ..util import callee, decl, norm_fn

TRAIT = "automerge::read::ReadDoc"
CLOCK_AT = "automerge::automerge::Automerge::clock_at"
CG_CLOCK_AT = "automerge::change_graph::ChangeGraph::clock_at"
CURRENT = "automerge::change_graph::ChangeGraph::heads_are_current"
GET_SCOPE = "automerge::autocommit::AutoCommit::get_scope"
OPT_CLOCK = "core::option::Option<automerge::clock::Clock>"
HEADS_TYS = ("&[automerge::types::ChangeHash]", "core::option::Option<&[automerge::types::ChangeHash]>")


def is_none_agg(rv, ty=OPT_CLOCK):
    return rv.get("k") == "Agg" and rv.get("adt") == "core::option::Option" and rv.get("variant") == "None"


def heads_param(b):
    for i in range(1, b.argc + 1):
        if b.local_ty(i) in HEADS_TYS:
            return i
    return None


def run(ctx):
    ctx.level = "proof"
    ctx.decides = ("clock_at returns None only under heads_are_current(heads)==true and otherwise Some(ChangeGraph::clock_at(heads)); every ReadDoc method with a heads "
                   "parameter (both impls) feeds its *_for worker a clock derived from that parameter, never a literal None; AutoCommit::get_scope prioritises heads "
                   "and uses Automerge::clock_at's fast path only when transaction.is_none().")
    ctx.not_decided = "that clock-scoped queries return the historical values (runtime visibility arithmetic); equality of reads after later merges."
    ctx.rule("R2-clock", "return-value table of clock_at: None is edge-dominated by heads_are_current==true; Some carries ChangeGraph::clock_at(heads)")
    ctx.rule("R9-heads", "the Option<Clock> argument of every worker call in a heads-taking ReadDoc method has the heads parameter in its provenance (via clock_at / get_scope)")
    ctx.rule("R2-scope", "AutoCommit::get_scope: heads argument first; unscoped fast path only under transaction.is_none()")
    f = ctx.facts()
    # ---- (i) clock_at
    b = ctx.body(CLOCK_AT)
    hp = heads_param(b)
    if hp is None:
        raise facts.AnchorMissing(CLOCK_AT + " heads parameter")

    def cur_pred(src):
        if src["kind"] == "call" and norm_fn(src["callee"]) == CURRENT:
            pv = b.provenance(src["t"]["args"][1])
            if pv.depends_on_param(hp):
                return True
        return None
    true_edges = rules.guard_edges(b, cur_pred)
    ctx.floor("heads_are_current(heads) tests in clock_at", len(true_edges), 1)
    rd = util.ret_defs(b)
    ctx.floor("return assignments in clock_at", len(rd), 2)
    for n, (bi, kind, rec) in enumerate(rd):
        if kind == "stmt" and is_none_agg(rec["rv"]):
            ok = b.edges_dominate(true_edges, bi)
            ctx.ob("R2-clock", "clock_at|None|%d" % n, ok, rec["sp"], "None (fast path) only when heads_are_current(heads)" if ok else "returns None without heads_are_current(heads)==true")
        elif kind == "stmt" and rec["rv"].get("variant") == "Some":
            pv = b.provenance(rec["rv"]["o"][0])
            ok = CG_CLOCK_AT in {norm_fn(c) for c in pv.callees()} and pv.depends_on_param(hp)
            ctx.ob("R2-clock", "clock_at|Some|%d" % n, ok, rec["sp"], "Some(change_graph.clock_at(heads))")
        else:
            ctx.ob("R2-clock", "clock_at|other|%d" % n, False, rec.get("sp", ""), "unexpected return computation")
    # ---- (ii) ReadDoc methods with a heads parameter
    tr = f.traits.get(TRAIT)
    if tr is None:
        raise facts.AnchorMissing(TRAIT)
    items = {i["path"] for i in tr["items"]}
    scope_fns = sorted(p for p, r in f.fns.items() if r["ckey"] == ("automerge", "lib") and norm_fn(p).endswith("::get_scope") and heads_param(cfg.body(r)) is not None)
    ctx.floor("get_scope(heads) helpers", len(scope_fns), 3)
    SCOPES = {norm_fn(p) for p in scope_fns}
    impls = [p for p, r in f.fns.items() if r.get("trait_item") in items and r["ckey"] == ("automerge", "lib")]
    n_at = 0
    for p in sorted(impls):
        r = f.fns[p]
        mb = cfg.body(r)
        hp = heads_param(mb)
        if hp is None:
            continue
        n_at += 1
        ctx.analysed_fns.add(p)
        closures = [cfg.body(c) for c in f.closures_of(p)]
        workers = [(bi, t, i) for bi, t in mb.calls() for i, ty in enumerate(t["argtys"]) if ty == OPT_CLOCK]
        key = norm_fn(p)
        if not workers:
            # may delegate the heads to another ReadDoc method / helper taking heads
            deleg = [t for _, t in mb.calls() if any(ty in HEADS_TYS for ty in t["argtys"])]
            ok = bool(deleg) and all(mb.provenance(a).depends_on_param(hp) for t in deleg for a, ty in zip(t["args"], t["argtys"]) if ty in HEADS_TYS)
            ctx.ob("R9-heads", key + "|delegates heads", ok, r["sp"], "no Option<Clock> worker call; heads forwarded to %s" % [callee(t) for t in deleg])
            # a session type with read state of its own (AutoCommit: isolation heads, a transaction in flight) must not hand raw heads to the
            # document: only its get_scope knows what a read may see
            if "autocommit::AutoCommit" in key or "AutoCommit" in (r.get("container") or ""):
                raw = [callee(t) for t in deleg if (callee(t) or "").startswith("automerge::automerge::Automerge::")]
                ctx.ob("R9-heads", key + "|session reads go through get_scope", not raw, r["sp"], "no raw heads handed to the document" if not raw else
                       "AutoCommit hands the caller's heads straight to %s: the read ignores isolation and sees the ops of the transaction in flight" % raw)
            continue
        for (bi, t, i) in workers:
            arg = t["args"][i]
            pv = mb.provenance(arg)
            cs = {norm_fn(c) for c in pv.callees()}
            via_closure = any(callee(ct) == CLOCK_AT for cb in closures for _, ct in cb.calls())
            derived = pv.depends_on_param(hp) and (CLOCK_AT in cs or bool(cs & SCOPES) or (via_closure and any(c.endswith("::and_then") for c in cs)))
            # a literal None must not be among the possible values
            lit_none = any(is_none_agg(rec["rv"]) for l in pv.locals for (_, si, rec) in mb.defs().get(l, []) if si != "t")
            ok = derived and not lit_none
            ctx.ob("R9-heads", "%s|%s" % (key, callee(t).split("::")[-1]), ok, t["sp"],
                   "clock argument derives from the heads parameter via %s" % sorted(c.split("::")[-1] for c in cs & ({CLOCK_AT} | SCOPES)) if ok else
                   "clock argument of %s does not derive from the heads parameter (sources %s, literal None: %s)" % (callee(t), sorted(cs)[:5], lit_none))
    ctx.floor("ReadDoc methods with a heads parameter (Automerge, AutoCommit, Transaction, OwnedTransaction)", n_at, 60)
    # ---- the cached clocks that scoped reads walk stay aligned with the actor table
    check_vis_slow(ctx, f)
    from . import C28
    ctx.rule("R11-fields", "ChangeGraph::insert_actor and remove_actor re-index the same actor-indexed structures (clock cache included)")
    C28.check_actor_pair(ctx, f)
    # ---- (iii) get_scope
    for gp in scope_fns:
        check_scope(ctx, gp)
    check_clock_forwarding(ctx, f)
    check_clock_range(ctx, f)
    check_heads_equality(ctx, f)
    check_succ_inc(ctx, f)


def _is_clock(ty):
    return "automerge::clock::Clock" in ty and "Option" in ty and "ClockRange" not in ty


def check_clock_forwarding(ctx, f):
    """inside every function that receives a clock (Option<Clock> / Option<&Clock> parameter), each clock it hands to another automerge
    function derives from that parameter: a worker that asks the op set with a literal None answers from the present document"""
    ctx.rule("R9-clock-param", "provenance: every Option<Clock> argument passed by a function with a clock parameter derives from that parameter, never a literal None")
    n = 0
    for p, r in sorted(f.fns.items()):
        if r["ckey"] != ("automerge", "lib"):
            continue
        b = cfg.body(r)
        cps = [i for i in range(1, b.argc + 1) if _is_clock(b.local_ty(i))]
        if not cps:
            continue
        sites = []
        for bi, t in b.calls():
            tgt = norm_fn(t.get("res") or t.get("fn")) or ""
            if not (tgt.startswith("automerge::") or tgt.startswith("<automerge::")):
                continue
            for i, ty in enumerate(t.get("argtys", [])):
                if _is_clock(ty):
                    sites.append((bi, t, i))
        if sites:
            ctx.analysed_fns.add(p)
        for k, (bi, t, i) in util.ordinal_keys(sites, lambda s_: "%s|%s" % (norm_fn(p), norm_fn(s_[1].get("res") or s_[1].get("fn")).split("::")[-1])):
            n += 1
            pv = b.provenance(t["args"][i], through_calls=True)
            dep = any(pi in cps for pi, _ in pv.params)
            lit = any(a == "core::option::Option" and v == "None" for a, v in pv.aggs)
            ctx.ob("R9-clock-param", k, dep and not lit, t["sp"], "clock parameter handed on" if dep and not lit else
                   "a clock that does not derive from this function's clock parameter (literal None: %s) is passed to %s: the historical read consults the present document" % (lit, norm_fn(t.get("res") or t.get("fn")).split("::")[-1]))
    ctx.floor("clock arguments forwarded by clocked functions", n, 60)


def check_clock_range(ctx, f):
    """ClockRange::visible_after / after: the unconditional answer (true / None) is given only where the range carries no clock"""
    ctx.rule("R2-clockrange", "ClockRange::visible_after returns the constant true only on the None arm of Current's inner Option<Clock>")
    p = [x for x in f.fns if norm_fn(x) == "automerge::clock::ClockRange::visible_after"]
    if len(p) != 1:
        raise facts.AnchorMissing("ClockRange::visible_after")
    b = cfg.body(f.fns[p[0]])
    ctx.analysed_fns.add(p[0])
    none_edges = []
    for sb, sw in b.switches():
        src = b.bool_operand_source(sw["op"])
        if src and src["kind"] == "discr" and util.base_ty(src.get("ty") or "") == "core::option::Option" and "Clock" in (src.get("ty") or ""):
            none = [tb for v, tb in sw["targets"] if (src["vars"] or {}).get(v) == "None"]
            none_edges.append((sb, none[0] if none else sw["otherwise"]))
    trues = [(bi, st) for bi, blk in enumerate(b.blocks) if not blk.get("cleanup") and bi in b.live_blocks() for st in blk["st"]
             if st["d"]["l"] == 0 and not st["d"]["p"] and st["rv"]["k"] == "Use" and (util.op_const(st["rv"]["o"][0]) or {}).get("v") in ("1", "true")]
    covers = [bi for bi, t in b.calls() if norm_fn(t.get("res") or t.get("fn")) == "automerge::clock::Clock::covers"]
    ctx.floor("Clock::covers calls in ClockRange::visible_after", len(covers), 2)
    ctx.floor("constant-true results in ClockRange::visible_after", len(trues), 1)
    for k, (bi, st) in util.ordinal_keys(trues, lambda it: "ClockRange::visible_after|constant true"):
        ok = bool(none_edges) and b.edges_dominate(none_edges, bi)
        ctx.ob("R2-clockrange", k, ok, st["sp"], "only when the range carries no clock (Current(None))" if ok else
               "`true` is answered although the range may carry a clock: ops after the requested heads become visible to the readers that use ClockRange (range iterators, counter increments)")


def check_scope(ctx, gp):
    g = ctx.body(gp)
    gk = norm_fn(gp)
    hp = heads_param(g)
    if hp is None:
        raise facts.AnchorMissing(gp + " heads parameter")
    some_edges = []
    for sb, sw in g.switches():
        src = g.bool_operand_source(sw["op"])
        if src and src["kind"] == "discr" and src["origin"][0] == hp and not src["origin"][1]:
            for v, tb in sw["targets"]:
                if (src["vars"] or {}).get(v) == "Some":
                    some_edges.append((sb, tb))
    ctx.floor("match on the heads argument in " + gk, len(some_edges), 1)
    none_tx_edges = rules.guard_edges(g, lambda src: True if (src["kind"] == "call" and (src["callee"] or "").endswith("::is_none") and ".transaction" in (g.operand_origin(src["t"]["args"][0]) or (0, ()))[1]) else None)
    for n, (bi, kind, rec) in enumerate(util.ret_defs(g)):
        if not g.edges_dominate(some_edges, bi):
            continue
        if kind == "call" and callee(rec) == CLOCK_AT:
            pv = g.provenance(rec["args"][1])
            ok = pv.depends_on_param(hp) and bool(none_tx_edges) and g.edges_dominate(none_tx_edges, bi)
            ctx.ob("R2-scope", gk + "|fast path under transaction.is_none()|%d" % n, ok, rec["sp"], "doc.clock_at(heads) only while no transaction is open")
        elif kind == "stmt" and rec["rv"].get("variant") == "Some":
            pv = g.provenance(rec["rv"]["o"][0])
            ok = CG_CLOCK_AT in {norm_fn(c) for c in pv.callees()} and pv.depends_on_param(hp)
            ctx.ob("R2-scope", gk + "|scoped clock from heads|%d" % n, ok, rec["sp"], "Some(change_graph.clock_at(heads))")
        else:
            ctx.ob("R2-scope", gk + "|heads arm|%d" % n, False, rec.get("sp", ""), "with Some(heads) the scope must come from the heads")
    # heads arm must not fall through to the isolation/transaction logic
    ret_in_some = [x for x in util.ret_defs(g) if g.edges_dominate(some_edges, x[0])]
    ctx.floor("returns in Some(heads) arm of " + gk, len(ret_in_some), 1)


def check_heads_equality(ctx, f):
    """the unscoped fast path of clock_at is right only for heads *equal* to the current ones as sets: the test is an == of two sets
    (or of two sorted, deduplicated vectors), not a length comparison plus membership (a repeated head passes that)"""
    ctx.rule("R2-headseq", "ChangeGraph::heads_are_current: every path returning a non-false result is behind the true edge of an equality call whose operands are both sets (BTreeSet / HashSet) or both normalised vectors (sort + dedup), one from self.heads, one from the argument")
    HC = "automerge::change_graph::ChangeGraph::heads_are_current"
    b = ctx.body(HC)
    ctx.analysed_fns.add(HC)
    hp = [i for i in range(1, b.argc + 1) if "ChangeHash" in b.local_ty(i)]
    eqs = [(bi, t) for bi, t in b.calls() if (norm_fn(t.get("fn")) or "").endswith("PartialEq::eq") or (norm_fn(t.get("fn")) or "").endswith("PartialEq::ne")]
    good = []
    for bi, t in eqs:
        tys = [util.strip_refs(x) for x in t.get("argtys", [])]
        sets = all(("BTreeSet<" in x or "HashSet<" in x) for x in tys)
        norm = all("Vec<" in x or x.startswith("[") for x in tys) and all({"sort", "sort_unstable", "dedup"} & {norm_fn(c).split("::")[-1] for c in b.provenance(a, through_calls=True).callees()} for a in t["args"])
        pvs = [b.provenance(a, through_calls=True) for a in t["args"]]
        from_self = any(any(b.origin(l, pr)[0] == 1 and ".heads" in b.origin(l, pr)[1] for l, pr in pv.places) for pv in pvs)
        from_arg = any(hp and pv.depends_on_param(hp[0]) for pv in pvs)
        if (sets or norm) and from_self and from_arg:
            good.append(bi)
    ctx.floor("equality calls in heads_are_current", len(eqs), 1)
    # the function's result is that equality (or false)
    rets = [(bi, st) for bi, blk in enumerate(b.blocks) if not blk.get("cleanup") for st in blk["st"] if st["d"]["l"] == 0 and not st["d"]["p"]]
    rets += [(bi, None) for bi, t in b.calls() if t.get("dst") and t["dst"]["l"] == 0 and not t["dst"]["p"]]
    bad = []
    for bi, st in rets:
        if st is None:
            if bi not in good:
                bad.append(util.where(b, bi))
            continue
        k = util.op_const(st["rv"]["o"][0]) if st["rv"]["k"] == "Use" else None
        if k is not None and k.get("v") == "0":
            continue            # a constant false is always safe (falls back to the scoped read)
        pv = b.provenance(st["rv"]["o"][0], through_calls=False) if st["rv"].get("o") else None
        if not (pv and any(cb in good for _, cb in pv.calls)):
            bad.append(st["sp"])
    ok = bool(good) and not bad
    ctx.ob("R2-headseq", "heads_are_current|result is a set equality", ok, b.rec["sp"], "== of two sets built from self.heads and the argument (or constant false)" if ok else
           "heads_are_current can answer true without comparing the argument and the current heads as sets (%s): a heads list with a repeated head is taken for the current heads and read unscoped" % (bad or "no set equality found"))


def check_succ_inc(ctx, f):
    """an increment is a successor that does not hide its counter: every visibility decision that walks an op's successors with their
    increment values (SuccCursors::with_inc) tests that value"""
    ctx.rule("R2-succinc", "sibling agreement: every bool-returning function that walks SuccCursors::with_inc tests the Option<i64> increment of a successor (discriminant switch or is_none / is_some)")
    n = 0
    for p, r in sorted(f.fns.items()):
        if r["ckey"] != ("automerge", "lib") or "{closure" in p:
            continue
        if not any((callee(t) or "").endswith("SuccCursors::with_inc") for _, t in f.calls(r)):
            continue
        b = cfg.body(r)
        if b.local_ty(0) != "bool":
            continue
        n += 1
        ctx.analysed_fns.add(p)
        tests = 0
        for bd in [b] + [cfg.body(x) for x in f.closures_of(p)]:
            for sb, sw in bd.switches():
                src = bd.bool_operand_source(sw["op"])
                if src and src["kind"] == "discr" and (src.get("ty") or "").startswith("core::option::Option<i64>"):
                    tests += 1
            for bi, t in bd.calls():
                if (norm_fn(t.get("fn")) or "").endswith(("Option::is_none", "Option::is_some")) and "Option<i64>" in " ".join(t.get("argtys", [])):
                    tests += 1
        ctx.ob("R2-succinc", "%s|increments are not deletions" % norm_fn(p).split("op_set::")[-1], tests >= 1, r["sp"], "tests the successor's increment value" if tests else
               "a successor covered by the clock hides the op whether or not it is an increment: an incremented counter disappears from listings at those heads")
    ctx.floor("visibility predicates walking successors with increments", n, 2)


def check_vis_slow(ctx, f):
    """the walking path of find_op_by_id_and_vis: a later row of the register hides the op only if it is a value (not an increment)"""
    ctx.rule("R2-incskip", "OpSet::find_op_by_id_and_vis_slow: `visible := false` for the op looked up is set only on the false edge of Op::is_inc of the later row (an increment of a losing counter is not a value that hides the winner)")
    FN = "automerge::op_set2::op_set::OpSet::find_op_by_id_and_vis_slow"
    b = ctx.body(FN)
    ctx.analysed_fns.add(FN)
    not_inc = cfg.cond_edges(b, atom_call=lambda t: (callee(t) or "").endswith("op_set2::op::Op::is_inc"), want=False)
    hides = []
    for bi, blk in enumerate(b.blocks):
        if blk.get("cleanup"):
            continue
        for st in blk["st"]:
            if not st["d"]["p"] and b.local_ty(st["d"]["l"]) == "bool" and b.local_name(st["d"]["l"]) and st["rv"]["k"] == "Use" and (util.op_const(st["rv"]["o"][0]) or {}).get("v") == "0":
                # after a row was pulled from the iterator over the later rows
                if any(b.can_reach(nb, bi) for nb, nt in b.calls() if (norm_fn(nt.get("fn")) or "").endswith("Iterator::next") and any(b.can_reach(s_, nb) for s_ in b.succ[nb])):
                    hides.append((bi, st))
    ctx.floor("`visible := false` stores in the walk of find_op_by_id_and_vis_slow", len(hides), 1)
    for k, (bi, st) in util.ordinal_keys(hides, lambda it: "find_op_by_id_and_vis_slow|hidden by a later row"):
        ok = any(b.edges_dominate([e], bi) for e in not_inc)
        ctx.ob("R2-incskip", k, ok, st["sp"], "only by a row that is not an increment" if ok else
               "every later row of the register that the clock covers hides the op, also a bare increment of a losing counter: parents_at() / object visibility report the winner of a conflict as not visible (and disagree with the indexed path)")
