"""C24 Text indexes are consistent in every text encoding — "one source of units" discipline (thin).

Decides the code-shape half of the property:
 (E1) who-may-construct: a TextEncoding value is created from a literal variant only in `text_value::platform_default`; everywhere
      else the encoding is the document's (a field or a parameter) — a code path that hardcodes an encoding measures indexes in
      other units than the rest of the document;
 (E2) every receiver of `TextEncoding::width` and every TextEncoding argument handed to a width / length / seek function derives
      from a field or a parameter (provenance), never from a literal;
 (E3) who-may-count: string units are counted (`str::len`, `chars`, `encode_utf16`, `graphemes`, `bytes`) only in
      `TextEncoding::width` — which has an arm for every encoding, each using the matching primitive — and in the reviewed
      per-encoding helpers (the TextValue impls, the element splitter of BatchInsertion::splice_text, grapheme segmentation of
      text_diff, storage byte lengths, anonymisation, cursor parsing); a new raw count elsewhere is reported.
Not decided: that the per-op widths kept in the text index stay correct through edits, conflicts and merges (runtime values).
"""
import re
from .. import cfg, util, facts, tables
from ..util import norm_fn, callee

TE = "automerge::types::TextEncoding"
WIDTH = TE + "::width"
COUNTERS = re.compile(r"^(core::str::len|core::str::chars|core::str::encode_utf16|unicode_segmentation::.*graphemes|core::str::char_indices|core::str::bytes|alloc::string::String::len)$")
# functions allowed to count string units themselves, with the reason
ALLOWED = {
    WIDTH: "the single definition of a string's width per encoding",
    "<automerge::text_value::CodePoint as automerge::text_value::TextValue>::new": "per-encoding element split of the hydrated text value (code points)",
    "<automerge::text_value::CodePoint as automerge::text_value::TextValue>::splice": "per-encoding element split of the hydrated text value (code points)",
    "<automerge::text_value::Grapheme as automerge::text_value::TextValue>::new": "per-encoding element split of the hydrated text value (graphemes)",
    "<automerge::text_value::Grapheme as automerge::text_value::TextValue>::splice": "per-encoding element split of the hydrated text value (graphemes)",
    "<automerge::text_value::Utf16 as automerge::text_value::TextValue>::new": "per-encoding element split of the hydrated text value (UTF-16 units)",
    "<automerge::text_value::Utf16 as automerge::text_value::TextValue>::splice": "per-encoding element split of the hydrated text value (UTF-16 units)",
    "<automerge::text_value::Utf8 as automerge::text_value::TextValue>::new": "per-encoding element split of the hydrated text value (bytes)",
    "<automerge::text_value::Utf8 as automerge::text_value::TextValue>::splice": "per-encoding element split of the hydrated text value (bytes)",
    "automerge::transaction::inner::BatchInsertion::splice_text": "splits inserted text into elements (graphemes under the grapheme encoding, chars otherwise); widths are then taken with op.width(Text, doc.text_encoding())",
    "automerge::text_diff::myers_diff": "grapheme segmentation of the two texts being diffed (diff units), not an index computation",
    "automerge::text_diff::span_as_grapheme": "grapheme segmentation for block diffing",
    "automerge::text_diff::spans_as_grapheme": "grapheme segmentation for block diffing",
    "<automerge::op_set2::meta::ValueMeta as core::convert::From<&'a automerge::op_set2::types::ScalarValue<'a>>>::from": "storage length of a string value in bytes (value metadata), not a text index",
    "automerge::anonymize::Anonymization::anonymize_content_string": "replacement text of the same shape; not an index computation",
    "automerge::anonymize::Anonymization::anonymize_structural_string": "replacement text of the same shape; not an index computation",
    "automerge::cursor::Cursor::from_str": "parsing of the cursor's string form",
}
PRIMITIVE = {"UnicodeCodePoint": "chars", "Utf8CodeUnit": "len", "Utf16CodeUnit": "encode_utf16", "GraphemeCluster": "graphemes"}


def run(ctx):
    ctx.level = "proof"
    ctx.decides = ("TextEncoding literals are constructed only in platform_default; every TextEncoding operand of a width / seek / length call derives from a field or parameter; "
                   "raw string-unit counting happens only in TextEncoding::width (one arm per encoding, matching primitive) and the reviewed per-encoding helpers.")
    ctx.not_decided = "correctness of the per-op widths stored in the text index through edits, conflicts and merges; grapheme segmentation itself."
    ctx.rule("E1", "who-may-construct TextEncoding from a literal variant")
    ctx.rule("E2", "provenance of TextEncoding operands: field or parameter, never a literal")
    ctx.rule("E3", "who-may-count string units; TextEncoding::width has one arm per variant using the matching primitive")
    ctx.rule("E4", "unit consistency in the text-diff hooks: an accumulator (field of the hook or local) that receives a TextEncoding::width-derived addend anywhere receives only width-derived addends (no grapheme counts, no literal 1 for a block)")
    ctx.rule("E6", "patch lengths: the length of every PatchLog::delete_seq is a width in the document's encoding, or the literal 1 at a site that only handles list elements (reviewed)")
    ctx.rule("E7", "OpSet::seek_text_ops_by_index_fast: an op is collected as the element's value only on the true edge of Op::visible (an incremented counter stays, its increments do not), after Op::fix_counter folded the increments in")
    ctx.rule("E8", "OpSet::seq_length: the widths summed for a text at historical heads come from the one-top-op-per-element iterator that OpSet::text reads (sibling agreement), not from every visible op")
    ctx.rule("E9", "Automerge::get_marks_for: the index parameter is compared with an accumulation of Op::width results, never handed to an element-counting adaptor (nth / skip / advance_by)")
    ctx.rule("W4", "C02 W4 re-run")
    ctx.rule("W7", "C02 W7 re-run")
    ctx.rule("W6", "OpSet::add_succ_with_undo: the exposing store goes through OpSet::expose, which sets the top flag and the text-index width together")
    ctx.rule("E6b", "a TransactionInner function that looks an element up by index and logs a DeleteSeq addresses the patch by the element's start as the lookup reports it (OpsFound.index is in the provenance of the patch index), not by the caller's raw index alone (which may fall inside a wide element)")
    ctx.rule("E10", "no load path that carries LoadOptions builds its document with Automerge::new() (platform-default encoding): an empty input still yields a document in options.text_encoding")
    ctx.rule("E5", "the text-diff hooks never delete a single element (TransactionInner::delete); every delete count handed to splice_text is the constant 0 or width-derived")
    f = ctx.facts()
    a = f.adts.get(TE)
    if a is None:
        raise facts.AnchorMissing(TE)
    variants = [v["name"] for v in a["variants"]]
    ctx.floor("TextEncoding variants", len(variants), 4)
    # ---------------- E1 / E2
    lit_fns = {}
    n_ops = 0
    for p, r in sorted(f.fns.items()):
        if r["ckey"][1] != "lib" or r["ckey"][0] != "automerge":
            continue
        b = None
        for bi, blk in enumerate(r["blocks"]):
            if blk.get("cleanup"):
                continue
            for st in blk["st"]:
                rv = st["rv"]
                if rv["k"] == "Agg" and rv.get("adt") == TE:
                    lit_fns.setdefault(norm_fn(p), []).append(st["sp"])
                for o in rv.get("o", ()):
                    k = util.op_const(o)
                    if k and TE in (k.get("ty") or ""):
                        lit_fns.setdefault(norm_fn(p), []).append(st["sp"])
            t = blk["t"]
            if t["k"] == "call":
                for a_, ty in zip(t.get("args", []), t.get("argtys", [])):
                    if util.strip_refs(ty) != TE:
                        continue
                    n_ops += 1
                    k = util.op_const(a_)
                    if k is not None:
                        lit_fns.setdefault(norm_fn(p), []).append(t["sp"])
                        continue
                    b = b or cfg.body(r)
                    pv = b.provenance(a_, through_calls=True)
                    lit = any(ad == TE for ad, _ in pv.aggs)
                    if lit and norm_fn(p) != "automerge::text_value::platform_default":
                        ctx.ob("E2", "%s|%s" % (norm_fn(p), norm_fn(t.get("res") or t.get("fn")).split("::")[-1]), False, t["sp"],
                               "a TextEncoding built from a literal variant in this function reaches %s" % norm_fn(t.get("res") or t.get("fn")))
    ctx.floor("TextEncoding operands passed to calls", n_ops, 100)
    ctx.ob("E2", "all TextEncoding call operands derive from fields / parameters", True, "", "%d operands examined" % n_ops, nontrivial=True)
    for fn, sps in sorted(lit_fns.items()):
        ok = fn == "automerge::text_value::platform_default"
        ctx.ob("E1", "literal in %s" % fn, ok, sps[0], "the platform default" if ok else "a TextEncoding variant is hardcoded here: indexes computed on this path are measured in that encoding whatever the document uses")
    ctx.floor("functions constructing a TextEncoding literal", len(lit_fns), 1)
    # ---------------- E3
    counters = {}
    for p, r in sorted(f.fns.items()):
        if r["ckey"] != ("automerge", "lib"):
            continue
        for bi, t in f.calls(r):
            n = norm_fn(t.get("fn")) or ""
            if COUNTERS.match(n):
                counters.setdefault(norm_fn(p).split("::{closure")[0], []).append((n.split("::")[-1], t["sp"]))
    ctx.floor("functions counting string units", len(counters), 10)
    for fn, sites in sorted(counters.items()):
        ok = fn in ALLOWED
        ctx.ob("E3", "counts string units: %s" % fn, ok, sites[0][1], ("reviewed: " + ALLOWED[fn]) if ok else
               "raw string-unit count (%s) outside TextEncoding::width and the reviewed per-encoding helpers: an index computed here ignores the document's encoding" % sorted({s for s, _ in sites}),
               via=("table:" + ALLOWED[fn]) if ok and fn != WIDTH else None)
    wb = ctx.body(WIDTH)
    t = tables.table_of(wb)
    for v in variants:
        # which primitive does the arm call?
        arm_calls = set()
        for sb, sw in wb.switches():
            src = wb.bool_operand_source(sw["op"])
            if src and src["kind"] == "discr":
                for val, tb in sw["targets"]:
                    if (src["vars"] or {}).get(val) == v:
                        region = [x for x in range(wb.n) if wb.block_dominates(tb, x)]
                        for x in region:
                            tt = wb.blocks[x]["t"]
                            if tt["k"] == "call" and COUNTERS.match(norm_fn(tt.get("fn")) or ""):
                                arm_calls.add(norm_fn(tt["fn"]).split("::")[-1])
                if v not in (src["vars"] or {}).values():
                    continue
        want = PRIMITIVE.get(v)
        ctx.ob("E3", "TextEncoding::width|%s uses %s" % (v, want), want in arm_calls and len(arm_calls) == 1, wb.rec["sp"], "arm calls %s" % sorted(arm_calls))
    check_units(ctx, f)
    check_index_readers(ctx, f)
    check_patch_index_and_load(ctx, f)


def width_fns(f):
    """TextEncoding::width and the usize-returning functions that call it (two levels)"""
    from .. import callgraph
    cg = callgraph.get(f)
    W = {WIDTH}
    for _ in range(2):
        for p, r in f.fns.items():
            if r["ckey"] == ("automerge", "lib") and norm_fn(p) not in W and cfg.body(r).local_ty(0) in ("usize", "u64") and any(norm_fn(c) in W for c in cg.out.get(p, ())):
                W.add(norm_fn(p))
    return W


def width_derived(f, b, op, W):
    pv = b.provenance(op, through_calls=True)
    if any(norm_fn(c) in W for c in pv.callees()):
        return True
    for cl in pv.closures:
        r = f.fns.get(cl)
        if r is not None and any(norm_fn(t.get("res") or t.get("fn")) in W for _, t in f.calls(r)):
            return True
    return False


def accumulations(b):
    """`P += X` in MIR: yields (key of P, operand X, span). P is a field of self or a local."""
    def key(pl):
        if pl is None:
            return None
        o = b.origin(pl["l"], tuple(pl["p"]))
        if o[0] == 1 and b.argc >= 1:
            flds = tuple(e for e in o[1] if e.startswith("."))
            return ("self",) + flds if flds else None
        if o[0] > b.argc and not [e for e in o[1] if e not in ("&", "*")]:
            return ("local", o[0])
        return None
    for bi, blk in enumerate(b.blocks):
        if blk.get("cleanup"):
            continue
        for st in blk["st"]:
            rv = st["rv"]
            if rv["k"] != "Bin" or rv["op"] not in ("Add", "AddWithOverflow", "AddUnchecked"):
                continue
            x, y = rv["o"]
            kx, ky = key(x.get("c") or x.get("m")), key(y.get("c") or y.get("m"))
            # where does the sum go?
            dests = []
            if rv["op"] == "Add":
                dests.append(key(st["d"]))
            else:
                for blk2 in b.blocks:
                    for st2 in blk2["st"]:
                        r2 = st2["rv"]
                        if r2["k"] == "Use":
                            src = r2["o"][0].get("m") or r2["o"][0].get("c")
                            if src and src["l"] == st["d"]["l"] and src["p"] == [".0"]:
                                dests.append(key(st2["d"]))
            for dk in dests:
                if dk is None:
                    continue
                if kx == dk:
                    yield dk, y, st["sp"]
                elif ky == dk:
                    yield dk, x, st["sp"]


def check_units(ctx, f):
    W = width_fns(f)
    ctx.floor("width functions (TextEncoding::width and its usize wrappers)", len(W), 2)
    scope = []
    for p, r in sorted(f.fns.items()):
        np_ = norm_fn(p)
        if r["ckey"] != ("automerge", "lib") or "automerge::text_diff::" not in np_ or "{closure" in p:
            continue
        head = np_.split(" as ")[0].lstrip("<")
        if any(head.startswith("automerge::text_diff::%s::" % m) for m in ("myers", "replace", "utils")):
            continue            # generic diff machinery: indexes into the grapheme vectors, not into the text
        scope.append((p, r))
    ctx.floor("text-diff functions checked for unit consistency", len(scope), 15)
    groups = {}
    for p, r in scope:
        b = cfg.body(r)
        owner = r.get("container") or norm_fn(p)
        for k, x, sp in accumulations(b):
            gk = (owner.split(" as ")[0].lstrip("<") if k[0] == "self" else norm_fn(p),) + k
            groups.setdefault(gk, []).append((norm_fn(p), width_derived(f, b, x, W), sp))
        ctx.analysed_fns.add(p)
    n_unit = 0
    for gk, adds in sorted(groups.items(), key=str):
        if not any(w for _, w, _ in adds):
            continue            # never receives a width: a plain counter (loop index, item count)
        n_unit += 1
        name = "%s %s" % (gk[0].split("::")[-1].split("<")[0], "".join(str(x) for x in gk[2:]) if gk[1] == "self" else "local accumulator")
        for k, (fn, w, sp) in util.ordinal_keys(adds, lambda a: "%s|addend in %s" % (name, a[0].split("::")[-1])):
            ctx.ob("E4", k, w, sp, "addend is a width in the document's encoding" if w else
                   "this index is advanced by widths elsewhere but here by a value that is not a TextEncoding::width (a grapheme / item count or a literal): positions after a character or block wider than one unit are wrong")
    ctx.floor("text-index accumulators in the text-diff hooks", n_unit, 3)
    # E5
    TI_DELETE = "automerge::transaction::inner::TransactionInner::delete"
    n_spl = 0
    for p, r in scope:
        b = cfg.body(r)
        for bi, t in b.calls():
            c = callee(t)
            if c == TI_DELETE:
                ctx.ob("E5", "%s|single-element delete" % norm_fn(p).split("::")[-1], False, t["sp"],
                       "a grapheme is removed with TransactionInner::delete, which deletes one element: a grapheme several units wide in the document's encoding keeps its tail")
            if c == "automerge::transaction::inner::TransactionInner::splice_text":
                n_spl += 1
                d = t["args"][5]
                k0 = util.op_const(d)
                ok = (k0 is not None and k0.get("v") == "0") or width_derived(f, b, d, W)
                ctx.ob("E5", "%s|splice_text delete count|%d" % (norm_fn(p).split("::")[-1], n_spl), ok, t["sp"], "0 or a width" if ok else
                       "the number of units deleted is not a width in the document's encoding")
    ctx.floor("splice_text calls in the text-diff hooks", n_spl, 8)
    check_platform_default(ctx, f)
    check_untangler_index(ctx, f)
    check_delete_lengths(ctx, f)


def check_platform_default(ctx, f):
    """TextEncoding::platform_default() is the one place a literal encoding is made (E1); calling it anywhere but where a *new* document
    or the default load options are created hardcodes an encoding just the same"""
    from .. import callgraph
    cg = callgraph.get(f)
    ALLOWED_CALLERS = {"automerge::automerge::Automerge::new", "<automerge::automerge::LoadOptions as core::default::Default>::default",
                       "<automerge::types::TextEncoding as core::default::Default>::default", "automerge::autocommit::AutoCommit::new"}
    pd = [p for p in f.fns if norm_fn(p).endswith("TextEncoding::platform_default") or p.endswith("::platform_default")]
    if not pd:
        raise facts.AnchorMissing("TextEncoding::platform_default")
    callers = {norm_fn(c).split("::{closure")[0] for p in pd for c in cg.inn.get(p, ()) if not c.startswith("bin:")}
    callers = {c for c in callers if f.fns.get(c, {}).get("ckey", ("automerge", "lib")) == ("automerge", "lib") or c.startswith(("automerge::", "<automerge::"))}
    extra = sorted(c for c in callers if c not in ALLOWED_CALLERS and not c.startswith("<automerge::automerge::LoadOptions"))
    ctx.ob("E1", "TextEncoding::platform_default|callers", not extra, f.fns[pd[0]]["sp"], "called only where a new document / default load options are created (%d caller(s))" % len(callers) if not extra else
           "%s measures or creates text with the platform's default encoding instead of the document's" % extra)


def check_untangler_index(ctx, f):
    """the patch index of a merged change advances by widths in a text object; a literal step is right only for a list"""
    UT = "automerge::op_set2::change::batch::Untangler::untangle_inner"
    cand = [p for p in f.fns if norm_fn(p) == UT]
    if len(cand) != 1:
        raise facts.AnchorMissing(UT)
    b = cfg.body(f.fns[cand[0]])
    ctx.analysed_fns.add(cand[0])
    from .C03 import paggs_of
    list_edges = []
    for sb, sw in b.switches():
        src = b.bool_operand_source(sw["op"])
        if src and src["kind"] == "call" and (norm_fn(src.get("decl") or src["callee"]) or "").endswith("PartialEq::eq"):
            t = src["t"]
            if any(("automerge::types::SequenceType", "List") in paggs_of(b, a) for a in t["args"]):
                zero = [tb for v, tb in sw["targets"] if v == "0"]
                list_edges += [(sb, zero[0])] if src["negated"] and zero else ([] if src["negated"] else [(sb, sw["otherwise"])])
    ctx.floor("tests seq_type == List in Untangler::untangle_inner", len(list_edges), 1)
    n = 0
    for bi, blk in enumerate(b.blocks):
        if blk.get("cleanup"):
            continue
        for st in blk["st"]:
            rv = st["rv"]
            if rv["k"] == "Bin" and rv["op"] in ("Add", "AddWithOverflow"):
                keys = [b.origin(pl["l"], tuple(pl["p"])) for pl in [(o.get("c") or o.get("m")) for o in rv["o"]] if pl]
                if not any(o[0] == 1 and [e for e in o[1] if e.startswith(".")] == [".index"] for o in keys):
                    continue
                lit = [util.op_const(o) for o in rv["o"] if util.op_const(o) is not None]
                n += 1
                if not lit:
                    ctx.ob("E4", "Untangler::untangle_inner|index step|%d" % n, True, st["sp"], "a computed width", nontrivial=False)
                    continue
                ok = b.edges_dominate(list_edges, bi)
                ctx.ob("E4", "Untangler::untangle_inner|index step|%d" % n, ok, st["sp"], "literal step only for a list" if ok else
                       "the patch index advances by a literal %s outside the list case: in a text object an element (a block marker in UTF-8, a multi-unit character) is wider than one unit, so later patch positions are short" % lit[0].get("v"))
    ctx.floor("index steps in Untangler::untangle_inner", n, 2)


# delete_seq(.., 1) sites that only ever see list elements (one element = one index unit), with the reason
LITERAL_DELETES = {
    "automerge::iter::list_range::ListDiffItem::log": "diff of a list object (ListRange is not used for text)",
    "automerge::op_set2::change::batch::ValueState::list_flush": "the list branch of list_flush (edge-dominated by seq_type == List, checked)",
    "automerge::transaction::inner::TransactionInner::finalize_op": "a local delete op of a list element; deletions in text objects go through inner_splice, which logs widths",
}


def check_delete_lengths(ctx, f):
    W = width_fns(f)
    from .C03 import paggs_of
    n = 0
    for p, r in sorted(f.fns.items()):
        if r["ckey"] != ("automerge", "lib"):
            continue
        sites = [(bi, t) for bi, t in f.calls(r) if (callee(t) or "").endswith("PatchLog::delete_seq")]
        if not sites:
            continue
        b = cfg.body(r)
        ctx.analysed_fns.add(p)
        owner = norm_fn(p).split("::{closure")[0]
        for k, (bi, t) in util.ordinal_keys(sites, lambda it: "%s|delete_seq length" % owner):
            n += 1
            a = t["args"][3]
            c = util.op_const(a)
            if c is None:
                ok = width_derived(f, b, a, W) or any((norm_fn(x) or "").split("::")[-1] in ("width", "diff_width") for x in b.provenance(a, through_calls=True).callees()) or bool(b.provenance(a, through_calls=True).params)
                ctx.ob("E6", k, ok, t["sp"], "a width (or a length handed in by the caller)" if ok else "the length of the deletion is neither a width in the document's encoding nor the caller's")
                continue
            if owner in LITERAL_DELETES:
                ok = True
                if owner.endswith("ValueState::list_flush"):
                    edges = []
                    for sb, sw in b.switches():
                        src = b.bool_operand_source(sw["op"])
                        if src and src["kind"] == "call" and (norm_fn(src.get("decl") or src["callee"]) or "").endswith("PartialEq::eq") and any(("automerge::types::SequenceType", "List") in paggs_of(b, x) for x in src["t"]["args"]):
                            zero = [tb for v, tb in sw["targets"] if v == "0"]
                            edges += [(sb, zero[0])] if src["negated"] and zero else ([] if src["negated"] else [(sb, sw["otherwise"])])
                    ok = bool(edges) and b.edges_dominate(edges, bi)
                ctx.ob("E6", k, ok, t["sp"], "reviewed: " + LITERAL_DELETES[owner], via="table:" + LITERAL_DELETES[owner])
            else:
                ctx.ob("E6", k, False, t["sp"], "a deletion of literal length %s is logged where text objects are handled: an element wider than one unit (a block marker in UTF-8, a multi-unit character) leaves its tail in a materialized view" % c.get("v"))
    ctx.floor("PatchLog::delete_seq call sites", n, 8)


def check_index_readers(ctx, f):
    from . import C02
    OPSET = "automerge::op_set2::op_set::OpSet::"
    # ---------------- E7
    b = ctx.body(OPSET + "seek_text_ops_by_index_fast")
    ctx.analysed_fns.add(OPSET + "seek_text_ops_by_index_fast")
    pushes = [(bi, t) for bi, t in b.calls() if (norm_fn(t.get("fn")) or "").endswith("Vec::push") and "Op<" in " ".join(t.get("argtys", []))]
    ctx.floor("ops collected by seek_text_ops_by_index_fast", len(pushes), 1)
    vis_true = cfg.cond_edges(b, atom_call=lambda t: (callee(t) or "").endswith("op_set2::op::Op::visible"))
    fixes = [bi for bi, t in b.calls() if (callee(t) or "").endswith("op_set2::op::Op::fix_counter")]
    for k, (bi, t) in util.ordinal_keys(pushes, lambda it: "seek_text_ops_by_index_fast|op collected"):
        guarded = any(b.edges_dominate([e], bi) for e in vis_true)
        fixed = any(b.block_dominates(fb, bi) for fb in fixes)
        ctx.ob("E7", k, guarded and fixed, t["sp"], "behind Op::visible, counters fixed" if guarded and fixed else
               ("an op is taken as the element's value without the Op::visible test: an incremented counter embedded in a text is dropped and get() is handed its Increment op (panic)" if not guarded else
                "a counter embedded in a text is returned without its increments folded in (Op::fix_counter): get() shows the creation value"))
    # ---------------- E8
    sl = ctx.body(OPSET + "seq_length")
    ctx.analysed_fns.add(OPSET + "seq_length")
    tx = ctx.body(OPSET + "text")
    def op_sources(bd):
        return {(callee(t) or "").split("::")[-1] for _, t in bd.calls() if (callee(t) or "").startswith(OPSET) and (callee(t) or "").split("::")[-1] in
                ("action_value_iter", "action_value_top_iter", "top_ops", "iter_range", "iter_obj", "iter")}
    src_text = op_sources(tx)
    sums = [(bi, t) for bi, t in sl.calls() if (norm_fn(t.get("fn")) or "").split("::")[-1] in ("sum", "fold", "count") and
            any((norm_fn(c) or "").startswith(OPSET) for c in sl.provenance(t["args"][0], through_calls=True).callees())]
    ctx.floor("iterator sums in seq_length", len(sums), 1)
    ctx.floor("op iterators read by OpSet::text", len(src_text), 1)
    n_sum = 0
    for k, (bi, t) in util.ordinal_keys(sums, lambda it: "seq_length|summed iterator"):
        srcs = {(norm_fn(c) or "").split("::")[-1] for c in sl.provenance(t["args"][0], through_calls=True).callees() if (norm_fn(c) or "").startswith(OPSET)}
        srcs &= {"action_value_iter", "action_value_top_iter", "top_ops", "iter_range", "iter_obj", "iter"}
        if not srcs:
            continue                # the list branch sums index columns, not ops
        n_sum += 1
        ok = srcs <= src_text
        ctx.ob("E8", k, ok, t["sp"], "same element iterator as OpSet::text (%s)" % sorted(srcs) if ok else
               "length at historical heads sums over %s while text() reads %s: a conflicted text element is counted once per concurrent value" % (sorted(srcs), sorted(src_text)))
    ctx.floor("sums over op iterators in seq_length", n_sum, 1)
    # ---------------- E9
    GM = [p for p in f.fns if norm_fn(p) == "automerge::automerge::Automerge::get_marks_for"]
    if len(GM) != 1:
        raise facts.AnchorMissing("Automerge::get_marks_for")
    g = cfg.body(f.fns[GM[0]])
    ctx.analysed_fns.add(GM[0])
    idx = [i for i in range(1, g.argc + 1) if g.local_ty(i) == "usize"]
    if len(idx) != 1:
        raise facts.AnchorMissing("usize index parameter of get_marks_for")
    idx = idx[0]
    counted = []
    for bi, t in g.calls():
        if (norm_fn(t.get("fn")) or "").split("::")[-1] in ("nth", "skip", "advance_by", "take", "nth_back"):
            for a in t.get("args", [])[1:]:
                o = g.operand_origin(a)
                if o and o[0] == idx:
                    counted.append((bi, t))
    widths = [bi for bi, t in g.calls() if (callee(t) or "").endswith("op_set2::op::Op::width")]
    cmps = 0
    for sb, sw in g.switches():
        src = g.bool_operand_source(sw["op"])
        if src and src["kind"] == "bin" and src["op"] in ("Gt", "Ge", "Lt", "Le"):
            os_ = [g.operand_origin(o) for o in src["o"]]
            if any(o and o[0] == idx for o in os_):
                cmps += 1
    ok = not counted and bool(widths) and cmps >= 1
    ctx.ob("E9", "get_marks_for|index measured by width", ok, (counted[0][1]["sp"] if counted else g.rec["sp"]),
           "index compared with accumulated Op::width" if ok else
           "the index of get_marks is consumed as an element count (%s): with multi-unit characters it addresses a different character than get(), mark() and marks()" % (sorted({(norm_fn(t.get("fn")) or "").split("::")[-1] for _, t in counted}) or "no width comparison"))
    C02.check_expose_once(ctx, f)


def check_patch_index_and_load(ctx, f):
    TIp = "automerge::transaction::inner::TransactionInner::"
    n = 0
    for p, r in sorted(f.fns.items()):
        if r["ckey"] != ("automerge", "lib") or not norm_fn(p).startswith(TIp) or "{closure" in p:
            continue
        b = cfg.body(r)
        if not any((callee(t) or "").endswith("OpSet::seek_ops_by_index") for _, t in b.calls()):
            continue
        dels = [(bi, t) for bi, t in b.calls() if (callee(t) or "").endswith("PatchLog::delete_seq")]
        for k, (bi, t) in util.ordinal_keys(dels, lambda it, nm=norm_fn(p).split("::")[-1]: "%s|DeleteSeq index" % nm):
            n += 1
            ctx.analysed_fns.add(p)
            pv = b.provenance(t["args"][2], through_calls=False)
            snapped = any(".index" in b.origin(l, pr)[1] or ".index" in pr for l, pr in pv.places) or pv.has_field(".index")
            ctx.ob("E6b", k, snapped, t["sp"], "the element's start from the lookup" if snapped else
                   "the DeleteSeq patch is addressed by the caller's index alone: when that index falls inside a wide element (a block marker in UTF-8) the patch does not fit the text a view holds")
    ctx.floor("DeleteSeq patches after an element lookup in TransactionInner", n, 2)
    # ---------------- E10
    m = 0
    for p, r in sorted(f.fns.items()):
        if r["ckey"] != ("automerge", "lib") or not norm_fn(p).startswith("automerge::automerge::Automerge::") or "{closure" in p:
            continue
        b = cfg.body(r)
        if not any("LoadOptions" in b.local_ty(i) for i in range(1, b.argc + 1)):
            continue
        m += 1
        ctx.analysed_fns.add(p)
        plain = [(bi, t) for bi, t in b.calls() if callee(t) == "automerge::automerge::Automerge::new"]
        ctx.ob("E10", "%s|document built in the requested encoding" % norm_fn(p).split("::")[-1], not plain, (plain[0][1]["sp"] if plain else r["sp"]),
               "no Automerge::new() on a path that knows the requested encoding" if not plain else
               "a load that was given a text encoding returns Automerge::new() (platform default) on some path: load_incremental(&[]) on an empty UTF-16 document resets its encoding and every later index is in the wrong unit")
    ctx.floor("load functions carrying LoadOptions", m, 1)
