"""C14 Corrupted storage is rejected — rule R1 (checksum-before-use) + R12 (hash provenance).

Decides: every loader that parses a chunk tests `checksum_valid()` on that very chunk before any
content of the chunk is used, the failing edge leads only to `Err`, each chunk variant's test
reaches `Header::checksum_valid`, which compares the checksum stored on the wire with the one
derived from the SHA-256 of the chunk's own data.
Not decided: that a 32-bit checksum detects every bit flip (arithmetic), nor panic-freedom of the
parser that runs before the test (that is C15's subject).
"""
from .. import cfg, util, callgraph, rules
from ..util import callee, decl, norm_fn

PARSE = "automerge::storage::chunk::Chunk::parse"
CHK = "automerge::storage::chunk::Chunk::checksum_valid"
HDR_CHK = "automerge::storage::chunk::Header::checksum_valid"
VARIANT_CHK = {
    "Document": "automerge::storage::document::Document::checksum_valid",
    "Change": "automerge::storage::change::Change::checksum_valid",
    "CompressedChange": "automerge::storage::change::Change::checksum_valid",
    "Bundle": "automerge::storage::bundle::storage::BundleStorage::checksum_valid",
}
CHUNK_TYPES = (
    "automerge::storage::chunk::Chunk",
    "automerge::storage::document::Document",
    "automerge::storage::change::Change",
    "automerge::storage::bundle::storage::BundleStorage",
    "automerge::storage::change::compressed::Compressed",
)
HASH_FN = "automerge::storage::chunk::hash"


def is_chunk_ty(ty):
    return util.base_ty(ty) in CHUNK_TYPES


def content_uses(b):
    """blocks where a value of chunk/payload type is *used*: passed to a call, matched on, or
    packed into an aggregate. Plain moves between locals are not uses."""
    out = []
    for bi in sorted(b.live_blocks()):
        blk = b.blocks[bi]
        if blk.get("cleanup"):
            continue
        for s in blk["st"]:
            rv = s["rv"]
            # reading a field of the chunk (through a variant downcast or a struct field)
            places = []
            if rv["k"] in ("Ref", "RawPtr"):
                places.append(rv["p"])
            for o in rv.get("o", ()):
                pl = util.op_place(o)
                if pl is not None:
                    places.append(pl)
            for pl in places:
                if pl["p"] and is_chunk_ty(b.local_ty(pl["l"])) and any(e.startswith((".", "@")) for e in pl["p"]):
                    out.append((bi, "field %s of the chunk read" % "".join(pl["p"]), s["sp"]))
                    break
            if rv["k"] == "Agg":
                for o in rv["o"]:
                    pl = util.op_place(o)
                    if pl is not None and not pl["p"] and is_chunk_ty(b.local_ty(pl["l"])):
                        out.append((bi, "chunk packed into %s" % (rv.get("adt") or rv["ak"]), s["sp"]))
        t = blk["t"]
        if t["k"] == "call":
            c = callee(t)
            if c == CHK:
                continue
            for ty in t["argtys"]:
                if is_chunk_ty(ty):
                    out.append((bi, "chunk passed to %s" % c, t["sp"]))
                    break
    return out


def check_site(ctx, f, path, table):
    b = cfg.body(f.fns[path])
    ctx.analysed_fns.add(path)
    parse_blocks = [bi for bi, t in b.calls() if callee(t) == PARSE]
    for n, pb in enumerate(parse_blocks):
        key = "%s|Chunk::parse|%d" % (norm_fn(path), n)
        w = util.where(b, pb)
        # checksum test on the parsed chunk
        tests = []
        for bi, t in b.calls():
            if callee(t) != CHK:
                continue
            pv = b.provenance(t["args"][0])
            if (b.blocks[pb]["t"].get("res") or b.blocks[pb]["t"].get("fn"), pb) in pv.calls:
                tests.append((bi, t))
        uses = content_uses(b)
        consumed = bool(uses)
        if not tests:
            if key in table:
                ctx.ob("R1", key, True, w, "no checksum test; reviewed: " + table[key], via="table:" + table[key])
            elif not consumed:
                ctx.ob("R1", key, True, w, "parse result not consumed as content", nontrivial=False)
            else:
                ctx.ob("R1", key, False, w, "chunk parsed from bytes is used (%s at %s) but `checksum_valid` is never tested on it" % (uses[0][1], uses[0][2]))
            continue
        # the switch on the test result
        ok_edges, bad_targets = [], []
        for tb, t in tests:
            dst = t["dst"]["l"]
            for sb, sw in b.switches():
                src = b.bool_operand_source(sw["op"])
                if src and src["kind"] == "call" and src["block"] == tb:
                    truth = "0" if src["negated"] else "1"
                    # edge taken when checksum_valid() is true
                    val_true = [tb_ for v, tb_ in sw["targets"] if v == truth]
                    # bool switch has shape [0: bbX, otherwise: bbY]
                    if truth == "1":
                        tgt_true = sw["otherwise"] if not val_true else val_true[0]
                        tgt_false = [tb_ for v, tb_ in sw["targets"] if v == "0"][0]
                    else:
                        tgt_true = val_true[0]
                        tgt_false = sw["otherwise"]
                    ok_edges.append((sb, tgt_true))
                    bad_targets.append((sb, tgt_false))
        if not ok_edges:
            ctx.ob("R1", key, False, w, "result of `checksum_valid` is not branched on")
            continue
        bad = [u for u in uses if not b.edges_dominate(ok_edges, u[0])]
        if bad:
            u = bad[0]
            path_ = b.witness_path(0, u[0], avoid_edges=ok_edges)
            ctx.ob("R1", key, False, u[2], "%s on a path that does not pass the `checksum_valid() == true` edge (witness blocks %s)" % (u[1], path_))
        else:
            ctx.ob("R1", key, True, w, "%d content uses, all dominated by the checksum_valid()==true edge" % len(uses))
        # failing edge leads to Err only
        for sb, tf in bad_targets:
            firsts = util.first_ret_assignments(b, tf, stop_edges=ok_edges)
            okf = bool(firsts)
            why = ""
            for (bi, kind, rec) in firsts:
                if kind == "stmt" and util.is_err_agg(rec["rv"]):
                    continue
                okf = False
                why = "block %d assigns the return value with %s" % (bi, kind)
            ctx.ob("R1-err", key, okf, util.where(b, sb), "failed checksum test must return Err. " + why)


def check_hash_provenance(ctx, f):
    """R12 (shared with C10): Header.hash is only ever built from chunk::hash(type, data)."""
    n = 0
    for p, r in f.fns.items():
        if r["ckey"] != ("automerge", "lib"):
            continue
        for bi, blk in enumerate(r["blocks"]):
            for s in blk["st"]:
                rv = s["rv"]
                if rv["k"] == "Agg" and rv.get("adt") == "automerge::storage::chunk::Header":
                    if r.get("trait_item") == "core::clone::Clone::clone":
                        continue  # derived Clone copies a Header that already obeys the rule
                    n += 1
                    b = cfg.body(r)
                    ctx.analysed_fns.add(p)
                    i = rv["fields"].index("hash")
                    pv = b.provenance(rv["o"][i], through_calls=False)
                    ok = {norm_fn(c) for c in pv.callees()} == {HASH_FN}
                    ctx.ob("R12", "%s|Header{hash}" % norm_fn(p), ok, s["sp"], "Header.hash must come from chunk::hash(chunk_type, data); found sources %s" % sorted(pv.callees()))
    ctx.floor("constructions of storage::chunk::Header", n, 3)


HDR_PARSE = "automerge::storage::chunk::Header::parse"
HDR_NEW = "automerge::storage::chunk::Header::new"
HDR_TYS = ("automerge::storage::chunk::Header", "automerge::storage::chunk::CheckSum")


def check_wire_checksum(ctx, f):
    """R1-wire: inside Chunk::parse every Header / CheckSum value that is handed on derives from the
    header parsed off the wire (possibly through with_data, which keeps the wire checksum) and never
    from Header::new / ChangeHash::checksum (which would make checksum_valid() compare a value with itself)."""
    pp = [p for p in f.fns if norm_fn(p) == PARSE]
    if len(pp) != 1:
        raise __import__("amverif.facts", fromlist=["AnchorMissing"]).AnchorMissing(PARSE)
    bodies = [cfg.body(f.fns[pp[0]])] + [cfg.body(r) for r in f.closures_of(pp[0])]
    n = 0
    for b in bodies:
        ctx.analysed_fns.add(b.path)
        for bi, t in b.calls():
            c = callee(t)
            if c == HDR_NEW:
                ctx.ob("R1-wire", "Chunk::parse|calls Header::new", False, t["sp"], "the parser must keep the checksum read from the wire; Header::new recomputes it from the data")
            for a, ty in zip(t["args"], t["argtys"]):
                if util.base_ty(ty) in HDR_TYS and c != HDR_PARSE:
                    n += 1
                    pv = b.provenance(a, through_calls=True)
                    cs = {norm_fn(x) for x in pv.callees()}
                    ok = HDR_PARSE in cs and HDR_NEW not in cs and "automerge::types::ChangeHash::checksum" not in cs
                    ctx.ob("R1-wire", "Chunk::parse|%s(%s)|%d" % ((c or "?").split("::")[-1], util.base_ty(ty).split("::")[-1], n), ok, t["sp"],
                           "derives from Header::parse" if ok else "header/checksum handed to %s does not come from the wire header (sources: %s)" % (c, sorted(x.split("::")[-1] for x in cs)))
    ctx.floor("Header/CheckSum hand-offs in Chunk::parse", n, 5)
    # with_data keeps self.checksum ; parse takes it from the 4 wire bytes
    for p, r in f.fns.items():
        if norm_fn(p) in ("automerge::storage::chunk::Header::with_data", HDR_PARSE):
            b = cfg.body(r)
            for blk in b.blocks:
                for s in blk["st"]:
                    rv = s["rv"]
                    if rv["k"] == "Agg" and rv.get("adt") == "automerge::storage::chunk::Header":
                        op = rv["o"][rv["fields"].index("checksum")]
                        pv = b.provenance(op, through_calls=True)
                        cs = {norm_fn(x) for x in pv.callees()}
                        if norm_fn(p).endswith("with_data"):
                            o = b.operand_origin(op)
                            ok = o is not None and o[0] == 1 and ".checksum" in o[1]
                        else:
                            in_closure = any(callee(t) == "automerge::storage::parse::take4" for cr in f.closures_of(p) for _, t in f.calls(cr))
                            ok = ("automerge::storage::parse::take4" in cs or ("automerge::storage::parse::range_of" in cs and in_closure)) \
                                and "automerge::storage::chunk::hash" not in cs and "automerge::types::ChangeHash::checksum" not in cs
                        ctx.ob("R1-wire", "%s|Header{checksum}" % norm_fn(p), ok, s["sp"], "checksum field keeps the wire value (sources %s)" % sorted(x.split("::")[-1] for x in cs)[:6])


def check_partial_error(ctx, f):
    """R1-partial: in the loader, when a later chunk fails (LoadedChanges::Partial) the only way to carry on
    to an Ok result is the edge `on_partial_load != Error` (i.e. the caller asked to ignore errors)."""
    LW = "automerge::automerge::Automerge::load_with_options_and_mark_validation"
    b = cfg.body(f.fns[LW]) if LW in f.fns else None
    if b is None:
        raise __import__("amverif.facts", fromlist=["AnchorMissing"]).AnchorMissing(LW)
    ctx.analysed_fns.add(LW)
    cands = []
    for sb, sw in b.switches():
        src = b.bool_operand_source(sw["op"])
        if src and src["kind"] == "discr" and util.base_ty(src.get("ty") or "") == "automerge::storage::load::LoadedChanges" and sb in b.live_blocks() and not b.blocks[sb].get("cleanup"):
            cands.append((sb, sw, src))
    # the user's `match` is the first such switch; later ones are drop elaboration of the same value
    first = [c for c in cands if not any(o[0] != c[0] and b.can_reach(o[0], c[0]) for o in cands)]
    arms = []
    for sb, sw, src in first:
        hit = [tb for v, tb in sw["targets"] if (src["vars"] or {}).get(v) == "Partial"]
        arms += hit if hit else [sw["otherwise"]]
    ctx.floor("LoadedChanges::Partial arms in the loader", len(arms), 1)

    def pred(src):
        if src["kind"] == "call" and norm_fn(src.get("decl")) == "core::cmp::PartialEq::eq":
            for a in src["t"]["args"]:
                o = b.operand_origin(a)
                if o and ".on_partial_load" in o[1]:
                    return False      # we want the edge where (on_partial_load == Error) is false
        return None
    ne_edges = rules.guard_edges(b, pred)
    ctx.floor("tests of options.on_partial_load in the loader", len(ne_edges), 1)
    for n, arm in enumerate(arms):
        reach = b.reachable(arm, removed_edges=tuple(ne_edges))
        oks = [bi for bi in reach for s in b.blocks[bi]["st"] if s["d"]["l"] == 0 and not s["d"]["p"] and util.is_ok_agg(s["rv"])]
        ctx.ob("R1-partial", "load_with_options_and_mark_validation|Partial arm|%d" % n, not oks, util.where(b, arm),
               "an Ok result after a failed chunk is reachable only through on_partial_load != Error" if not oks else
               "a failed later chunk (e.g. BadChecksum) can be swallowed without on_partial_load == Ignore: path %s" % b.witness_path(arm, oks[0], avoid_edges=ne_edges))


def run(ctx):
    ctx.level = "proof"
    ctx.decides = ("every call site of Chunk::parse on a load path tests checksum_valid() on the parsed chunk before the chunk is matched on, "
                   "passed to any function or stored; the false edge returns Err; every Chunk variant delegates to Header::checksum_valid; "
                   "Header::checksum_valid compares wire checksum with hash-derived checksum; Header.hash always comes from chunk::hash.")
    ctx.not_decided = "collision resistance of the 32-bit checksum; panic-freedom of the parser run before the test (C15)."
    ctx.rule("R1", "must-check-before-use: content uses of a parsed chunk are dominated by the true edge of a switch on checksum_valid() of that chunk")
    ctx.rule("R1-err", "the false edge of that switch reaches only `_0 = Err(..)`")
    ctx.rule("R1-arms", "Chunk::checksum_valid: every enum arm's return value comes from the variant's checksum_valid or is `false`")
    ctx.rule("R12", "Header.hash provenance is chunk::hash only")
    ctx.rule("R1-wire", "in Chunk::parse every Header/CheckSum handed on derives from Header::parse (wire) and not from Header::new / hash.checksum(); with_data keeps self.checksum")
    ctx.rule("R1-partial", "after LoadedChanges::Partial an Ok result is reachable only via the edge on_partial_load != Error")
    f = ctx.facts()
    table = ctx.table("r1_parse_sites.tsv")
    # load entry points: exported methods of Automerge / AutoCommit that take raw bytes
    entries = []
    for p, r in f.fns.items():
        if r["ckey"] != ("automerge", "lib") or not r.get("exported") or r.get("vis") != "pub":
            continue
        if r.get("container") not in ("automerge::automerge::Automerge", "automerge::autocommit::AutoCommit"):
            continue
        if any(f_["ty"] == "&[u8]" for f_ in r["locals"][1:1 + r["argc"]]):
            entries.append(p)
    ctx.floor("byte-taking entry points of Automerge/AutoCommit", len(entries), 8)
    cg = callgraph.get(f)
    reach = cg.reach(entries)
    sites, out_of_scope = [], []
    for p, r in f.fns.items():
        if r["ckey"] != ("automerge", "lib"):
            continue
        if norm_fn(p).startswith("automerge::storage::chunk::"):
            continue
        if any(callee(t) == PARSE for _, t in f.calls(r)):
            (sites if p in reach else out_of_scope).append(p)
    ctx.note("entry points: %s" % sorted(entries))
    ctx.note("Chunk::parse call sites not reachable from a load entry point (out of C14's scope): %s" % sorted(out_of_scope))
    ctx.floor("functions on a load path calling Chunk::parse", len(sites), 2)
    for p in sorted(sites):
        check_site(ctx, f, p, table)

    # arms of Chunk::checksum_valid
    b = ctx.body("automerge::storage::chunk::Chunk::<'a>::checksum_valid")
    adt = f.adts["automerge::storage::chunk::Chunk"]
    variants = [v["name"] for v in adt["variants"]]
    ctx.floor("Chunk variants", len(variants), 4)
    sw = [(bi, t) for bi, t in b.switches() if (b.bool_operand_source(t["op"]) or {}).get("kind") == "discr"]
    if len(sw) != 1:
        ctx.ob("R1-arms", "Chunk::checksum_valid|switch", False, b.rec["sp"], "expected one match on self")
    else:
        sb, t = sw[0]
        src = b.bool_operand_source(t["op"])
        vars_ = src["vars"]
        for v, tb in t["targets"]:
            name = vars_.get(v)
            if name is None:
                continue
            want = VARIANT_CHK.get(name)
            # every first assignment of _0 from this arm: call to variant's checksum_valid, or const false
            firsts = util.first_ret_assignments(b, tb)
            ok = bool(firsts) and want is not None
            saw_call = False
            for (bi, kind, rec) in firsts:
                if kind == "call" and callee(rec) == want:
                    saw_call = True
                    continue
                if kind == "stmt" and rec["rv"]["k"] == "Use" and (util.op_const(rec["rv"]["o"][0]) or {}).get("v") == "0":
                    continue
                ok = False
            ctx.ob("R1-arms", "Chunk::checksum_valid|%s" % name, ok and saw_call, util.where(b, tb), "arm must return %s(..) or false" % want)
        missing = set(variants) - set(vars_.values())
        if missing:
            ctx.ob("R1-arms", "Chunk::checksum_valid|missing", False, b.rec["sp"], "variants without arm: %s" % missing)
    # variant checksum_valid -> Header::checksum_valid on self.header
    for vp in sorted(set(VARIANT_CHK.values())):
        cands = [p for p in f.fns if norm_fn(p) == vp]
        if not cands:
            raise __import__("amverif.facts", fromlist=["AnchorMissing"]).AnchorMissing(vp)
        vb = ctx.body(cands[0])
        rd = util.ret_defs(vb)
        ok = len(rd) == 1 and rd[0][1] == "call" and callee(rd[0][2]) == HDR_CHK
        if ok:
            o = vb.operand_origin(rd[0][2]["args"][0])
            ok = o is not None and o[0] == 1 and ".header" in o[1]
        ctx.ob("R1-arms", "%s|delegates" % vp, ok, vb.rec["sp"], "must return self.header.checksum_valid()")
    # Header::checksum_valid compares hash-derived checksum with the stored one
    hb = ctx.body(HDR_CHK)
    rd = util.ret_defs(hb)
    ok = len(rd) == 1 and rd[0][1] == "call" and decl(rd[0][2]) == "core::cmp::PartialEq::eq"
    if ok:
        pvs = [hb.provenance(a) for a in rd[0][2]["args"]]
        fields = [set(e for _, pr in pv.places for e in pr if e.startswith(".")) for pv in pvs]
        calls = set()
        for pv in pvs:
            calls |= {norm_fn(c) for c in pv.callees()}
        ok = any(".hash" in x for x in fields) and any(".checksum" in x for x in fields) and "automerge::types::ChangeHash::checksum" in calls
    ctx.ob("R1-arms", "Header::checksum_valid|compare", ok, hb.rec["sp"], "must compare self.hash.checksum() with self.checksum")
    check_hash_provenance(ctx, f)
    check_wire_checksum(ctx, f)
    check_partial_error(ctx, f)
