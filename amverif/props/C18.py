"""C18 Change and bundle encodings round-trip — rule R5 (codec agreement: enum <-> tag tables).

Decides: the enum<->integer tables that both writers and readers of the binary formats rely on are
mutually inverse where both directions exist, decoders reject (or are total over) unknown tags,
and sibling tables of the same mapping agree:
  Action <-> u64 (8), ChunkType <-> u8 (4), ColumnType <-> u8 (8, 3-bit), ValueMeta type code <-> ValueType
  (10 + Unknown) for the three encoders and two decoders, ObjType <-> Action for the four "make" actions
  across OpType::decompose / from_action_and_value / ValueRef::from_action_value
  (the op-set's TryFrom<Action> for ObjType is an apply-side table, checked under C03).
The compressed-change path keeps the outer checksum and hashes the inflated data (C14's R1-wire, re-run here).
(R5-encpair) In the row-wise change-op encoder every column range `XRange::from(start..out.len())` tags bytes that the
matching `XEncoder::finish()` has just produced (the range type selects the decoder: a BooleanEncoder's bytes tagged as a
MaybeBooleanRange decode differently / re-encode to another hash).
(R5-order) The bundle writer and reader agree on the canonical order of the ID_CTR_INVERSE permutation: both sort by the
first two components of their element tuples, the writer's are (op.id.actor(), op.id.counter()), the reader's (change.actor,
change.seq) — actor first on both sides.
Not decided: byte-level round-trip of whole changes and bundles (values, run-length encodings).
"""
from .. import cfg, util, facts, tables
from ..util import norm_fn, callee
from . import C14

T = {
    "action_enc": "automerge::op_set2::types::<impl core::convert::From<automerge::op_set2::types::Action> for u64>::from",
    "action_dec": "<automerge::op_set2::types::Action as core::convert::TryFrom<u64>>::try_from",
    "chunk_enc": "automerge::storage::chunk::<impl core::convert::From<automerge::storage::chunk::ChunkType> for u8>::from",
    "chunk_dec": "<automerge::storage::chunk::ChunkType as core::convert::TryFrom<u8>>::try_from",
    "col_enc": "automerge::storage::columns::column_specification::ColumnType::as_u8",
    "col_dec": "automerge::storage::columns::column_specification::ColumnType::from_u8",
    "vt_enc": "automerge::columnar::column_range::value::<impl core::convert::From<automerge::columnar::column_range::value::ValueType> for u64>::from",
    "vt_dec1": "automerge::columnar::column_range::value::ValueMeta::type_code",
    "vt_dec2": "automerge::op_set2::meta::ValueMeta::type_code",
    "obj_try": "automerge::op_set2::types::<impl core::convert::TryFrom<automerge::op_set2::types::Action> for automerge::types::ObjType>::try_from",
    "obj_dec": "automerge::op_set2::types::<impl automerge::types::OpType>::decompose",
}
# ScalarValue variant -> ValueType variant (reviewed correspondence of the two vocabularies)
SCALAR_TO_VT = {"Uint": "Uleb", "Int": "Leb", "Null": "Null", "Timestamp": "Timestamp", "F64": "Float", "Counter": "Counter", "Str": "String", "Bytes": "Bytes"}


def tbl(ctx, f, path):
    c = [p for p in f.fns if norm_fn(p) == norm_fn(path)]
    if len(c) != 1:
        raise facts.AnchorMissing(path)
    b = ctx.body(c[0])
    t = tables.table_of(b)
    if t is None:
        raise facts.AnchorMissing(path + " (no match over the parameter found)")
    return t, b


def inverse_check(ctx, name, enc, dec, floor, wildcard_ok):
    """enc: Variant -> ('const', n) ; dec: n -> ('variant', 'Enum::Variant')"""
    ctx.floor("%s encoder arms" % name, len(enc), floor)
    e = {}
    for var, val in enc.items():
        if var == "_":
            continue
        ok = val[0] == "const"
        ctx.ob("R5-table", "%s|encode %s is a literal" % (name, var), ok, "", str(val), nontrivial=False)
        if ok:
            e[var] = val[1]
    ctx.ob("R5-table", "%s|codes are distinct" % name, len(set(e.values())) == len(e), "", "codes %s" % sorted(e.values(), key=int))
    for var, code in sorted(e.items(), key=lambda kv: int(kv[1])):
        d = dec.get(code)
        ok = d is not None and d[0] == "variant" and d[1].split("::")[-1] == var
        ctx.ob("R5-table", "%s|decode(%s) == %s" % (name, code, var), ok, "", "decoder gives %s" % (d,))
    extra = [k for k in dec if k != "_" and k not in e.values()]
    ctx.ob("R5-table", "%s|decoder has no tag the encoder never writes" % name, not extra, "", "extra tags %s" % extra)
    w = dec.get("_")
    ctx.ob("R5-table", "%s|unknown tag" % name, w is None or w[0] in wildcard_ok, "", "wildcard arm: %s" % (w,))


def run(ctx):
    _run18(ctx)
    check_change_identity(ctx, ctx.facts())


def _run18(ctx):
    ctx.level = "proof"
    ctx.decides = ("Action<->u64, ChunkType<->u8, ColumnType<->u8 and ValueType<->code tables are mutually inverse; decoders map unknown tags to Err / Unknown / (for the 3-bit ColumnType) cover all 8 values; "
                   "the three ValueMeta encoders agree with each other and with type_code(); the three Action<->ObjType codec tables agree; the compressed-change path keeps the wire checksum.")
    ctx.not_decided = "byte-level round-trip of changes and bundles (column contents, run-length structure, ordering)."
    ctx.rule("R5-table", "extracted match tables of encoder and decoder are inverse on their common domain; the decoder's wildcard arm errors (or is total)")
    ctx.rule("R5-sibling", "tables implementing the same mapping in different places agree arm by arm")
    ctx.rule("R5-encpair", "row-wise encoder: each XRange::from is preceded (latest dominating finish) by XEncoder::finish of the same family")
    ctx.rule("R5-order", "bundle ID_CTR_INVERSE: writer and reader sort keys are (elem.0, elem.1) with the actor as first component on both sides")
    ctx.rule("R5-eq", "<Change as PartialEq>::eq reads the stored change only: the compression cache (.compression) takes no part in equality (a change parsed from its compressed bytes equals the change)")
    ctx.rule("R5-set", "Bundle::for_hashes hands ChangeGraph::get_bundle_metadata a de-duplicated hash sequence (a filter whose closure inserts into a set, a dedup after a sort, or a set collection): one change row per distinct hash")
    ctx.rule("R5-body", "the payload handed to the DEFLATE encoder in Compressed::compress is the chunk body to its end: Change::body_bytes slices self.bytes from header.len() with an open end (or an end taken from len())")
    f = ctx.facts()
    from . import C10
    C10.check_mapper(ctx, f)            # rebuilt changes (bundles, get_changes, save) hash to the original only with a per-change actor table
    check_body(ctx, f)
    ae, _ = tbl(ctx, f, T["action_enc"])
    ad, _ = tbl(ctx, f, T["action_dec"])
    inverse_check(ctx, "Action<->u64", ae, ad, 8, ("err",))
    ce, _ = tbl(ctx, f, T["chunk_enc"])
    cd, _ = tbl(ctx, f, T["chunk_dec"])
    inverse_check(ctx, "ChunkType<->u8", ce, cd, 4, ("err",))
    oe, _ = tbl(ctx, f, T["col_enc"])
    od, _ = tbl(ctx, f, T["col_dec"])
    inverse_check(ctx, "ColumnType<->u8", oe, od, 8, ("panic",))
    # a panicking wildcard is only acceptable when the match is total over its (masked) domain
    ctx.ob("R5-table", "ColumnType<->u8|3-bit domain fully covered", {str(i) for i in range(8)} <= set(od), "", "arms %s" % sorted(k for k in od if k != "_"))
    # enum coverage from the ADT definitions
    for adt, enc in (("automerge::op_set2::types::Action", ae), ("automerge::storage::chunk::ChunkType", ce), ("automerge::storage::columns::column_specification::ColumnType", oe)):
        a = f.adts.get(adt)
        if a is None:
            raise facts.AnchorMissing(adt)
        names = {v["name"] for v in a["variants"]}
        ctx.ob("R5-table", "%s|every variant has a code" % adt.split("::")[-1], names <= set(enc), "", "missing %s" % sorted(names - set(enc)))
    # ---- ValueType codes
    ve, _ = tbl(ctx, f, T["vt_enc"])
    ve = {k: v for k, v in ve.items() if k != "Unknown"}
    for dn in ("vt_dec1", "vt_dec2"):
        vd, _ = tbl(ctx, f, T[dn])
        inverse_check(ctx, "ValueType<->code (%s)" % T[dn].split("::")[-3], ve, vd, 10, ("variant",))
    # the ValueMeta encoders (ScalarValue -> low 4 bits)
    encs = [p for p in f.fns if "ValueMeta as core::convert::From<&" in p and "ScalarValue" in p]
    ctx.floor("ValueMeta encoders", len(encs), 3)
    code_of = {v: c[1] for v, c in ve.items()}
    for p in sorted(encs):
        t = tables.table_of(ctx.body(p))
        for sv, vt in sorted(SCALAR_TO_VT.items()):
            got = t.get(sv)
            code = None
            if got and len(got) > 2 and got[2][0] in ("const", "const-part"):
                code = got[2][1]
            ctx.ob("R5-sibling", "%s|%s encodes type code of %s" % (norm_fn(p).split("::")[1] + "::" + norm_fn(p).split("<&")[-1].split(">")[0].split("::")[-2], sv, vt), code == code_of.get(vt), f.fns[p]["sp"],
                   "code %s, ValueType::%s = %s" % (code, vt, code_of.get(vt)))
    # ---- Action <-> ObjType
    dec, _ = tbl(ctx, f, T["obj_dec"])         # OpType::Make/ObjType -> Action
    want = {}
    for k, v in dec.items():
        if k.startswith("Make/") and v[0] == "variant":
            want[v[1].split("::")[-1]] = k.split("/")[1]          # Action name -> ObjType name
    ctx.floor("make-actions written by OpType::decompose", len(want), 4)
    sib = {
        "OpType::from_action_and_value": ("automerge::op_set2::types::OpType::from_action_and_value", lambda v: v[2][1].split("::")[-1] if v[0] == "variant" and len(v) > 2 and v[2][0] == "variant" else None),
        "ValueRef::from_action_value": ("automerge::op_set2::types::ValueRef::from_action_value", lambda v: v[2][1].split("::")[-1] if v[0] == "variant" and len(v) > 2 and v[2][0] == "variant" else None),
    }
    for name, (path, pick) in sib.items():
        t, b = tbl(ctx, f, path)
        for action, obj in sorted(want.items()):
            v = t.get(action, t.get("_"))
            got = pick(v) if v else None
            ctx.ob("R5-sibling", "%s|%s -> ObjType::%s" % (name, action, obj), got == obj, b.rec["sp"],
                   "agrees with OpType::decompose" if got == obj else "OpType::decompose writes Action::%s for ObjType::%s but %s maps it to %s" % (action, obj, name, v))
    C14.check_wire_checksum(ctx, f)
    check_encpair(ctx, f)
    check_inverse_order(ctx, f)


def stem(name):
    import re
    m = re.search(r"::(\w+?)(Range|Encoder)\b", name)
    return m.group(1) if m else None


def check_encpair(ctx, f):
    b = ctx.body("automerge::storage::change::change_op_columns::ChangeOpsColumns::encode_rowwise")
    calls = [(bi, t) for bi, t in b.calls()]
    fins = [(bi, t) for bi, t in calls if (norm_fn(t.get("fn")) or "").endswith("Encoder::finish") and "columnar::encoding" in (t.get("fn") or "")]
    froms = [(bi, t) for bi, t in calls if norm_fn(t.get("fn")) == "core::convert::From::from" and t.get("ga") and "Range" in t["ga"][0].split("<")[0] and "column_range" in t["ga"][0]]
    ctx.floor("XRange::from(range) constructions in encode_rowwise", len(froms), 4)
    ctx.floor("raw XEncoder::finish() calls in encode_rowwise", len(fins), 4)
    for k, (bi, t) in util.ordinal_keys(froms, lambda it: "encode_rowwise|%sRange::from" % stem(it[1]["ga"][0])):
        doms = [(fb, ft) for fb, ft in fins if fb != bi and b.block_dominates(fb, bi)]
        # the latest dominating finish: the one dominated by all the others
        last = [x for x in doms if all(b.block_dominates(y[0], x[0]) for y in doms)]
        got = stem(norm_fn(last[0][1]["fn"])) if last else None
        want = stem(t["ga"][0])
        ctx.ob("R5-encpair", k, got == want and got is not None, t["sp"], "bytes from %sEncoder::finish" % got if got == want else
               "bytes produced by %sEncoder are tagged as a %sRange (decoded with the %s decoder)" % (got, want, want))


def check_inverse_order(ctx, f):
    def key_closure(path):
        b = ctx.body(path)
        sorts = [(bi, t) for bi, t in b.calls() if (norm_fn(t.get("fn")) or "").startswith("core::slice::sort") and "by_key" in norm_fn(t["fn"])]
        out = []
        for bi, t in sorts:
            cl = [g for g in t.get("ga", []) if g.startswith("{closure@")]
            for r in f.closures_of(path):
                if cl and r["sp"].split(":")[1] == cl[0].split(":")[1]:
                    cb = cfg.body(r)
                    for blk in cb.blocks:
                        for st in blk["st"]:
                            if st["d"]["l"] == 0 and st["rv"]["k"] == "Agg":
                                out.append((t, [cb.operand_origin(o) for o in st["rv"]["o"]]))
        return b, out
    W = "automerge::storage::bundle::builder::BundleOpWriter::<'a>::finish"
    R = "automerge::storage::bundle::storage::extract_id_ctr_values"
    for side, path in (("writer", W), ("reader", R)):
        b, keys = key_closure(path)
        ctx.floor("sort_by_key calls in %s" % path.split("::")[-1], len(keys), 1)
        for t, origins in keys:
            comps = [[e for e in (o[1] if o else ()) if e.startswith(".")] for o in origins]
            ok = comps == [[".0"], [".1"]]
            ctx.ob("R5-order", "%s|sort key is (elem.0, elem.1)" % side, ok, t["sp"], "key components %s" % comps)
    # element tuples: first component is the actor on both sides
    ab = ctx.body("automerge::storage::bundle::builder::BundleOpWriter::<'a>::add")
    pushes = [(bi, t) for bi, t in ab.calls() if norm_fn(t.get("fn")) == "alloc::vec::Vec::push" and ".inverse_positions" in (ab.operand_origin(t["args"][0]) or (0, ()))[1]]
    ctx.floor("pushes onto inverse_positions", len(pushes), 1)
    for bi, t in pushes:
        pl = util.op_place(t["args"][1])
        d = ab.single_def(pl["l"]) if pl else None
        ok = False
        detail = "element is not a tuple aggregate"
        if d and d[1] != "t" and d[2]["rv"]["k"] == "Agg":
            ops = d[2]["rv"]["o"]
            names = [sorted({norm_fn(c).split("::")[-1] for c in ab.provenance(o, through_calls=True).callees()}) for o in ops]
            ok = len(names) >= 2 and "actor" in names[0] and "counter" in names[1]
            detail = "element components from %s" % names
        ctx.ob("R5-order", "writer|element is (id.actor(), id.counter(), doc_pos)", ok, t["sp"], detail)
    rb = ctx.body(R)
    maps = []
    for r in f.closures_of(R):
        cb = cfg.body(r)
        for blk in cb.blocks:
            for st in blk["st"]:
                if st["d"]["l"] == 0 and st["rv"]["k"] == "Agg" and len(st["rv"]["o"]) == 4:
                    maps.append([[e for e in (cb.operand_origin(o) or (0, ()))[1] if e.startswith(".")] for o in st["rv"]["o"]])
    ctx.floor("change-metadata tuple constructions in the reader", len(maps), 1)
    for m in maps:
        ctx.ob("R5-order", "reader|element is (change.actor, change.seq, start_op, max_op)", m[:2] == [[".actor"], [".seq"]], rb.rec["sp"], "element components %s" % m)


def check_body(ctx, f):
    """Compressed::compress deflates Change::body_bytes(); from_bytes of the compressed form inflates it and parses header + body, taking what follows
    the op columns as extra_bytes. The two agree only if the deflated slice runs to the end of the chunk."""
    CB = "automerge::storage::change::compressed::Compressed::<'a>::compress"
    BB = "automerge::storage::change::Change::<'_, O>::body_bytes"
    cb = ctx.body(CB)
    bb = ctx.body(BB)
    enc = [(bi, t) for bi, t in cb.calls() if (norm_fn(t.get("fn")) or "").endswith("DeflateEncoder::new")]
    ctx.floor("DeflateEncoder::new in Compressed::compress", len(enc), 1)
    for bi, t in enc:
        pv = cb.provenance(t["args"][0], through_calls=True)
        ok = any(norm_fn(c).endswith("Change::body_bytes") for c in pv.callees())
        ctx.ob("R5-body", "Compressed::compress|deflates body_bytes()", ok, t["sp"], "reader = change.body_bytes()" if ok else "the deflated input is not Change::body_bytes()")
    idx = [(bi, t) for bi, t in bb.calls() if (norm_fn(t.get("fn")) or "").endswith(("Index::index", "slice::<impl [T]>::get", "split_at"))]
    ctx.floor("slice operations in Change::body_bytes", len(idx), 1)
    for k, (bi, t) in util.ordinal_keys(idx, lambda it: "Change::body_bytes|slice"):
        ga = " ".join(t.get("ga", []))
        if "RangeFrom<" in ga or (norm_fn(t.get("fn")) or "").endswith("split_at"):
            ctx.ob("R5-body", k, True, t["sp"], "open-ended slice from the end of the header")
            continue
        # a closed range: its end must be the length of the buffer, not a column / field boundary
        d = bb.single_def(bb.operand_origin(t["args"][1])[0]) if bb.operand_origin(t["args"][1]) else None
        end = None
        if d and d[1] != "t" and d[2]["rv"]["k"] == "Agg" and "end" in d[2]["rv"].get("fields", []):
            end = d[2]["rv"]["o"][d[2]["rv"]["fields"].index("end")]
        pv = bb.provenance(end if end is not None else t["args"][1], through_calls=True)
        end_is_len = end is not None and any(norm_fn(c).split("::")[-1] == "len" and not norm_fn(c).startswith("automerge::") for c in pv.callees())
        fields = sorted({"".join(pr) for _, pr in [bb.origin(l, pr_) for l, pr_ in pv.places] if any(x in "".join(pr) for x in (".ops_data", ".extra_bytes", ".ops_meta"))})
        ok = end_is_len and not fields
        ctx.ob("R5-body", k, ok, t["sp"], "range ends at len()" if ok else
               "the compressed body stops at a column boundary (%s) instead of the end of the chunk: bytes after it (extra_bytes) are lost when the change is compressed, so from_bytes(compressed) has another hash" % (fields or "not len()"))


def check_change_identity(ctx, f):
    EQ = [p for p in f.fns if p == "<automerge::change::Change as core::cmp::PartialEq>::eq"]
    if len(EQ) != 1:
        raise facts.AnchorMissing("<Change as PartialEq>::eq")
    b = cfg.body(f.fns[EQ[0]])
    ctx.analysed_fns.add(EQ[0])
    flds = set()
    for blk in b.blocks:
        for st in blk["st"]:
            for pl in [st["rv"].get("p")] + [o.get("c") or o.get("m") for o in st["rv"].get("o", ())]:
                if pl:
                    flds |= {e for e in b.origin(pl["l"], tuple(pl["p"]))[1] if e.startswith(".")}
        t = blk["t"]
        for a in t.get("args", []) if t["k"] == "call" else []:
            pl = a.get("c") or a.get("m")
            if pl:
                flds |= {e for e in b.origin(pl["l"], tuple(pl["p"]))[1] if e.startswith(".")}
    ok = ".stored" in flds and ".compression" not in flds
    ctx.ob("R5-eq", "Change::eq|content only", ok, b.rec["sp"], "compares .stored; the compression cache is not read" if ok else
           "Change equality reads %s: a clone whose compressed bytes were computed, or the same change parsed from its compressed chunk, is unequal to the original although hash and raw bytes are identical" % sorted(flds))
    FH = [p for p in f.fns if norm_fn(p) == "automerge::storage::bundle::Bundle::for_hashes"]
    if len(FH) != 1:
        raise facts.AnchorMissing("Bundle::for_hashes")
    h = cfg.body(f.fns[FH[0]])
    ctx.analysed_fns.add(FH[0])
    metas = [(bi, t) for bi, t in h.calls() if (callee(t) or "").endswith("ChangeGraph::get_bundle_metadata")]
    ctx.floor("get_bundle_metadata calls in Bundle::for_hashes", len(metas), 1)
    for k, (bi, t) in util.ordinal_keys(metas, lambda it: "for_hashes|hashes are a set"):
        pv = h.provenance(t["args"][1], through_calls=True)
        names = {(norm_fn(c) or "").split("::")[-1] for c in pv.callees()}
        set_filter = any(any((norm_fn(tt.get("fn")) or "").endswith(("HashSet::insert", "BTreeSet::insert")) for _, tt in f.calls(f.fns[cl])) for cl in pv.closures if cl in f.fns)
        # a set collection: the operand's own type, or a collect / from_iter into a set on the way
        set_typed = any("BTreeSet<" in ty or "HashSet<" in ty for ty in t.get("argtys", [])[1:2]) or "BTreeSet<" in (t.get("fnargs") or "") or "HashSet<" in (t.get("fnargs") or "")
        ok = set_filter or set_typed or "dedup" in names
        ctx.ob("R5-set", k, ok, t["sp"], "de-duplicated before the bundle rows are built" if ok else
               "every listed hash becomes a change row of the bundle, repeated ones too, while each op goes to one row only: bundle([h, h]) cannot be unbundled (MissingOps)")
