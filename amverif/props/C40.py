"""C40 String migration turns visible strings into text and nothing else — guard, must-pass-through and provenance rules (thin).

Decides the code-shape half of the property:
 (V1) who-may-call + guard: `convert_scalar_strings_to_text` is called only from the load entry point, and only on the edge where
      `options.string_migration` is `ConvertToText`;
 (V2) must-pass-through: from that edge no `Ok(document)` return is reachable without the conversion call, and every Ok return of a
      document that went through reconstruct / apply_changes lies behind the test of the option (no load path skips the migration);
 (V3) selection: a conversion is recorded only on the edges `op_type() == Put` and `value == Str`, its text is that string, the ops
      examined come from `visible_slow(None)` (visible at the current heads), and never for an object whose type is Text
      (a text object's characters are Put(Str) ops too);
 (V4) rewrite: every recorded conversion is turned into `put_object(obj, prop, ObjType::Text)` followed by
      `splice_text(that object, 0, 0, the string)` with obj / prop / string taken from the record, and the transaction is
      committed on every Ok path (a dropped transaction rolls back).
Not decided: which string wins among conflicting visible strings (iteration order = op-id order), the index arithmetic of
seek_list_opid for list elements, that no change is added when nothing is converted (an empty commit adds none: runtime).
"""
from .. import cfg, util, facts
from ..util import norm_fn, callee

CONVERT = "automerge::automerge::Automerge::convert_scalar_strings_to_text"
LOAD = "automerge::automerge::Automerge::load_with_options_and_mark_validation"
OPTS = "automerge::automerge::LoadOptions"


def discr_switches(b, pred):
    """switch blocks whose operand is the discriminant of a place satisfying pred(origin place, type); yields (block, switch, src)"""
    for sb, sw in b.switches():
        src = b.bool_operand_source(sw["op"])
        if src and src["kind"] == "discr" and pred(src):
            yield sb, sw, src


def edges_for(sw, sb, src, variant):
    vs = src.get("vars") or {}
    hit = [(sb, tb) for v, tb in sw["targets"] if vs.get(v) == variant]
    if hit:
        return hit
    # the variant is handled by the otherwise edge only when it is not listed explicitly
    if variant in vs.values():
        return [(sb, sw["otherwise"])]
    return []


def run(ctx):
    ctx.level = "proof"
    ctx.decides = ("convert_scalar_strings_to_text is called only by the load entry point and only on the ConvertToText edge; no Ok(document) return of a non-empty load bypasses it on that edge; "
                   "conversions are recorded only for Put(Str) ops yielded by visible_slow(None), never inside Text objects; each is rewritten as put_object(.., ObjType::Text) + splice_text(new object, 0, 0, string) "
                   "and the transaction is committed on every Ok path.")
    ctx.not_decided = "the winner among conflicting visible strings, list index arithmetic, absence of an added change when nothing is converted (runtime)."
    ctx.rule("V1", "who-may-call convert_scalar_strings_to_text + edge dominance by string_migration == ConvertToText")
    ctx.rule("V2", "must-pass-through: on the ConvertToText edge every Ok return passes through the conversion; Ok returns not behind the option test carry a fresh empty document")
    ctx.rule("V3", "control dependence and provenance of the recorded conversions (Put, Str, visible_slow(None), not Text objects)")
    ctx.rule("V5", "convert_scalar_strings_to_text: a conversion is recorded only on the true edge of OpSet::object_exists for the object that holds the string (strings under a deleted object are not visible)")
    ctx.rule("V4", "provenance of put_object / splice_text operands; commit on every Ok path")
    f = ctx.facts()
    from .. import callgraph
    cg = callgraph.get(f)
    if CONVERT not in f.fns:
        raise facts.AnchorMissing(CONVERT)
    callers = {norm_fn(c).split("::{closure")[0] for c in cg.inn.get(CONVERT, ())}
    ctx.ob("V1", "convert_scalar_strings_to_text|callers", callers == {LOAD}, f.fns[CONVERT]["sp"],
           "only the load entry point" if callers == {LOAD} else "called from %s: strings are converted on a path that is not a load with ConvertToText" % sorted(callers))
    lb = ctx.body(LOAD)
    ctx.analysed_fns.update([LOAD, CONVERT])
    opt_params = [i for i in range(1, lb.argc + 1) if util.base_ty(lb.local_ty(i)) == OPTS]
    if len(opt_params) != 1:
        raise facts.AnchorMissing("LoadOptions parameter of the load entry point")
    op_ = opt_params[0]
    sws = list(discr_switches(lb, lambda s: s["origin"][0] == op_ and ".string_migration" in s["origin"][1]))
    ctx.floor("tests of options.string_migration in the load entry point", len(sws), 1)
    conv_edges = []
    for sb, sw, src in sws:
        conv_edges += edges_for(sw, sb, src, "ConvertToText")
    # `let migrate = matches!(options.string_migration, ConvertToText); if migrate {..}`
    direct_edges = list(conv_edges)
    conv_edges = cfg.cond_edges(lb, seed_edges=conv_edges)
    derived = [e for e in conv_edges if e not in direct_edges]
    calls = [(bi, t) for bi, t in lb.calls() if callee(t) == CONVERT]
    ctx.floor("calls of convert_scalar_strings_to_text in the load entry point", len(calls), 1)
    for k, (bi, t) in util.ordinal_keys(calls, lambda it: "load|convert call"):
        ok = bool(conv_edges) and lb.edges_dominate(conv_edges, bi)
        ctx.ob("V1", k, ok, t["sp"], "only on the ConvertToText edge" if ok else "the conversion runs on a path where string_migration is not ConvertToText (a load without migration would rewrite strings)")
    # V2
    oks = [bi for bi, blk in enumerate(lb.blocks) if not blk.get("cleanup") for s in blk["st"] if s["d"]["l"] == 0 and not s["d"]["p"] and util.is_ok_agg(s["rv"])]
    ctx.floor("Ok returns of the load entry point", len(oks), 2)
    call_blocks = {bi for bi, _ in calls}
    for (sb, tb) in conv_edges:
        if (sb, tb) in direct_edges and any(lb.can_reach(tb, dsb) for dsb, _ in derived):
            continue            # the variant test only fills a boolean that is tested again further down: that later edge is checked
        reach = lb.reachable(start=tb, removed_blocks=call_blocks)
        bad = [o for o in oks if o in reach]
        ctx.ob("V2", "load|ConvertToText edge reaches Ok only through the conversion", not bad, util.where(lb, sb),
               "all %d Ok return(s) behind the call" % len(oks) if not bad else "an Ok return is reachable on the ConvertToText edge without converting (block %s)" % bad)
    sbs = [sb for sb, _, _ in sws]
    for k, o in util.ordinal_keys(oks, lambda o: "load|Ok return"):
        behind = any(lb.block_dominates(sb, o) for sb in sbs)
        if behind:
            ctx.ob("V2", k, True, util.where(lb, o), "behind the option test")
            continue
        st = [s for s in lb.blocks[o]["st"] if s["d"]["l"] == 0 and util.is_ok_agg(s["rv"])][0]
        pv = lb.provenance(st["rv"]["o"][0], through_calls=True)
        cs = {norm_fn(c) for c in pv.callees()}
        fresh = bool(cs) and all(c in ("automerge::automerge::Automerge::new", "automerge::automerge::Automerge::new_with_encoding") for c in cs if c.startswith("automerge::"))
        ctx.ob("V2", k, fresh, util.where(lb, o), "returns a fresh empty document (nothing to convert)" if fresh else
               "a loaded document is returned without consulting string_migration (built from %s)" % sorted(c for c in cs if c.startswith("automerge::"))[:4])
    # ---------------- V3: selection
    cb = ctx.body(CONVERT)
    pushes = [(bi, t) for bi, t in cb.calls() if (norm_fn(t.get("fn")) or "").endswith("Vec::push")]
    ctx.floor("conversions recorded (Vec::push) in convert_scalar_strings_to_text", len(pushes), 1)
    optype = lambda s: (s.get("ty") or "").startswith("automerge::op_set2::types::OpType")
    scalar = lambda s: (s.get("ty") or "").startswith("automerge::op_set2::types::ScalarValue")
    objty = lambda s: (s.get("ty") or "") == "automerge::types::ObjType"
    put_edges, str_edges = [], []
    for sb, sw, src in discr_switches(cb, optype):
        put_edges += edges_for(sw, sb, src, "Put")
    for sb, sw, src in discr_switches(cb, scalar):
        str_edges += edges_for(sw, sb, src, "Str")
    for k, (bi, t) in util.ordinal_keys(pushes, lambda it: "convert|record"):
        ok_put = bool(put_edges) and cb.edges_dominate(put_edges, bi)
        ok_str = bool(str_edges) and cb.edges_dominate(str_edges, bi)
        ctx.ob("V3", k + "|only Put(Str)", ok_put and ok_str, t["sp"], "behind op_type()==Put and value==Str" if ok_put and ok_str else
               "a conversion can be recorded for an op that is not a Put of a string (Put edge %s, Str edge %s): keys without a visible string would be rewritten" % (ok_put, ok_str))
        pv = cb.provenance(t["args"][1], through_calls=True)
        cs = {norm_fn(c) for c in pv.callees()}
        vis = [(vb, vt) for vb, vt in cb.calls() if (callee(vt) or "").endswith("OpQuery::visible_slow")]
        from_vis = any(c.endswith("OpQuery::visible_slow") for c in cs)
        none_clock = bool(vis) and all(is_none(cb, vt["args"][1]) for _, vt in vis)
        ctx.ob("V3", k + "|visible ops at the current heads", from_vis and none_clock, t["sp"], "op from visible_slow(None)" if from_vis and none_clock else
               "the ops examined are not those visible at the current heads (from visible_slow: %s, clock None: %s): deleted or overwritten strings would be converted" % (from_vis, none_clock))
        has_str = any("@Str" in pr for _, pr in pv.places) or any("@Str" in pr for _, pr in [cb.origin(l, p) for l, p in pv.places])
        ctx.ob("V3", k + "|text is the string value", has_str, t["sp"], "text derives from the Str payload" if has_str else "the recorded text does not derive from the string value of the op")
        # not inside Text objects
        bad = []
        for sb, sw, src in discr_switches(cb, objty):
            for (_, tb) in edges_for(sw, sb, src, "Text"):
                if bi in cb.reachable(start=tb, removed_blocks={sb}):
                    bad.append(sb)
        n_obj = len(list(discr_switches(cb, objty)))
        ctx.ob("V3", k + "|never for Text objects", n_obj >= 1 and not bad, t["sp"], "the Text arm of the object-type test cannot reach the record" if n_obj >= 1 and not bad else
               "characters of a text object (Put(Str) ops) can be recorded for conversion (object type tests: %d)" % n_obj)
    # every visible string is recorded: the record depends on nothing but the op's kind, the value's kind, the object's type, the key
    # kind / list position lookup and the two loops' own iterators
    from .C28 import control_switches_transitive as control_switches
    ALLOWED_TY = ("automerge::op_set2::types::OpType", "automerge::op_set2::types::ScalarValue", "automerge::types::ObjType", "automerge::op_set2::types::KeyRef", "core::option::Option")
    for k, (bi, t) in util.ordinal_keys(pushes, lambda it: "convert|record"):
        bad = []
        for sb, sw in control_switches(cb, bi):
            src = cb.bool_operand_source(sw["op"])
            if src and src["kind"] == "discr" and util.base_ty(src.get("ty") or "") in ALLOWED_TY:
                if util.base_ty(src.get("ty") or "") != "core::option::Option":
                    continue
                d = cb.single_def(src["origin"][0])
                if d and d[1] == "t" and ((norm_fn(d[2].get("fn")) or "").endswith("Iterator::next") or (callee(d[2]) or "").endswith("OpSet::seek_list_opid")):
                    continue
            # ... and on whether the object that holds the string can still be reached (V5)
            if src and src["kind"] == "call" and (norm_fn(src["callee"]) or "").endswith("OpSet::object_exists"):
                continue
            bad.append(util.where(cb, sb))
        ctx.ob("V3", k + "|every visible string is recorded", not bad, t["sp"], "depends only on the op / value / object kind, the position lookup and the loops" if not bad else
               "recording a visible string is skipped under a further condition (%s): that string stays a scalar, or a conflicting value is dropped from the migration" % bad)
    # the migration sees the whole document: nothing is applied after it
    for k, (bi, t) in util.ordinal_keys(calls, lambda it: "load|convert call"):
        later = [tt["sp"] for ab_, tt in lb.calls() if (callee(tt) or "").endswith(("Automerge::apply_changes", "Automerge::apply_changes_log_patches", "Automerge::load_incremental", "BatchApply::apply")) and lb.can_reach(bi, ab_) and ab_ != bi]
        ctx.ob("V2", k + "|runs after every chunk was applied", not later, t["sp"], "no change is applied after the migration" if not later else
               "changes are applied (%s) after the migration ran: strings they contain stay scalars, and positions recorded for the conversion may be stale" % later[0])
    # where a converted list element is: the position of *that op* at the current heads
    seqs = [(bi, st) for bi, blk in enumerate(cb.blocks) if not blk.get("cleanup") for st in blk["st"] if st["rv"]["k"] == "Agg" and st["rv"].get("adt") == "automerge::types::Prop" and st["rv"].get("variant") == "Seq"]
    ctx.floor("Prop::Seq constructions in convert_scalar_strings_to_text", len(seqs), 1)
    for k, (bi, st) in util.ordinal_keys(seqs, lambda it: "convert|list position"):
        pv = cb.provenance(st["rv"]["o"][0], through_calls=True)
        ok = any((norm_fn(c) or "").endswith("OpSet::seek_list_opid") for c in pv.callees()) and any(".index" in "".join(pr) for _, pr in pv.places)
        ctx.ob("V3", k, ok, st["sp"], "seek_list_opid(obj, op.id, ..).index" if ok else
               "the list index of a converted string is not looked up for that op (seek_list_opid): a count kept while scanning is wrong as soon as an earlier element was overwritten in place, and the text object replaces another element")
    # ---------------- V4: rewrite
    puts = [(bi, t) for bi, t in cb.calls() if (callee(t) or "").endswith("::put_object")]
    spl = [(bi, t) for bi, t in cb.calls() if (callee(t) or "").endswith("::splice_text")]
    ctx.floor("put_object calls in convert_scalar_strings_to_text", len(puts), 1)
    ctx.floor("splice_text calls in convert_scalar_strings_to_text", len(spl), 1)
    push_locals = set()
    for _, t in pushes:
        o = cb.operand_origin(t["args"][0])
        if o:
            push_locals.add(o[0])
    for k, (bi, t) in util.ordinal_keys(puts, lambda it: "convert|put_object"):
        is_text = is_unit_variant(cb, t["args"][3], "automerge::types::ObjType", "Text")
        ctx.ob("V4", k + "|ObjType::Text", is_text, t["sp"], "creates a text object" if is_text else "the replacement object is not ObjType::Text")
        for idx, fld in ((1, ".obj_id"), (2, ".prop")):
            pv = cb.provenance(t["args"][idx], through_calls=True)
            ok = bool(pv.locals & push_locals) and any(fld in pr for _, pr in pv.places)
            ctx.ob("V4", k + "|%s from the record" % fld[1:], ok, t["sp"], "taken from the recorded conversion" if ok else "put_object's %s does not come from the recorded conversion" % fld[1:])
    for k, (bi, t) in util.ordinal_keys(spl, lambda it: "convert|splice_text"):
        pv = cb.provenance(t["args"][1], through_calls=True)
        from_put = any(norm_fn(c).endswith("::put_object") for c in pv.callees())
        zero = all(util.op_const(t["args"][i]) is not None and util.op_const(t["args"][i]).get("v") == "0" for i in (2, 3))
        pt = cb.provenance(t["args"][4], through_calls=True)
        txt = any(".text" in pr for _, pr in pt.places) and bool(pt.locals & push_locals)
        ok = from_put and zero and txt
        ctx.ob("V4", k, ok, t["sp"], "splice_text(new object, 0, 0, recorded string)" if ok else
               "the text is not written as splice_text(object returned by put_object, 0, 0, recorded string) (object %s, position/delete zero %s, string %s)" % (from_put, zero, txt))
    txs = [(bi, t) for bi, t in cb.calls() if callee(t) == "automerge::automerge::Automerge::transaction"]
    commits = {bi for bi, t in cb.calls() if (callee(t) or "").endswith("Transaction::commit") or (callee(t) or "").endswith("Transaction::commit_with")}
    coks = [bi for bi, blk in enumerate(cb.blocks) if not blk.get("cleanup") for s in blk["st"] if s["d"]["l"] == 0 and not s["d"]["p"] and util.is_ok_agg(s["rv"])]
    ctx.floor("transactions opened in convert_scalar_strings_to_text", len(txs), 1)
    for k, (bi, t) in util.ordinal_keys(txs, lambda it: "convert|transaction"):
        nxt = t.get("target")
        reach = cb.reachable(start=nxt, removed_blocks=commits) if nxt is not None else set()
        bad = [o for o in coks if o in reach]
        ctx.ob("V4", k + "|committed on every Ok path", bool(commits) and not bad, t["sp"], "commit precedes Ok" if commits and not bad else
               "Ok can be returned with the conversion transaction dropped (rolled back): the strings stay")
    check_object_exists(ctx, ctx.facts())


def is_none(b, op):
    pl = op.get("c") or op.get("m")
    if pl is None:
        return False
    d = b.single_def(pl["l"])
    return bool(d and d[1] != "t" and d[2]["rv"]["k"] == "Agg" and d[2]["rv"].get("adt") == "core::option::Option" and d[2]["rv"].get("variant") == "None")


def is_unit_variant(b, op, adt, variant):
    k = util.op_const(op)
    if k is not None:
        return adt in (k.get("ty") or "") and (k.get("variant") == variant or variant in str(k.get("v")))
    pl = op.get("c") or op.get("m")
    d = b.single_def(pl["l"]) if pl else None
    return bool(d and d[1] != "t" and d[2]["rv"]["k"] == "Agg" and d[2]["rv"].get("adt") == adt and d[2]["rv"].get("variant") == variant)


def check_object_exists(ctx, f):
    CV = [p for p in f.fns if norm_fn(p) == "automerge::automerge::Automerge::convert_scalar_strings_to_text"]
    if len(CV) != 1:
        raise facts.AnchorMissing("Automerge::convert_scalar_strings_to_text")
    b = cfg.body(f.fns[CV[0]])
    exists = cfg.cond_edges(b, atom_call=lambda t: (callee(t) or "").endswith("op_set::OpSet::object_exists"))
    recs = [(bi, t) for bi, t in b.calls() if (norm_fn(t.get("fn")) or "").endswith("Vec::push") and "Conversion" in " ".join(t.get("argtys", []))]
    ctx.floor("recorded conversions", len(recs), 1)
    for k, (bi, t) in util.ordinal_keys(recs, lambda it: "convert|record|object still exists"):
        ok = any(b.edges_dominate([e], bi) for e in exists)
        ctx.ob("V5", k, ok, t["sp"], "only for objects that can still be reached from the root" if ok else
               "strings are converted in every object ever created, also deleted ones: a document with no visible string gets a migration change (and new heads) on load")
