"""C36 The C API is memory-safe — rule R14 (FFI pointer discipline), thin.

Decides, over every `extern "C"` function of automerge-c (enumerated by ABI from the type-checked crate):
(i) a raw-pointer parameter is used only through the null-tolerant conversions `as_ref` / `as_mut`, `is_null`,
a direct dereference that is dominated by the `is_null() == false` edge of that same parameter (out-parameters),
`slice::from_raw_parts` (inventoried: documented precondition `src != NULL`), or the reviewed callees below; no
pointer arithmetic, `read`/`write`, or transmute of a parameter into a reference;
(ii) ownership: `Box::from_raw` is called only by AMresultFree (under a null test) and `Box::into_raw` only by the
two `From<..> for *mut ..` conversions, so every owning pointer handed to C has exactly one release path;
(iii) who-may-dereference: raw pointers stored inside wrapper structs are dereferenced only in the reviewed
accessor functions (a new deref site is reported);
(iv) view caches are fill-once: a `&self` method that stores into an interior cache (`RefCell<Option<..>>` field) whose
buffer is handed to C as an AMbyteSpan / pointer does so only on the None arm of a test of that same cache — replacing a
filled cache frees the buffer an earlier span points into while the owning AMresult is still alive.
Not decided: lifetime validity of the stored pointers (they borrow from the owning AMresult), leak-freedom of
arbitrary call sequences, and agreement of results with the Rust API.
"""
from .. import cfg, util, rules, facts, callgraph
from ..util import norm_fn, callee

CRATE = "automerge_core"
OK_CALLEES = {
    "core::ptr::const_ptr::as_ref", "core::ptr::mut_ptr::as_ref", "core::ptr::mut_ptr::as_mut", "core::ptr::const_ptr::is_null", "core::ptr::mut_ptr::is_null",
}
INVENTORIED = {"core::slice::raw::from_raw_parts", "core::slice::raw::from_raw_parts_mut"}
REVIEWED_CALLEES = {
    "alloc::boxed::Box::from_raw": "only in AMresultFree, under `!result.is_null()` (checked below)",
    "core::convert::Into::into": "pointer value converted, not dereferenced",
}
# functions allowed to dereference a raw pointer that is not an (extern) parameter: accessors of wrapper structs whose pointer field is
# set at construction from a reference owned by the enclosing AMresult / AMitem
INTERNAL_DEREF_OK = {
    "<automerge_core::actor_id::AMactorId as core::convert::AsRef<automerge::types::ActorId>>::as_ref",
    "<automerge_core::change::AMchange as core::convert::AsMut<automerge::change::Change>>::as_mut",
    "<automerge_core::change::AMchange as core::convert::AsRef<automerge::change::Change>>::as_ref",
    "<automerge_core::items::AMitems<'_> as core::convert::AsRef<[automerge_core::item::AMitem]>>::as_ref",
    "automerge_core::actor_id::AMactorId::to_str", "automerge_core::change::AMchange::hash", "automerge_core::change::AMchange::message",
    "automerge_core::cursor::AMcursor::to_str",
    "automerge_core::item::<impl core::convert::TryFrom<&'a automerge_core::item::Value> for &'a automerge::change::Change>::try_from",
    "automerge_core::item::<impl core::convert::TryFrom<&'a automerge_core::item::Value> for &'a automerge_core::actor_id::AMactorId>::try_from",
    "automerge_core::item::<impl core::convert::TryFrom<&'a mut automerge_core::item::Value> for &'a mut automerge_core::change::AMchange>::try_from",
    "automerge_core::items::AMitems::advance", "automerge_core::items::AMitems::len", "automerge_core::items::AMitems::next", "automerge_core::items::AMitems::prev",
    "automerge_core::items::AMitems::reversed", "automerge_core::items::AMitems::rewound",
    "automerge_core::result::AMresultFree",
}


def raw_param_derefs(b, raw):
    out = []
    for bi in sorted(b.live_blocks()):
        blk = b.blocks[bi]
        if blk.get("cleanup"):
            continue
        for s in blk["st"]:
            if "mac" in s and any(m in ("debug_assert", "assert") for m in s["mac"]):
                continue
            places = [s["d"]] + ([s["rv"]["p"]] if "p" in s["rv"] else []) + [util.op_place(o) for o in s["rv"].get("o", ()) if util.op_place(o)]
            for pl in places:
                if pl["p"] and pl["p"][0] == "*" and b.local_ty(pl["l"]).startswith("*"):
                    o = b.origin(pl["l"], ())
                    if ".pointer" in o[1] or "vec" in s.get("mac", []):
                        continue          # Box / NonNull internals emitted by the compiler for Box<T> derefs and vec![..]
                    out.append((bi, pl, o, s["sp"]))
    return out


def null_false_edges(b, param):
    def pred(src):
        if src["kind"] == "call" and norm_fn(src["callee"]) in ("core::ptr::const_ptr::is_null", "core::ptr::mut_ptr::is_null"):
            o = b.operand_origin(src["t"]["args"][0])
            if o and o[0] == param:
                return False
        return None
    return rules.guard_edges(b, pred)


def run(ctx):
    ctx.level = "proof"
    ctx.decides = ("every extern \"C\" function: raw pointer parameters flow only into as_ref/as_mut/is_null, reviewed callees, inventoried from_raw_parts, or a dereference dominated by is_null()==false of the same parameter; "
                   "Box::from_raw only in AMresultFree under a null test; Box::into_raw only in the two From conversions; internal raw dereferences only in the reviewed accessor set.")
    ctx.not_decided = "validity/lifetime of pointers stored in wrapper structs; leak-freedom; equality of results with the Rust API; behaviour for NULL byte-array arguments where the header documents src != NULL."
    ctx.rule("R14-param", "classification of every use of a raw-pointer parameter in extern \"C\" functions")
    ctx.rule("R14-deref", "direct dereference of a parameter is edge-dominated by is_null(param) == false")
    ctx.rule("R14-own", "who-may-call Box::from_raw / Box::into_raw")
    ctx.rule("R14-internal", "who-may-dereference stored raw pointers")
    ctx.rule("R16-mustcall", "must-pass-through: in an extern \"C\" wrapper that calls &mut AutoCommit methods, no to_result(..) is reachable from entry once the blocks of those calls are removed (the wrapped call is unconditional on every success path)")
    ctx.rule("R14-cache", "Option::insert / replace / take on an interior cache field of &self is edge-dominated by the None arm of a discriminant test of the same field")
    f = ctx.facts()
    ext = sorted(p for p, r in f.fns.items() if r["ckey"][0] == CRATE and (r.get("abi") or "").startswith("C"))
    ctx.floor("extern \"C\" functions in automerge-c", len(ext), 160)
    n_uses = n_deref = 0
    table = ctx.table("r14_deref.tsv")
    inventoried = []
    for p in ext:
        r = f.fns[p]
        b = cfg.body(r)
        raw = [i for i in range(1, b.argc + 1) if b.local_ty(i).startswith("*")]
        if not raw:
            continue
        ctx.analysed_fns.add(p)
        bad = []
        for bi, t in b.calls():
            for a, ty in zip(t["args"], t["argtys"]):
                if not ty.startswith("*"):
                    continue
                o = b.operand_origin(a)
                if not o or o[0] not in raw:
                    continue
                n_uses += 1
                c = norm_fn(t.get("fn")) or "?"
                tgt = t.get("res") or t.get("fn")
                if c in OK_CALLEES or c in REVIEWED_CALLEES:
                    continue
                if c in INVENTORIED:
                    guarded = b.edges_dominate(null_false_edges(b, o[0]), bi) if null_false_edges(b, o[0]) else False
                    inventoried.append("%s: %s %s" % (norm_fn(p).split("::")[-1], c.split("::")[-1], "null-guarded" if guarded else "relies on documented precondition src != NULL"))
                    continue
                if tgt in f.fns and f.fns[tgt]["ckey"][0] == CRATE:
                    continue       # handed on to another function of the crate (checked there if extern, else takes a typed pointer)
                bad.append("%s at %s" % (c, t["sp"]))
        ctx.ob("R14-param", norm_fn(p), not bad, r["sp"], "raw parameters used through reviewed operations only" if not bad else "raw pointer parameter handed to %s" % bad)
        for k, (bi, pl, o, sp) in util.ordinal_keys([d for d in raw_param_derefs(b, raw) if d[2][0] in raw and not d[2][1]], lambda d: "%s|deref of parameter #%d" % (norm_fn(p), d[2][0])):
            n_deref += 1
            edges = null_false_edges(b, o[0])
            ok = bool(edges) and b.edges_dominate(edges, bi)
            via = None
            if not ok and ("R14-deref|" + k) in table:
                ok, via = True, "table:" + table["R14-deref|" + k]
            ctx.ob("R14-deref", k, ok, sp, "null-checked" if ok and not via else (via or "") if ok else "parameter dereferenced without a dominating `!is_null()` test (every other out-parameter write in the crate is guarded)", via=via)
    ctx.floor("uses of raw pointer parameters", n_uses, 200)
    ctx.floor("direct dereferences of raw parameters", n_deref, 20)
    ctx.note("from_raw_parts over a parameter: %s" % inventoried)
    # ---- ownership
    cg = callgraph.get(f)
    def callers_of(suffixes):
        out = set()
        for c, cs in cg.inn.items():
            if any(norm_fn(c) == s for s in suffixes):
                out |= {norm_fn(x) for x in cs if x in f.fns and f.fns[x]["ckey"][0] == CRATE}
        return out
    fr = callers_of(["alloc::boxed::Box::from_raw"])
    ctx.ob("R14-own", "Box::from_raw callers", fr == {"automerge_core::result::AMresultFree"}, "", "callers %s" % sorted(fr))
    ir = callers_of(["alloc::boxed::Box::into_raw"])
    want = {"<*mut automerge_core::result::AMresult as core::convert::From<automerge_core::result::AMresult>>::from",
            "<*mut automerge_core::sync::state::AMsyncState as core::convert::From<automerge_core::sync::state::AMsyncState>>::from"}
    ctx.ob("R14-own", "Box::into_raw callers", ir == want, "", "callers %s" % sorted(ir))
    fb = ctx.body("automerge_core::result::AMresultFree")
    fr_sites = [bi for bi, t in fb.calls() if norm_fn(t.get("fn")) == "alloc::boxed::Box::from_raw"]
    ok = bool(fr_sites) and all(fb.edges_dominate(null_false_edges(fb, 1), bi) for bi in fr_sites) and bool(null_false_edges(fb, 1))
    ctx.ob("R14-own", "AMresultFree|Box::from_raw under a null test", ok, fb.rec["sp"], "")
    # no Rc/Arc raw conversions or mem::forget / ManuallyDrop leaks of owned results
    leaks = callers_of(["core::mem::forget", "alloc::boxed::Box::leak", "alloc::rc::Rc::into_raw", "alloc::rc::Rc::from_raw"])
    ctx.ob("R14-own", "no other raw ownership transfer (forget / leak / Rc raw)", not leaks, "", "%s" % sorted(leaks))
    # ---- internal derefs
    found = set()
    for p, r in f.fns.items():
        if r["ckey"][0] != CRATE:
            continue
        b = cfg.body(r)
        isext = (r.get("abi") or "").startswith("C")
        raw = [i for i in range(1, b.argc + 1) if b.local_ty(i).startswith("*")] if isext else []
        for (bi, pl, o, sp) in raw_param_derefs(b, raw):
            if o[0] in raw and not o[1]:
                continue
            found.add(norm_fn(p))
    ctx.floor("functions dereferencing stored raw pointers", len(found), 10)
    for p in sorted(found):
        ok = p in {norm_fn(x) for x in INTERNAL_DEREF_OK}
        ctx.ob("R14-internal", p, ok, "", "reviewed accessor" if ok else "new function dereferencing a stored raw pointer (not in the reviewed set)", via="table:accessor of a wrapper whose pointer is set at construction from data owned by the enclosing AMresult" if ok else None)
    # ---- view caches are fill-once
    n_cache = 0
    for p, r in sorted(f.fns.items()):
        if r["ckey"][0] != CRATE:
            continue
        sites = [(bi, t) for bi, t in f.calls(r) if norm_fn(t.get("fn")) in ("core::option::Option::insert", "core::option::Option::replace", "core::option::Option::take", "core::option::Option::get_or_insert_with")]
        if not sites:
            continue
        b = cfg.body(r)
        if not b.local_ty(1).startswith("&") or b.local_ty(1).startswith("&mut"):
            continue

        def self_fields(op_or_local):
            pv = b.provenance(op_or_local, through_calls=True)
            out = set()
            for l, pr in pv.places:
                o = b.origin(l, pr)
                if o[0] == 1:
                    out |= {e for e in o[1] if e.startswith(".")}
            return out
        for k, (bi, t) in util.ordinal_keys(sites, lambda it: "%s|%s" % (norm_fn(p), norm_fn(it[1]["fn"]).split("::")[-1])):
            flds = self_fields(t["args"][0])
            if not flds:
                continue
            n_cache += 1
            if norm_fn(t["fn"]).endswith("get_or_insert_with"):
                ctx.ob("R14-cache", k, True, t["sp"], "get_or_insert_with fills only an empty cache")
                continue
            edges = []
            for sb, sw in b.switches():
                src = b.bool_operand_source(sw["op"])
                if src and src["kind"] == "discr" and util.base_ty(src.get("ty") or "") == "core::option::Option" and self_fields(src["origin"][0]) & flds:
                    none = [tb for v, tb in sw["targets"] if (src["vars"] or {}).get(v) == "None"]
                    edges.append((sb, none[0] if none else sw["otherwise"]))
            ok = bool(edges) and b.edges_dominate(edges, bi)
            ctx.ob("R14-cache", k, ok, t["sp"], "cache %s filled only while empty" % sorted(flds) if ok else
                   "the cache %s is replaced on every call: the buffer behind a span returned earlier is freed while its AMresult is alive" % sorted(flds))
    ctx.floor("stores into interior view caches", n_cache, 5)
    # ---------------- R16-mustcall: a wrapper performs the Rust call on every path that produces a result
    n_wr = 0
    for p, r in sorted(f.fns.items()):
        if r["ckey"][0] != "automerge_core" or "{closure" in p or not (r.get("abi") or "").startswith("C"):
            continue
        b = cfg.body(r)
        muts = {}
        for bi, t in b.calls():
            c = norm_fn(t.get("res") or t.get("fn")) or ""
            if "automerge::autocommit::AutoCommit" in c and t.get("argtys") and t["argtys"][0].startswith("&mut"):
                muts.setdefault(bi, c)
        if not muts:
            continue
        rets = [(bi, t) for bi, t in b.calls() if (norm_fn(t.get("fn")) or "").endswith("result::to_result")]
        if not rets:
            continue
        n_wr += 1
        ctx.analysed_fns.add(p)
        reach = b.reachable(start=0, removed_blocks=set(muts))
        bad = [t["sp"] for bi, t in rets if bi in reach]
        ctx.ob("R16-mustcall", "%s|%s on every result path" % (norm_fn(p).split("::")[-1], "/".join(sorted({c.split("::")[-1] for c in muts.values()}))), not bad, r["sp"],
               "every to_result is behind the wrapped call" if not bad else
               "a result is produced at %s without calling the wrapped AutoCommit method: on that path the C API skips what the Rust API does (e.g. the implicit commit of the open transaction)" % bad[0])
    ctx.floor("extern \"C\" wrappers of &mut AutoCommit methods", n_wr, 40)
