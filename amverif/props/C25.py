"""C25 Rich-text marks: the expand setting is wired to the boundary rule — table and provenance rules (thin).

Decides the code-shape part of "text inserted at a mark boundary is covered exactly when the mark's expand setting says so":
 (K1) the ExpandMark tables agree: `before()` is true exactly for {Before, Both}, `after()` exactly for {After, Both}, and
      `ExpandMark::from(v.before(), v.after()) == v` for every variant (evaluated over the four boolean inputs from the MIR);
 (K2) `TransactionInner::mark` builds the begin anchor with `expand.before()` and every end anchor with `expand.after()`
      (provenance of the bool inside OpType::MarkBegin / OpType::MarkEnd and of the bool handed to the end-anchor helper);
 (K3) the insertion-spot scan (`InsertQuery::identify_valid_insertion_spot`) steps over a mark anchor — so that the inserted
      text lands on its far side — exactly on the edges `MarkBegin(expand == true)` and `MarkEnd(expand == false)`.
Not decided: the mark state machines themselves (which mark wins at a position, agreement of marks() / get_marks() / spans(),
the fast index against the slow walk), convergence and historical reads: value-level.
"""
from .. import cfg, util, facts, tables
from ..util import norm_fn, callee

EM = "automerge::marks::ExpandMark"
MARK = "automerge::transaction::inner::TransactionInner::mark"
SPOT = "automerge::op_set2::op_set::insert::InsertQuery::<'a>::identify_valid_insertion_spot"


def eval_bool_fn(b, values):
    """run a function of bool parameters whose body is switches on the parameters (possibly through a tuple) ending in a unit-variant
    aggregate stored to the return place: returns the variant name or None when the shape is different"""
    bi, steps = 0, 0
    while steps < 64:
        steps += 1
        blk = b.blocks[bi]
        for st in blk["st"]:
            if st["d"]["l"] == 0 and not st["d"]["p"] and st["rv"]["k"] == "Agg" and st["rv"].get("ak") == "adt":
                return st["rv"]["variant"]
        t = blk["t"]
        if t["k"] == "goto":
            bi = t["target"]
            continue
        if t["k"] == "switch":
            src = b.bool_operand_source(t["op"])
            if not src or src["kind"] != "place" or not (1 <= src["origin"][0] <= b.argc) or src["origin"][1]:
                return None
            v = values[src["origin"][0] - 1]
            if src["negated"]:
                v = not v
            hit = [tb for val, tb in t["targets"] if val == ("1" if v else "0")]
            bi = hit[0] if hit else t["otherwise"]
            continue
        return None
    return None


def bool_edges(b, sb, sw, want):
    """edges of a switch on a bool place taken when the bool equals `want`"""
    hit = [tb for v, tb in sw["targets"] if v == ("1" if want else "0")]
    return [(sb, hit[0])] if hit else [(sb, sw["otherwise"])]


def const_bool_defs(b, l):
    """blocks assigning a constant bool to local l: {True: [blocks], False: [blocks]} or None if l has any other definition"""
    out = {True: [], False: []}
    for (bi, si, rec) in b.defs().get(l, []):
        if si == "t":
            return None
        k = util.op_const(rec["rv"]["o"][0]) if rec["rv"]["k"] == "Use" else None
        if k is None or k.get("ty") != "bool":
            return None
        out[k.get("v") == "1"].append(bi)
    return out


def run(ctx):
    ctx.level = "proof"
    ctx.decides = ("ExpandMark::{before, after, from} agree with each other on all four variants; TransactionInner::mark wires expand.before() into the begin anchor and expand.after() into every end anchor; "
                   "the insertion-spot scan steps over a mark anchor exactly for MarkBegin(true) and MarkEnd(false).")
    ctx.not_decided = "which mark value wins at a position; agreement of marks(), get_marks() and spans(); the fast mark index against the slow walk; convergence, save/load and historical reads of marks (value-level)."
    ctx.rule("K1", "table agreement: before() = {Before, Both}, after() = {After, Both}, from(v.before(), v.after()) == v for every variant")
    ctx.rule("K2", "provenance: the bool of OpType::MarkBegin derives from ExpandMark::before, the bool of every OpType::MarkEnd / end-anchor helper argument from ExpandMark::after")
    ctx.rule("K3", "edge dominance: the scan records a spot past a mark anchor only on the edges MarkBegin(.0 == true) and MarkEnd(.0 == false)")
    f = ctx.facts()
    a = f.adts.get(EM)
    if a is None:
        raise facts.AnchorMissing(EM)
    variants = [v["name"] for v in a["variants"]]
    ctx.floor("ExpandMark variants", len(variants), 4)
    tb = tables.table_of(ctx.body(EM + "::before"))
    ta = tables.table_of(ctx.body(EM + "::after"))
    if tb is None or ta is None:
        raise facts.AnchorMissing("ExpandMark::before / after match tables")
    fb = ctx.body(EM + "::from")
    ctx.analysed_fns.update([EM + "::before", EM + "::after", EM + "::from"])

    def look(t, v):
        x = t.get(v, t.get("_"))
        return None if x is None or x[0] != "const" else x[1] == "1"
    want_before = {"Before": True, "Both": True, "After": False, "None": False}
    want_after = {"Before": False, "Both": True, "After": True, "None": False}
    for v in variants:
        bv, av = look(tb, v), look(ta, v)
        if v in want_before:
            ctx.ob("K1", "ExpandMark::%s|before()" % v, bv == want_before[v], fb.rec["sp"], "before() = %s" % bv)
            ctx.ob("K1", "ExpandMark::%s|after()" % v, av == want_after[v], fb.rec["sp"], "after() = %s" % av)
        if bv is None or av is None:
            ctx.ob("K1", "ExpandMark::%s|round trip" % v, False, fb.rec["sp"], "before()/after() are not constant per variant")
            continue
        back = eval_bool_fn(fb, [bv, av])
        ctx.ob("K1", "ExpandMark::%s|from(before(), after()) gives it back" % v, back == v, fb.rec["sp"], "from(%s, %s) = %s" % (bv, av, back))
    # ---------------- K2
    mb = ctx.body(MARK)
    ctx.analysed_fns.add(MARK)
    n_b = n_e = 0
    for bi, blk in enumerate(mb.blocks):
        if blk.get("cleanup"):
            continue
        for st in blk["st"]:
            rv = st["rv"]
            if rv["k"] == "Agg" and (rv.get("adt") or "").endswith("types::OpType") and rv.get("variant") in ("MarkBegin", "MarkEnd"):
                pv = mb.provenance(rv["o"][0], through_calls=True)
                cs = {norm_fn(c) for c in pv.callees()}
                if rv["variant"] == "MarkBegin":
                    n_b += 1
                    ok = EM + "::before" in cs and EM + "::after" not in cs
                    ctx.ob("K2", "mark|MarkBegin expand flag|%d" % n_b, ok, st["sp"], "expand.before()" if ok else "the begin anchor's expand flag does not come from expand.before() (callees %s)" % sorted(c.split("::")[-1] for c in cs if c.startswith(EM)))
                else:
                    n_e += 1
                    ok = EM + "::after" in cs and EM + "::before" not in cs
                    ctx.ob("K2", "mark|MarkEnd expand flag|%d" % n_e, ok, st["sp"], "expand.after()" if ok else "the end anchor's expand flag does not come from expand.after() (callees %s)" % sorted(c.split("::")[-1] for c in cs if c.startswith(EM)))
        t = blk["t"]
        if t["k"] == "call" and (callee(t) or "").endswith("TransactionInner::insert_mark_end_after"):
            for a_, ty in zip(t["args"], t.get("argtys", [])):
                if ty == "bool":
                    n_e += 1
                    pv = mb.provenance(a_, through_calls=True)
                    cs = {norm_fn(c) for c in pv.callees()}
                    ok = EM + "::after" in cs and EM + "::before" not in cs
                    ctx.ob("K2", "mark|end-anchor helper expand flag|%d" % n_e, ok, t["sp"], "expand.after()" if ok else "the end anchor's expand flag does not come from expand.after()")
    ctx.floor("MarkBegin constructions in TransactionInner::mark", n_b, 1)
    ctx.floor("end anchors built in TransactionInner::mark", n_e, 3)
    # ---------------- K3
    sb_ = ctx.body(SPOT)
    ctx.analysed_fns.add(SPOT)
    marks = [(bi, t) for bi, t in sb_.calls() if (callee(t) or "").endswith("insert::Loc::mark")]
    ctx.floor("Loc::mark constructions in identify_valid_insertion_spot", len(marks), 1)
    good, bad = [], []
    for swb, sw in sb_.switches():
        pl = sw["op"].get("c") or sw["op"].get("m")
        if not pl or sw.get("ty") != "bool":
            continue
        p = pl["p"]
        if "@MarkBegin" in p and p[-1] == ".0":
            good += bool_edges(sb_, swb, sw, True)
            bad += bool_edges(sb_, swb, sw, False)
        elif "@MarkEnd" in p and p[-1] == ".0":
            good += bool_edges(sb_, swb, sw, False)
            bad += bool_edges(sb_, swb, sw, True)
    ctx.floor("tests of a mark anchor's expand flag in identify_valid_insertion_spot", len(good), 2)
    for k, (bi, t) in util.ordinal_keys(marks, lambda it: "identify_valid_insertion_spot|Loc::mark"):
        # `matches!(..)` lowers to a bool temporary set on each arm and tested afterwards: look through it
        targets = [bi]
        for swb, sw in sb_.switches():
            pl = sw["op"].get("c") or sw["op"].get("m")
            if pl and not pl["p"] and sb_.local_ty(pl["l"]) == "bool" and sb_.block_dominates(swb, bi):
                defs = const_bool_defs(sb_, pl["l"])
                if defs and defs[True] and defs[False]:
                    true_edge = bool_edges(sb_, swb, sw, True)
                    if sb_.edges_dominate(true_edge, bi):
                        targets = defs[True]
        ok = bool(good) and all(sb_.edges_dominate(good, tb_) for tb_ in targets)
        leak = [e for e in bad for tb_ in targets if tb_ in sb_.reachable(start=e[1], removed_blocks={e[0]}) and not sb_.edges_dominate(good, tb_)]
        ctx.ob("K3", k, ok and not leak, t["sp"], "only behind MarkBegin(true) / MarkEnd(false)" if ok and not leak else
               "the scan steps over a mark anchor on an edge other than MarkBegin(expand) / MarkEnd(!expand): text inserted at the boundary lands on the wrong side of the mark")
