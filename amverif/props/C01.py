"""C01 Convergence — the replica-independent order every tie-break rests on (thin; re-uses C05, C38, C30).

That two documents holding the same changes show the same state is equality of runtime states (not decided). The conflict winner,
sibling order and list order are all decided by comparing op ids, so the comparison must mean the same on every replica although
an OpId stores a replica-local actor *index*. That rests on two facts visible in the code:
 (N1) `OpId::cmp` compares the counters first and breaks ties by the actor index (first `Ord::cmp` on field .0 of both sides, second
      on field .1, combined with `then` / `then_with` in that order); `PartialOrd` delegates to it;
 (N2) the actor table is kept sorted by actor id, so index order is actor-id order on every replica: the only insertion into
      `OpSet.actors` is `Vec::insert` at the index handed to `OpSet::insert_actor`, whose only caller chain starts in
      `put_actor` / `put_actor_ref` with the `Err(index)` of a `binary_search` for the same actor; no push / sort / swap on the table;
      an insertion that is not at the end re-numbers the stored ops (`rewrite_with_new_actor`) before the table changes;
 (N3) every delivery path applies a change once and only when its dependencies are there: C38's and C05's rules (re-run); public
      ids are ordered without the index (decided under C30, R9-hintfree).
Not decided: equality of the resulting states (merge arithmetic, RGA placement, counters, marks) — runtime values.
"""
from .. import cfg, util, facts
from ..util import norm_fn, callee
from . import C05, C38

OPID_CMP = "<automerge::types::OpId as core::cmp::Ord>::cmp"
OPID_PCMP = "<automerge::types::OpId as core::cmp::PartialOrd>::partial_cmp"
OS = "automerge::op_set2::op_set::OpSet"
AM = "automerge::automerge::Automerge"


def run(ctx):
    f = check_order(ctx)
    # ---------------- N3: re-runs
    C38.run(ctx)
    C05.run(ctx)
    ctx.level = "proof"
    ctx.decides = ("OpId::cmp orders by counter, then actor index; the actor table is only ever extended by an insert at binary_search's Err(index) after re-numbering the stored ops, so index order is actor-id order on every replica; "
                   "every delivery path applies a change once and only when its dependencies are present (C38 / C05 rules re-run).")
    ctx.not_decided = "equality of the states two replicas reach from the same changes (merge arithmetic, RGA placement, counters, marks, conflict sets): runtime values."


def check_order(ctx):
    ctx.rule("N1", "OpId::cmp: first comparison on field .0 (counter) of both operands, second on field .1 (actor index), combined by Ordering::then / then_with with the counter comparison as receiver")
    ctx.rule("N2", "who-may-write OpSet.actors + provenance: Vec::insert at the Err(index) of binary_search(actor); stored ops re-numbered first when the insertion is not at the end")
    f = ctx.facts()
    b = ctx.body(OPID_CMP)
    ctx.analysed_fns.add(OPID_CMP)
    cmps = [(bi, t) for bi, t in b.calls() if (norm_fn(t.get("fn")) or "").endswith("Ord::cmp")]
    thens = [(bi, t) for bi, t in b.calls() if (norm_fn(t.get("fn")) or "").split("::")[-1] in ("then", "then_with")]
    ctx.floor("field comparisons in OpId::cmp", len(cmps), 2)
    # the other idiom: `match a.0.cmp(&b.0) { Equal => a.1.cmp(&b.1), o => o }`
    match_form = False
    if not thens:
        for sb, sw in b.switches():
            src = b.bool_operand_source(sw["op"])
            if src and src["kind"] == "discr" and (src.get("ty") or "").endswith("cmp::Ordering"):
                dd = b.single_def(src["origin"][0])
                first = [cb for cb, t in cmps if dd and dd[1] == "t" and dd[0] == cb]
                vs = src.get("vars") or {}
                eq_edges = [(sb, tb) for v, tb in sw["targets"] if vs.get(v) == "Equal"]
                others = [(sb, tb) for v, tb in sw["targets"] if vs.get(v) != "Equal"] + ([(sb, sw["otherwise"])] if len(sw["targets"]) < 3 else [])
                second = [cb for cb, t in cmps if cb not in first]
                def flds(cb):
                    t = [t for x, t in cmps if x == cb][0]
                    return [[e for e in (b.operand_origin(a) or (0, ()))[1] if e.startswith(".")] for a in t["args"]]
                ok_first = bool(first) and all(x == [".0"] for x in flds(first[0]))
                ok_second = bool(second) and all(x == [".1"] for x in flds(second[0])) and bool(eq_edges) and all(b.edges_dominate(eq_edges, cb) for cb in second)
                # on the unequal arms the result is the first comparison's
                match_form = ok_first and ok_second
                ctx.ob("N1", "OpId::cmp|match on the counter comparison", match_form, b.rec["sp"], "counter first; actor index compared only on Equal" if match_form else
                       "op ids are not ordered by (counter, actor) (counter comparison matched first: %s, actor compared on the Equal arm only: %s)" % (ok_first, ok_second))
    if not match_form:
        ctx.floor("Ordering::then in OpId::cmp", len(thens), 1)

    def fields_of(t):
        out = []
        for a in t["args"]:
            o = b.operand_origin(a)
            out.append((o[0], [e for e in o[1] if e.startswith(".")]) if o else None)
        return out
    by_block = {bi: fields_of(t) for bi, t in cmps}
    for k, (bi, t) in util.ordinal_keys(thens, lambda it: "OpId::cmp|then"):
        recv = b.provenance(t["args"][0], through_calls=False)
        arg_pv = b.provenance(t["args"][1], through_calls=False)
        recv_calls = [cb for _, cb in recv.calls if cb in by_block]
        arg_calls = [cb for _, cb in arg_pv.calls if cb in by_block]
        for cl in arg_pv.closures:          # then_with(|| a.1.cmp(&b.1))
            r = f.fns.get(cl)
            if r is not None:
                cbd = cfg.body(r)
                for cbi, ct in cbd.calls():
                    if (norm_fn(ct.get("fn")) or "").endswith("Ord::cmp"):
                        flds = {e for a in ct["args"] for _, pr in cbd.provenance(a, through_calls=False).places for e in pr if e in (".0", ".1")}
                        arg_calls.append(("closure", flds))
        ok_r = bool(recv_calls) and all(all(x and x[1] == [".0"] for x in by_block[cb]) and {x[0] for x in by_block[cb]} == {1, 2} for cb in recv_calls)
        ok_a = bool(arg_calls) and all((isinstance(cb, tuple) and cb[1] == {".1"}) or (not isinstance(cb, tuple) and all(x and x[1] == [".1"] for x in by_block[cb]) and {x[0] for x in by_block[cb]} == {1, 2}) for cb in arg_calls)
        ctx.ob("N1", k, ok_r and ok_a, t["sp"], "counter first, actor index as tie-break" if ok_r and ok_a else
               "op ids are not ordered by (counter, actor): conflict winners and sibling order no longer follow the Lamport order every replica agrees on (counter comparison first: %s, actor second: %s)" % (ok_r, ok_a))
    pb = ctx.body(OPID_PCMP)
    ok = any(callee(t) == OPID_CMP or (norm_fn(t.get("fn")) or "").endswith("Ord::cmp") for _, t in pb.calls())
    ctx.ob("N1", "OpId::partial_cmp|delegates to cmp", ok, pb.rec["sp"], "Some(self.cmp(other))" if ok else "partial_cmp has its own ordering")
    # ---------------- N2
    from .. import callgraph
    cg = callgraph.get(f)
    writers = {}
    for p, r in sorted(f.fns.items()):
        if r["ckey"] != ("automerge", "lib"):
            continue
        bd = cfg.body(r)
        for bi, t in bd.calls():
            if not t.get("args") or not (t.get("argtys") or [""])[0].startswith("&mut") or "Vec<automerge::types::ActorId>" not in t["argtys"][0]:
                continue
            o = bd.operand_origin(t["args"][0])
            if o and ".actors" in o[1] and util.base_ty(bd.local_ty(o[0])) == OS:
                writers.setdefault(norm_fn(p), []).append(((norm_fn(t.get("fn")) or "").split("::")[-1], bi, t))
    ctx.floor("functions mutating OpSet.actors", len(writers), 2)
    for w, sites in sorted(writers.items()):
        for k, (m, bi, t) in util.ordinal_keys(sites, lambda it: "%s|actors.%s" % (w.split("::")[-1], it[0])):
            if m == "insert" and w == OS + "::insert_actor":
                bd = ctx.body(w)
                idx_p = [i for i in range(1, bd.argc + 1) if bd.local_ty(i) == "usize"]
                ok = bool(idx_p) and bd.provenance(t["args"][1]).depends_on_param(idx_p[0])
                # the stored ops are re-numbered before the table changes (unless the new actor goes last)
                rw = [rb for rb, rt in bd.calls() if callee(rt) == OS + "::rewrite_with_new_actor"]
                ok2 = bool(rw) and all(bd.can_reach(rb, bi) and not bd.can_reach(bi, rb) for rb in rw)
                ctx.ob("N2", k, ok and ok2, t["sp"], "insert at the index given; ops re-numbered first" if ok and ok2 else "the actor table is not extended by an insert at the caller's index after re-numbering the ops (at index: %s, re-numbered first: %s)" % (ok, ok2))
            elif m == "remove" and w == OS + "::remove_actor":
                ctx.ob("N2", k, True, t["sp"], "removal keeps the order", nontrivial=False)
            else:
                ctx.ob("N2", k, False, t["sp"], "%s changes the actor table by `%s`: the table is sorted only if every insertion goes through binary_search" % (w.split("::")[-1], m))
    # the index comes from binary_search on the same table for the same actor
    chain_ok = True
    for fn in (AM + "::put_actor", AM + "::put_actor_ref"):
        bd = ctx.body(fn)
        ctx.analysed_fns.add(fn)
        ins = [(bi, t) for bi, t in bd.calls() if callee(t) == AM + "::insert_actor"]
        ctx.floor("insert_actor calls in %s" % fn.split("::")[-1], len(ins), 1)
        for k, (bi, t) in util.ordinal_keys(ins, lambda it: "%s|insert_actor" % fn.split("::")[-1]):
            pv = bd.provenance(t["args"][1], through_calls=True)
            bs = any((norm_fn(c) or "").split("::")[-1] == "binary_search" for c in pv.callees())
            err = any("@Err" in pr for _, pr in pv.places) or any("@Err" in "".join(bd.origin(l, pr)[1]) for l, pr in pv.places)
            ctx.ob("N2", k, bs and err, t["sp"], "at the Err(index) of binary_search" if bs and err else "the insertion index is not the position binary_search reports for the new actor")
    callers_os = {norm_fn(c).split("::{closure")[0] for c in cg.inn.get(OS + "::insert_actor", ())}
    callers_am = {norm_fn(c).split("::{closure")[0] for c in cg.inn.get(AM + "::insert_actor", ())}
    ok = callers_os == {AM + "::insert_actor"} and callers_am == {AM + "::put_actor", AM + "::put_actor_ref"}
    ctx.ob("N2", "insert_actor|caller chain", ok, "", "OpSet::insert_actor <- Automerge::insert_actor <- put_actor / put_actor_ref" if ok else "insert_actor gained callers %s / %s" % (sorted(callers_os), sorted(callers_am)))
    # ---------------- N4: an increment naming a non-counter op is an overwrite, on every path that attaches successors from the batch
    ctx.rule("N4", "sibling agreement in the merge walkers: every store into a change op's `succ` (successors found in the same batch) is dominated by normalize_increment_successors")
    n4 = 0
    for p, r in sorted(f.fns.items()):
        if r["ckey"] != ("automerge", "lib") or "op_set2::change::batch::" not in p or "{closure" in p:
            continue
        bd = cfg.body(r)
        stores = [(bi, st) for bi, blk in enumerate(bd.blocks) if not blk.get("cleanup") for st in blk["st"] if st["d"]["p"] and st["d"]["p"][-1] == ".succ" and st["rv"]["k"] == "Use"]
        if not stores:
            continue
        norm_calls = [bi for bi, t in bd.calls() if (callee(t) or "").endswith("batch::normalize_increment_successors")]
        seen_sp = set()
        for bi, st in stores:
            if st["sp"] in seen_sp:
                continue                    # drop elaboration duplicates the assignment
            seen_sp.add(st["sp"])
            n4 += 1
            ctx.analysed_fns.add(p)
            ok = any(bd.block_dominates(nb, bi) for nb in norm_calls)
            ctx.ob("N4", "%s|successors normalised before they are attached" % norm_fn(p).split("batch::")[-1], ok, st["sp"], "normalize_increment_successors first" if ok else
                   "successors found in the same batch are attached without normalising increments: an increment over a non-counter value stays an increment when the two arrive together but is an overwrite when they arrive one by one")
    ctx.floor("stores into a change op's succ in the merge walkers", n4, 2)
    return f
