"""C09 Incremental patches keep a materialized view equal to the document — who-must-log and the invariants behind the patch state (thin).

That the emitted patches *are* the difference of the two states is value-level (not decided). Three clauses are in the shape of
the code, each a necessary condition of "applied to a view of the previous state, they yield the new state":
 (P1) who-must-log: every site of `transaction::inner` that records a local op (push / extend onto `pending`) lies on a path that
      also hands the op to the patch log — a `finalize_op` / `PatchLog::*` call dominates it, or every way from it to a return
      passes one (or the false edge of `PatchLog::is_active`);
 (P2) the patch-state value used while merging keeps `expose => replaced` (C15's R7-pair, re-run: the text branch of
      `ValueState::list_flush` expects it);
 (P3) every `PatchLog::delete_seq` length is a width in the document's encoding or a reviewed list-only literal, and the patch
      index of a merged change advances by widths in text objects (C24's E6 / E4, re-run).
Not decided: that the logged patch describes the op's effect (conflict flags, counter values, exposes); the diff-based paths
(AutoCommit::diff_incremental, C08).
"""
from .. import cfg, util, facts
from ..util import norm_fn, callee
from . import C15, C24

INNER = "automerge::transaction::inner::"


def run(ctx):
    ctx.level = "proof"
    ctx.decides = ("every local op recorded in a transaction is also handed to the patch log on every path (finalize_op / PatchLog call, or the log is inactive); the merge-side patch state keeps expose => replaced; "
                   "deletion lengths and merged-change patch indexes are widths in the document's encoding (C15 / C24 rules re-run).")
    ctx.not_decided = "that each logged patch describes the op's effect on the view (conflict flags, counters, exposes); patches computed by diffing heads (C08)."
    ctx.rule("P1", "who-must-log: a push / extend onto TransactionInner.pending is dominated by a patch-log call, or every path from it to a return passes one or the is_active() == false edge")
    ctx.rule("P4", "PatchLog::get_path_map: the cached path map is dropped on an (in)equality test of path_hint against events_len(), not an ordering test (any event logged since invalidates it)")
    ctx.rule("P5", "ValueState::{map_process, list_flush}: the conflict argument of every put_map / put_seq / replace_seq is computed from the patch state, never a literal")
    ctx.rule("P6", "ValueState::process_doc_op: the document op whose value enters the patch state went through Op::fix_counter (a counter's displayed value includes its increments)")
    ctx.rule("P7", "local increment over a conflicted register: increment_replacement picks the last (winning) counter of the found ops, and the put patch built from it carries a computed conflict flag (several counters survive an increment)")
    ctx.rule("P8", "Untangler: the current element's width is reset to a constant only where it was just added to the patch index (flush); pending updates replace it only with the width of a visible op")
    ctx.rule("P9", "ValueState::{map_process, list_flush}: an Increment patch is logged only on the false edge of the doc value's `expose` flag (a counter the view never held gets a put)")
    ctx.rule("P10", "TransactionInner::{local_map_op, local_list_op}: after the op is recorded a put patch can follow (the conflict-resolving put of the unchanged winner clears the view's conflict flag)")
    ctx.rule("P11", "ValueState::{map_process, list_flush}: a bare Conflict patch (flag_conflict) is logged only downstream of a not-`deleted` edge of the doc value and of no `deleted` edge (when the merge deletes what was on display, the newcomer is put)")
    ctx.rule("P12", "a change of view re-numbers the session's patch log first: PatchLog::finish_current_view calls migrate_actors on every path (not only when events are recorded), and AutoCommit::patch_to logs the new view (DiffIter::log) only after finish_current_view")
    ctx.rule("P13", "numbering discipline of a patch log that outlives the call: before a whole state / a diff is logged into a PatchLog that is a parameter or a field (not built in the same function), and before PatchLog::make_patches turns recorded ids into external ids, the log's actor table is brought up to date (migrate_actors, or finish_current_view / begin_transaction which do it)")
    ctx.rule("P2", "C15 R7-pair re-run")
    ctx.rule("P3", "C24 E6 (delete_seq lengths) and E4 (Untangler index steps) re-run")
    f = ctx.facts()
    n = 0
    for p, r in sorted(f.fns.items()):
        if r["ckey"] != ("automerge", "lib") or not norm_fn(p).startswith(INNER):
            continue
        b = cfg.body(r)
        rec = []
        for bi, t in b.calls():
            fn = norm_fn(t.get("fn")) or ""
            if fn.split("::")[-1] in ("push", "extend", "append") and t.get("args"):
                o = b.operand_origin(t["args"][0])
                if o and ".pending" in o[1]:
                    rec.append((bi, t))
        if not rec:
            continue
        ctx.analysed_fns.add(p)
        logs = set()
        inactive = []
        for bi, t in b.calls():
            c = callee(t) or ""
            if c.endswith("PatchLog::is_active"):
                continue
            if c.endswith("TransactionInner::finalize_op") or ("patches::patch_log::PatchLog::" in c and c.split("::")[-1] not in ("is_active", "new", "inactive", "active")):
                logs.add(bi)
        for sb, sw in b.switches():
            src = b.bool_operand_source(sw["op"])
            if src and src["kind"] == "call" and (norm_fn(src["callee"]) or "").endswith("PatchLog::is_active"):
                zero = [tb for v, tb in sw["targets"] if v == "0"]
                inactive += [(sb, sw["otherwise"])] if src["negated"] else ([(sb, zero[0])] if zero else [])
        # `if deleted > 0 && log.is_active() { log.delete_seq(..) }`: the false edge of `acc > 0` is not a way around the log once an op was
        # recorded, when the accumulator is increased in a block that dominates the recording site
        def zero_guard_edges(push_block):
            out = []
            for sb, sw in b.switches():
                src = b.bool_operand_source(sw["op"])
                if not (src and src["kind"] == "bin" and src["op"] in ("Gt", "Ne", "Lt", "Eq")):
                    continue
                ks = [util.op_const(o) for o in src["o"]]
                pls = [o.get("c") or o.get("m") for o in src["o"] if util.op_const(o) is None]
                if not (any(k is not None and k.get("v") == "0" for k in ks) and len(pls) == 1 and pls[0] and not pls[0]["p"]):
                    continue
                acc = b.origin(pls[0]["l"], ())[0]
                grown = False
                for (db, si, rec_) in b.defs().get(acc, []):
                    if si != "t" and rec_["rv"]["k"] in ("Use",) and rec_["rv"]["o"]:
                        srcpl = rec_["rv"]["o"][0].get("m") or rec_["rv"]["o"][0].get("c")
                        d2 = b.single_def(srcpl["l"]) if srcpl else None
                        if d2 and d2[1] != "t" and d2[2]["rv"]["k"] == "Bin" and d2[2]["rv"]["op"] in ("Add", "AddWithOverflow") and (b.block_dominates(db, push_block) or db == push_block):
                            grown = True
                    if si != "t" and rec_["rv"]["k"] == "Bin" and rec_["rv"]["op"] == "Add" and (b.block_dominates(db, push_block) or db == push_block):
                        grown = True
                if not grown:
                    continue
                zero = [tb for v, tb in sw["targets"] if v == "0"]
                # the edge taken when `acc > 0` / `acc != 0` is false
                truth_false = [(sb, zero[0])] if zero else []
                if src["op"] in ("Eq", "Lt"):
                    truth_false = [(sb, sw["otherwise"])] if src["op"] == "Eq" else truth_false
                if src["negated"]:
                    truth_false = [(sb, sw["otherwise"])] if zero else []
                out += truth_false
            return out
        rets = b.returns()
        oks = {bi for bi, blk in enumerate(b.blocks) if not blk.get("cleanup") for st in blk["st"] if st["d"]["l"] == 0 and not st["d"]["p"] and util.is_ok_agg(st["rv"])}
        for k, (bi, t) in util.ordinal_keys(rec, lambda it: "%s|op recorded" % norm_fn(p).split("inner::")[-1]):
            n += 1
            before = any(b.block_dominates(l, bi) and l != bi for l in logs)
            after = False
            if not before:
                nxt = t.get("target")
                reach = b.reachable(start=nxt, removed_blocks=logs, removed_edges=inactive + zero_guard_edges(bi)) if nxt is not None else set()
                # success paths only: an Err exit after a recorded op is the error-after-mutation question (C03 / C06)
                after = not any(o in reach for o in oks) if oks else not any(rb in reach for rb in rets)
            ctx.ob("P1", k, before or after, t["sp"], "logged before it is recorded" if before else ("logged on every path after it (or the log is inactive)" if after else "") or
                   "a local op is recorded in the transaction without being handed to the patch log on some path: a view kept up to date from the patches misses this edit")
    ctx.floor("local-op recording sites in transaction::inner", n, 8)
    check_patch_state_flags(ctx, f)
    check_path_hint(ctx, f)
    check_doc_counter(ctx, f)
    check_increment_replacement(ctx, f)
    check_untangler_width(ctx, f)
    check_increment_vs_expose(ctx, f)
    check_conflict_resolution_logged(ctx, f)
    check_conflict_vs_deleted(ctx, f)
    check_view_change_migrates(ctx, f)
    check_log_numbering(ctx, f)
    C15.check_expose_pair(ctx, f)
    C24.check_delete_lengths(ctx, f)
    C24.check_untangler_index(ctx, f)


def check_patch_state_flags(ctx, f):
    CONFLICT_ARG = {"put_map": 5, "put_seq": 5, "replace_seq": 6}
    n = 0
    for p, r in sorted(f.fns.items()):
        np_ = norm_fn(p)
        if r["ckey"] != ("automerge", "lib") or not np_.startswith("automerge::op_set2::change::batch::ValueState::"):
            continue
        b = cfg.body(r)
        sites = [(bi, t) for bi, t in b.calls() if (callee(t) or "").startswith("automerge::patches::patch_log::PatchLog::") and callee(t).split("::")[-1] in CONFLICT_ARG]
        for k, (bi, t) in util.ordinal_keys(sites, lambda it: "%s|%s conflict flag" % (np_.split("::")[-1], callee(it[1]).split("::")[-1])):
            n += 1
            ctx.analysed_fns.add(p)
            a = t["args"][CONFLICT_ARG[callee(t).split("::")[-1]]]
            lit = util.op_const(a)
            ctx.ob("P5", k, lit is None, t["sp"], "computed from the patch state" if lit is None else
                   "the patch carries a literal conflict flag (%s): after a merge that leaves (or resolves) a conflict the materialized view shows the wrong conflict state" % lit.get("v"))
    ctx.floor("conflict-flagged patch calls in ValueState", n, 8)


def check_path_hint(ctx, f):
    GP = [p for p in f.fns if norm_fn(p) == "automerge::patches::patch_log::PatchLog::get_path_map"]
    if len(GP) != 1:
        raise facts.AnchorMissing("PatchLog::get_path_map")
    b = cfg.body(f.fns[GP[0]])
    ctx.analysed_fns.add(GP[0])
    tests = []
    for sb, sw in b.switches():
        src = b.bool_operand_source(sw["op"])
        if src and src["kind"] == "bin" and src["op"] in ("Eq", "Ne", "Lt", "Le", "Gt", "Ge"):
            flds = set()
            calls_ = set()
            for o in src["o"]:
                pl = o.get("c") or o.get("m")
                if pl:
                    og = b.origin(pl["l"], tuple(pl["p"]))
                    flds |= {e for e in og[1] if e.startswith(".")}
                    calls_ |= {norm_fn(c).split("::")[-1] for c in b.provenance(o, through_calls=False).callees()}
            if ".path_hint" in flds and "events_len" in calls_:
                tests.append(src["op"])
    ctx.floor("comparisons of path_hint with events_len()", len(tests), 1)
    ok = bool(tests) and all(t in ("Eq", "Ne") for t in tests)
    ctx.ob("P4", "get_path_map|cache valid only when nothing was logged since", ok, b.rec["sp"], "equality test" if ok else
           "the cached object paths are kept under an ordering test (%s): events logged after the paths were computed (an object moved inside a list) leave patches addressed to the old path" % tests)


def check_doc_counter(ctx, f):
    PD = [p for p in f.fns if norm_fn(p) == "automerge::op_set2::change::batch::ValueState::process_doc_op"]
    if len(PD) != 1:
        raise facts.AnchorMissing("ValueState::process_doc_op")
    b = cfg.body(f.fns[PD[0]])
    ctx.analysed_fns.add(PD[0])
    sets = [(bi, t) for bi, t in b.calls() if (callee(t) or "").endswith("batch::OpValueOption::set")]
    ctx.floor("OpValueOption::set calls in process_doc_op", len(sets), 1)
    fixes = [(bi, t) for bi, t in b.calls() if (callee(t) or "").endswith("op::Op::fix_counter") or (norm_fn(t.get("fn")) or "").endswith("Op::fix_counter")]
    for k, (bi, t) in util.ordinal_keys(sets, lambda it: "process_doc_op|value recorded"):
        hv = [(hb, ht) for hb, ht in b.calls() if (norm_fn(ht.get("fn")) or "").endswith("Op::hydrate_value") and b.block_dominates(hb, bi)]
        ok = False
        for hb, ht in hv:
            ho = b.operand_origin(ht["args"][0])
            for fb, ft in fixes:
                fo = b.operand_origin(ft["args"][0])
                if ho and fo and ho[0] == fo[0] and b.block_dominates(fb, hb):
                    ok = True
        ctx.ob("P6", k, ok, t["sp"], "fix_counter on the op before its value is taken" if ok else
               "a document op's creation value is recorded as what is on display: for a counter the increments held by its successors are missing, so an exposing put patch carries a stale count")


def check_increment_replacement(ctx, f):
    IR = [p for p in f.fns if norm_fn(p) == INNER + "increment_replacement"]
    if len(IR) != 1:
        raise facts.AnchorMissing("transaction::inner::increment_replacement")
    b = cfg.body(f.fns[IR[0]])
    ctx.analysed_fns.add(IR[0])
    counter_closures = {p for p in f.fns if p.startswith(IR[0] + "::{closure") and any((callee(t) or "").endswith("Op::is_counter") for _, t in cfg.body(f.fns[p]).calls())}
    picks = []
    for bi, t in b.calls():
        name = (norm_fn(t.get("fn")) or "").split("::")[-1]
        if name in ("find", "rfind", "position", "rposition", "find_map", "last", "next", "next_back", "nth", "max_by_key", "min_by_key") and t.get("args"):
            pv = b.provenance(t["args"][-1], through_calls=False)
            if pv.closures & counter_closures or name in ("last", "next", "next_back", "nth"):
                picks.append((bi, t, name))
    ctx.floor("selection of the counter in increment_replacement", len(picks), 1)
    for k, (bi, t, name) in util.ordinal_keys(picks, lambda it: "increment_replacement|counter selected"):
        rev = "adapters::rev::Rev" in (t.get("resargs") or t.get("fnargs") or "") or "adapters::rev::Rev" in " ".join(t.get("argtys", []))
        ok = name in ("rfind", "rposition", "last", "next_back", "max_by_key") or (rev and name in ("find", "next", "position", "find_map"))
        ctx.ob("P7", k, ok, t["sp"], "the last counter among the found ops (the winner after the increment)" if ok else
               "the patch value for an increment over a conflicted register is taken from the first counter found (%s): with several counters the view shows the loser's count" % name)
    FO = [p for p in f.fns if norm_fn(p) == INNER + "TransactionInner::finalize_op"]
    if len(FO) != 1:
        raise facts.AnchorMissing("TransactionInner::finalize_op")
    g = cfg.body(f.fns[FO[0]])
    ctx.analysed_fns.add(FO[0])
    repl = [i for i in range(1, g.argc + 1) if g.local_name(i) == "replaced"]
    if len(repl) != 1:
        raise facts.AnchorMissing("parameter `replaced` of finalize_op")
    puts = []
    for bi, t in g.calls():
        if (callee(t) or "").endswith("PatchLog::put") and len(t.get("args", [])) >= 7:
            pv = g.provenance(t["args"][3], through_calls=True)
            if pv.depends_on_param(repl[0]):
                puts.append((bi, t))
    ctx.floor("put patches built from the increment replacement in finalize_op", len(puts), 1)
    for k, (bi, t) in util.ordinal_keys(puts, lambda it: "finalize_op|conflict flag of the materialized counter"):
        lit = util.op_const(t["args"][5])
        ctx.ob("P7", k, lit is None, t["sp"], "computed from the register" if lit is None else
               "the put patch that replaces a conflicted register after a local increment carries a literal conflict flag (%s): when two counters survive, the view shows the register as resolved" % lit.get("v"))


def check_untangler_width(ctx, f):
    n = 0
    for p, r in sorted(f.fns.items()):
        np_ = norm_fn(p)
        if r["ckey"] != ("automerge", "lib") or not np_.startswith("automerge::op_set2::change::batch::Untangler::") or "{closure" in p:
            continue
        b = cfg.body(r)
        stores = [(bi, st) for bi, blk in enumerate(b.blocks) if not blk.get("cleanup") for st in blk["st"] if st["d"]["p"] and st["d"]["p"][-1] == ".width"]
        if not stores:
            continue
        ctx.analysed_fns.add(p)
        consumed = [bi for bi, blk in enumerate(b.blocks) for st in blk["st"] if st["d"]["p"] and st["d"]["p"][-1] == ".index" and
                    any(pl and ".width" in b.origin(pl["l"], tuple(pl["p"]))[1] for o in _flat_operands(b, st["rv"]) for pl in [o.get("c") or o.get("m")])]
        for k, (bi, st) in util.ordinal_keys(stores, lambda it, nm=np_.split("::")[-1]: "%s|store to width" % nm):
            n += 1
            lit = st["rv"]["k"] == "Use" and util.op_const(st["rv"]["o"][0]) is not None
            ok = (not lit) or any(cb == bi or b.block_dominates(cb, bi) for cb in consumed)
            ctx.ob("P8", k, ok, st["sp"], ("reset after it was added to the index" if lit else "a width") if ok else
                   "the element's width is reset to a constant although it was not added to the patch index yet: a surviving value's width is lost and the following inserts are logged one position too low")
    ctx.floor("stores to Untangler.width", n, 4)


def _flat_operands(b, rv, depth=3):
    """operands of an rvalue, looking through single-definition temporaries (checked additions, copies)"""
    out = []
    for o in rv.get("o", ()):
        out.append(o)
        pl = o.get("c") or o.get("m")
        if pl is not None and depth > 0 and (not pl["p"] or pl["p"] == [".0"]):
            d = b.single_def(pl["l"])
            if d and d[1] != "t":
                out += _flat_operands(b, d[2]["rv"], depth - 1)
    return out


def check_increment_vs_expose(ctx, f):
    n = 0
    for tail in ("map_process", "list_flush"):
        P = [p for p in f.fns if norm_fn(p) == "automerge::op_set2::change::batch::ValueState::" + tail]
        if len(P) != 1:
            raise facts.AnchorMissing("ValueState::" + tail)
        b = cfg.body(f.fns[P[0]])
        ctx.analysed_fns.add(P[0])
        incs = [(bi, t) for bi, t in b.calls() if (callee(t) or "").startswith("automerge::patches::patch_log::PatchLog::increment")]
        not_exposed = cfg.cond_edges(b, atom_place=lambda og: bool(og[1]) and og[1][-1] == ".expose", want=False)
        exposed = cfg.cond_edges(b, atom_place=lambda og: bool(og[1]) and og[1][-1] == ".expose", want=True)
        # a match guard `if d.id == c.id && d.expose` that fails falls through to the next arm's own `d.id == c.id` test, so the
        # not-exposed edge does not dominate the increment in the CFG (the two id tests are correlated): the increment must lie
        # downstream of a not-exposed edge and of no exposed edge
        after_not = set().union(*[b.reachable(start=e[1]) for e in not_exposed]) if not_exposed else set()
        after_exp = set().union(*[b.reachable(start=e[1]) for e in exposed]) if exposed else set()
        for k, (bi, t) in util.ordinal_keys(incs, lambda it, tl=tail: "%s|increment patch" % tl):
            n += 1
            ok = bi in after_not and bi not in after_exp
            ctx.ob("P9", k, ok, t["sp"], "only when the incremented counter was already on display" if ok else
                   "an Increment patch is logged for a counter that this merge exposes (its winner was overwritten by the increment): the view never held the counter and fails with BadIncrement or keeps the old value")
    ctx.floor("increment patches in ValueState", n, 2)


def check_conflict_resolution_logged(ctx, f):
    for tail in ("local_map_op", "local_list_op"):
        P = [p for p in f.fns if norm_fn(p) == INNER + "TransactionInner::" + tail]
        if len(P) != 1:
            raise facts.AnchorMissing("TransactionInner::" + tail)
        b = cfg.body(f.fns[P[0]])
        ctx.analysed_fns.add(P[0])
        rec = [bi for bi, t in b.calls() if (callee(t) or "").endswith("TransactionInner::insert_local_op")]
        if not rec:
            raise facts.AnchorMissing("insert_local_op call in " + tail)
        puts = [(bi, t) for bi, t in b.calls() if (callee(t) or "").split("::")[-1] in ("put", "put_map", "put_seq") and "PatchLog::" in (callee(t) or "") and
                any(b.can_reach(r, bi) for r in rec)]
        cleared = [(bi, t) for bi, t in puts if (util.op_const(t["args"][5]) or {}).get("v") == "0"]
        ok = bool(cleared)
        ctx.ob("P10", "%s|conflict-resolving put is logged" % tail, ok, (cleared[0][1]["sp"] if cleared else b.rec["sp"]),
               "a put of the unchanged winner with the conflict cleared can follow the recorded op" if ok else
               "a put that only resolves a conflict (same value as the winner) is recorded without any patch: a materialized view keeps the register flagged as conflicted")


def check_conflict_vs_deleted(ctx, f):
    n = 0
    for tail in ("map_process", "list_flush"):
        P = [p for p in f.fns if norm_fn(p) == "automerge::op_set2::change::batch::ValueState::" + tail]
        if len(P) != 1:
            raise facts.AnchorMissing("ValueState::" + tail)
        b = cfg.body(f.fns[P[0]])
        ctx.analysed_fns.add(P[0])
        flags = [(bi, t) for bi, t in b.calls() if (callee(t) or "").startswith("automerge::patches::patch_log::PatchLog::flag_conflict")]
        is_deleted = lambda og: bool(og[1]) and og[1][-1] == ".deleted"
        kept = cfg.cond_edges(b, atom_place=is_deleted, want=False)
        gone = cfg.cond_edges(b, atom_place=is_deleted, want=True)
        after_kept = set().union(*[b.reachable(start=e[1]) for e in kept]) if kept else set()
        after_gone = set().union(*[b.reachable(start=e[1]) for e in gone]) if gone else set()
        for k, (bi, t) in util.ordinal_keys(flags, lambda it, tl=tail: "%s|conflict patch" % tl):
            n += 1
            ok = bi in after_kept and bi not in after_gone
            ctx.ob("P11", k, ok, t["sp"], "only when the value on display survives the merge" if ok else
                   "a bare Conflict patch is logged without looking at whether this merge deletes the value on display: the view keeps the deleted value, flagged conflicted, while the document shows the newcomer alone")
    ctx.floor("conflict patches in ValueState", n, 3)


def check_view_change_migrates(ctx, f):
    from . import C28
    FV = [p for p in f.fns if norm_fn(p) == "automerge::patches::patch_log::PatchLog::finish_current_view"]
    PT = [p for p in f.fns if norm_fn(p) == "automerge::autocommit::AutoCommit::patch_to"]
    if len(FV) != 1 or len(PT) != 1:
        raise facts.AnchorMissing("PatchLog::finish_current_view / AutoCommit::patch_to")
    b = cfg.body(f.fns[FV[0]])
    ctx.analysed_fns.update([FV[0], PT[0]])
    mig = [(bi, t) for bi, t in b.calls() if (callee(t) or "").endswith("PatchLog::migrate_actors")]
    ctx.floor("migrate_actors calls in finish_current_view", len(mig), 1)
    rets = b.returns()
    reach = b.reachable(start=0, removed_blocks={bi for bi, _ in mig})
    ok = bool(mig) and not any(r_ in reach for r_ in rets)
    ctx.ob("P12", "finish_current_view|actor table brought up to date on every path", ok, (mig[0][1]["sp"] if mig else b.rec["sp"]),
           "migrate_actors on every path to the return" if ok else
           "the log's actor table is only brought up to date when events are already recorded: the events of the next view are numbered by the document's current table against a stale one, the next migration shifts them again (index past the actor table in id_to_exid)")
    pb = cfg.body(f.fns[PT[0]])
    logs = [(bi, t) for bi, t in pb.calls() if (callee(t) or "").endswith("iter::doc::DiffIter::log")]
    fins = [bi for bi, t in pb.calls() if (callee(t) or "").endswith("PatchLog::finish_current_view")]
    ctx.floor("views logged by patch_to", len(logs), 1)
    for k, (bi, t) in util.ordinal_keys(logs, lambda it: "patch_to|new view logged"):
        ok2 = any(pb.block_dominates(fb, bi) for fb in fins)
        ctx.ob("P12", k + "|after finish_current_view", ok2, t["sp"], "the previous view is finished (and the log re-numbered) first" if ok2 else
               "the new view is logged without finishing the previous one: its events mix with the old view's and are numbered against a stale actor table")


def check_log_numbering(ctx, f):
    SYNCERS = ("PatchLog::migrate_actors", "PatchLog::finish_current_view", "PatchLog::begin_transaction")
    n = 0
    for p, r in sorted(f.fns.items()):
        if r["ckey"] != ("automerge", "lib") or "{closure" in p:
            continue
        np_ = norm_fn(p)
        if not (np_.startswith("automerge::automerge::Automerge::") or np_.startswith("automerge::autocommit::AutoCommit::")):
            continue
        if np_.endswith("Automerge::log_current_state"):
            continue                # the wrapper: the obligation is its callers'
        b = cfg.body(r)
        prods = []
        for bi, t in b.calls():
            c = callee(t) or ""
            if c.endswith("Automerge::log_current_state") or c.endswith("iter::doc::DiffIter::log"):
                la = [a for a, ty in zip(t.get("args", []), t.get("argtys", [])) if "PatchLog" in ty]
                if la:
                    prods.append((bi, t, la[0]))
        for k, (bi, t, la) in util.ordinal_keys(prods, lambda it, nm=np_.split("::")[-1]: "%s|state logged" % nm):
            pv = b.provenance(la, through_calls=True)
            fresh = any((norm_fn(c) or "").endswith(("PatchLog::active", "PatchLog::new", "PatchLog::inactive")) for c in pv.callees())
            outlives = (not fresh) and (bool(pv.params) or any(b.origin(l, pr)[0] == 1 for l, pr in pv.places))
            if not outlives:
                continue
            n += 1
            ctx.analysed_fns.add(p)
            sync = [sb for sb, st in b.calls() if (callee(st) or "").endswith(SYNCERS) and b.block_dominates(sb, bi)]
            ctx.ob("P13", k, bool(sync), t["sp"], "the log's actor table is brought up to date first" if sync else
                   "a state is logged into a patch log that outlives the call without bringing the log's actor table up to date: the events are numbered by the document's table, and the next actor inserted in front of it shifts (or fails to shift) them — patches name objects under the wrong actor")
    ctx.floor("states logged into a patch log that outlives the call", n, 2)
    MP = [p for p in f.fns if norm_fn(p) == "automerge::patches::patch_log::PatchLog::make_patches"]
    if len(MP) != 1:
        raise facts.AnchorMissing("PatchLog::make_patches")
    b = cfg.body(f.fns[MP[0]])
    ctx.analysed_fns.add(MP[0])
    cur = [bi for bi, t in b.calls() if (callee(t) or "").endswith("PatchLog::make_current_patches")]
    mig = [bi for bi, t in b.calls() if (callee(t) or "").endswith("PatchLog::migrate_actors")]
    ok = bool(cur) and all(any(b.block_dominates(m, c) for m in mig) for c in cur)
    ctx.ob("P13", "make_patches|ids resolved against a table the log has seen", ok, b.rec["sp"], "migrate_actors before the ids are resolved" if ok else
           "make_patches resolves the recorded internal ids with the document's current actor table without migrating the log: after an actor arrived through a call that did not see the log, patches name objects under the wrong actor")
