"""C09 Incremental patches keep a materialized view equal to the document — who-must-log and the invariants behind the patch state (thin).

That the emitted patches *are* the difference of the two states is value-level (not decided). Three clauses are in the shape of
the code, each a necessary condition of "applied to a view of the previous state, they yield the new state":
 (P1) who-must-log: every site of `transaction::inner` that records a local op (push / extend onto `pending`) lies on a path that
      also hands the op to the patch log — a `finalize_op` / `PatchLog::*` call dominates it, or every way from it to a return
      passes one (or the false edge of `PatchLog::is_active`);
 (P2) the patch-state value used while merging keeps `expose => replaced` (C15's R7-pair, re-run: the text branch of
      `ValueState::list_flush` expects it);
 (P3) every `PatchLog::delete_seq` length is a width in the document's encoding or a reviewed list-only literal, and the patch
      index of a merged change advances by widths in text objects (C24's E6 / E4, re-run).
Not decided: that the logged patch describes the op's effect (conflict flags, counter values, exposes); the diff-based paths
(AutoCommit::diff_incremental, C08).
"""
from .. import cfg, util, facts
from ..util import norm_fn, callee
from . import C15, C24

INNER = "automerge::transaction::inner::"


def run(ctx):
    ctx.level = "proof"
    ctx.decides = ("every local op recorded in a transaction is also handed to the patch log on every path (finalize_op / PatchLog call, or the log is inactive); the merge-side patch state keeps expose => replaced; "
                   "deletion lengths and merged-change patch indexes are widths in the document's encoding (C15 / C24 rules re-run).")
    ctx.not_decided = "that each logged patch describes the op's effect on the view (conflict flags, counters, exposes); patches computed by diffing heads (C08)."
    ctx.rule("P1", "who-must-log: a push / extend onto TransactionInner.pending is dominated by a patch-log call, or every path from it to a return passes one or the is_active() == false edge")
    ctx.rule("P4", "PatchLog::get_path_map: the cached path map is dropped on an (in)equality test of path_hint against events_len(), not an ordering test (any event logged since invalidates it)")
    ctx.rule("P5", "ValueState::{map_process, list_flush}: the conflict argument of every put_map / put_seq / replace_seq is computed from the patch state, never a literal")
    ctx.rule("P6", "ValueState::process_doc_op: the document op whose value enters the patch state went through Op::fix_counter (a counter's displayed value includes its increments)")
    ctx.rule("P2", "C15 R7-pair re-run")
    ctx.rule("P3", "C24 E6 (delete_seq lengths) and E4 (Untangler index steps) re-run")
    f = ctx.facts()
    n = 0
    for p, r in sorted(f.fns.items()):
        if r["ckey"] != ("automerge", "lib") or not norm_fn(p).startswith(INNER):
            continue
        b = cfg.body(r)
        rec = []
        for bi, t in b.calls():
            fn = norm_fn(t.get("fn")) or ""
            if fn.split("::")[-1] in ("push", "extend", "append") and t.get("args"):
                o = b.operand_origin(t["args"][0])
                if o and ".pending" in o[1]:
                    rec.append((bi, t))
        if not rec:
            continue
        ctx.analysed_fns.add(p)
        logs = set()
        inactive = []
        for bi, t in b.calls():
            c = callee(t) or ""
            if c.endswith("PatchLog::is_active"):
                continue
            if c.endswith("TransactionInner::finalize_op") or ("patches::patch_log::PatchLog::" in c and c.split("::")[-1] not in ("is_active", "new", "inactive", "active")):
                logs.add(bi)
        for sb, sw in b.switches():
            src = b.bool_operand_source(sw["op"])
            if src and src["kind"] == "call" and (norm_fn(src["callee"]) or "").endswith("PatchLog::is_active"):
                zero = [tb for v, tb in sw["targets"] if v == "0"]
                inactive += [(sb, sw["otherwise"])] if src["negated"] else ([(sb, zero[0])] if zero else [])
        # `if deleted > 0 && log.is_active() { log.delete_seq(..) }`: the false edge of `acc > 0` is not a way around the log once an op was
        # recorded, when the accumulator is increased in a block that dominates the recording site
        def zero_guard_edges(push_block):
            out = []
            for sb, sw in b.switches():
                src = b.bool_operand_source(sw["op"])
                if not (src and src["kind"] == "bin" and src["op"] in ("Gt", "Ne", "Lt", "Eq")):
                    continue
                ks = [util.op_const(o) for o in src["o"]]
                pls = [o.get("c") or o.get("m") for o in src["o"] if util.op_const(o) is None]
                if not (any(k is not None and k.get("v") == "0" for k in ks) and len(pls) == 1 and pls[0] and not pls[0]["p"]):
                    continue
                acc = b.origin(pls[0]["l"], ())[0]
                grown = False
                for (db, si, rec_) in b.defs().get(acc, []):
                    if si != "t" and rec_["rv"]["k"] in ("Use",) and rec_["rv"]["o"]:
                        srcpl = rec_["rv"]["o"][0].get("m") or rec_["rv"]["o"][0].get("c")
                        d2 = b.single_def(srcpl["l"]) if srcpl else None
                        if d2 and d2[1] != "t" and d2[2]["rv"]["k"] == "Bin" and d2[2]["rv"]["op"] in ("Add", "AddWithOverflow") and (b.block_dominates(db, push_block) or db == push_block):
                            grown = True
                    if si != "t" and rec_["rv"]["k"] == "Bin" and rec_["rv"]["op"] == "Add" and (b.block_dominates(db, push_block) or db == push_block):
                        grown = True
                if not grown:
                    continue
                zero = [tb for v, tb in sw["targets"] if v == "0"]
                # the edge taken when `acc > 0` / `acc != 0` is false
                truth_false = [(sb, zero[0])] if zero else []
                if src["op"] in ("Eq", "Lt"):
                    truth_false = [(sb, sw["otherwise"])] if src["op"] == "Eq" else truth_false
                if src["negated"]:
                    truth_false = [(sb, sw["otherwise"])] if zero else []
                out += truth_false
            return out
        rets = b.returns()
        oks = {bi for bi, blk in enumerate(b.blocks) if not blk.get("cleanup") for st in blk["st"] if st["d"]["l"] == 0 and not st["d"]["p"] and util.is_ok_agg(st["rv"])}
        for k, (bi, t) in util.ordinal_keys(rec, lambda it: "%s|op recorded" % norm_fn(p).split("inner::")[-1]):
            n += 1
            before = any(b.block_dominates(l, bi) and l != bi for l in logs)
            after = False
            if not before:
                nxt = t.get("target")
                reach = b.reachable(start=nxt, removed_blocks=logs, removed_edges=inactive + zero_guard_edges(bi)) if nxt is not None else set()
                # success paths only: an Err exit after a recorded op is the error-after-mutation question (C03 / C06)
                after = not any(o in reach for o in oks) if oks else not any(rb in reach for rb in rets)
            ctx.ob("P1", k, before or after, t["sp"], "logged before it is recorded" if before else ("logged on every path after it (or the log is inactive)" if after else "") or
                   "a local op is recorded in the transaction without being handed to the patch log on some path: a view kept up to date from the patches misses this edit")
    ctx.floor("local-op recording sites in transaction::inner", n, 8)
    check_patch_state_flags(ctx, f)
    check_path_hint(ctx, f)
    check_doc_counter(ctx, f)
    C15.check_expose_pair(ctx, f)
    C24.check_delete_lengths(ctx, f)
    C24.check_untangler_index(ctx, f)


def check_patch_state_flags(ctx, f):
    CONFLICT_ARG = {"put_map": 5, "put_seq": 5, "replace_seq": 6}
    n = 0
    for p, r in sorted(f.fns.items()):
        np_ = norm_fn(p)
        if r["ckey"] != ("automerge", "lib") or not np_.startswith("automerge::op_set2::change::batch::ValueState::"):
            continue
        b = cfg.body(r)
        sites = [(bi, t) for bi, t in b.calls() if (callee(t) or "").startswith("automerge::patches::patch_log::PatchLog::") and callee(t).split("::")[-1] in CONFLICT_ARG]
        for k, (bi, t) in util.ordinal_keys(sites, lambda it: "%s|%s conflict flag" % (np_.split("::")[-1], callee(it[1]).split("::")[-1])):
            n += 1
            ctx.analysed_fns.add(p)
            a = t["args"][CONFLICT_ARG[callee(t).split("::")[-1]]]
            lit = util.op_const(a)
            ctx.ob("P5", k, lit is None, t["sp"], "computed from the patch state" if lit is None else
                   "the patch carries a literal conflict flag (%s): after a merge that leaves (or resolves) a conflict the materialized view shows the wrong conflict state" % lit.get("v"))
    ctx.floor("conflict-flagged patch calls in ValueState", n, 8)


def check_path_hint(ctx, f):
    GP = [p for p in f.fns if norm_fn(p) == "automerge::patches::patch_log::PatchLog::get_path_map"]
    if len(GP) != 1:
        raise facts.AnchorMissing("PatchLog::get_path_map")
    b = cfg.body(f.fns[GP[0]])
    ctx.analysed_fns.add(GP[0])
    tests = []
    for sb, sw in b.switches():
        src = b.bool_operand_source(sw["op"])
        if src and src["kind"] == "bin" and src["op"] in ("Eq", "Ne", "Lt", "Le", "Gt", "Ge"):
            flds = set()
            calls_ = set()
            for o in src["o"]:
                pl = o.get("c") or o.get("m")
                if pl:
                    og = b.origin(pl["l"], tuple(pl["p"]))
                    flds |= {e for e in og[1] if e.startswith(".")}
                    calls_ |= {norm_fn(c).split("::")[-1] for c in b.provenance(o, through_calls=False).callees()}
            if ".path_hint" in flds and "events_len" in calls_:
                tests.append(src["op"])
    ctx.floor("comparisons of path_hint with events_len()", len(tests), 1)
    ok = bool(tests) and all(t in ("Eq", "Ne") for t in tests)
    ctx.ob("P4", "get_path_map|cache valid only when nothing was logged since", ok, b.rec["sp"], "equality test" if ok else
           "the cached object paths are kept under an ordering test (%s): events logged after the paths were computed (an object moved inside a list) leave patches addressed to the old path" % tests)


def check_doc_counter(ctx, f):
    PD = [p for p in f.fns if norm_fn(p) == "automerge::op_set2::change::batch::ValueState::process_doc_op"]
    if len(PD) != 1:
        raise facts.AnchorMissing("ValueState::process_doc_op")
    b = cfg.body(f.fns[PD[0]])
    ctx.analysed_fns.add(PD[0])
    sets = [(bi, t) for bi, t in b.calls() if (callee(t) or "").endswith("batch::OpValueOption::set")]
    ctx.floor("OpValueOption::set calls in process_doc_op", len(sets), 1)
    fixes = [(bi, t) for bi, t in b.calls() if (callee(t) or "").endswith("op::Op::fix_counter") or (norm_fn(t.get("fn")) or "").endswith("Op::fix_counter")]
    for k, (bi, t) in util.ordinal_keys(sets, lambda it: "process_doc_op|value recorded"):
        hv = [(hb, ht) for hb, ht in b.calls() if (norm_fn(ht.get("fn")) or "").endswith("Op::hydrate_value") and b.block_dominates(hb, bi)]
        ok = False
        for hb, ht in hv:
            ho = b.operand_origin(ht["args"][0])
            for fb, ft in fixes:
                fo = b.operand_origin(ft["args"][0])
                if ho and fo and ho[0] == fo[0] and b.block_dominates(fb, hb):
                    ok = True
        ctx.ob("P6", k, ok, t["sp"], "fix_counter on the op before its value is taken" if ok else
               "a document op's creation value is recorded as what is on display: for a counter the increments held by its successors are missing, so an exposing put patch carries a stale count")
