"""C05 Changes with missing dependencies are held back until they become ready — gating discipline only (thin).

Decides the code-shape half of the property:
 (G1) ChangeQueue::pop_topo_sorted_ready releases a change only when its count of missing dependencies is zero, and a dependency
      counts as missing exactly when the change graph lacks it: every increment of `unsatisfied[..]` is control-dependent on
      `change_graph.has_change(dep) == false` for a `dep` taken from `c.deps()`, every decrement happens for a dependent of a
      change that was just released, and both `ready.push_back` sites are on the true edge of an `== 0` test of a value read
      from `unsatisfied`;
 (G2) Automerge::missing_deps_from reports a hash as missing only when it is neither applied (`has_change` false) nor held
      (`queued_changes.get` is None), and follows the dependencies of every held change it meets;
 (G3) ReadDoc::get_missing_deps starts that search from the hashes of all queued changes chained with the given heads;
 (G4) only changes returned by pop_topo_sorted_ready are handed to BatchApply (provenance of BatchApply::push's argument);
 (G5) the queue's two indexes (`hashes`, `incoming_actor_seqs`: what has_hash / has_actor_seq answer from) move with the queue:
      every ChangeQueue method that adds to or removes from `changes` mutates both indexes too (a stale hash makes a re-delivered
      change look "already queued" forever).
Not decided: that the final state is independent of the arrival order (C01), exactness of the reported set as a value.
"""
from .. import cfg, util, rules, facts
from ..util import norm_fn, callee

POP = "automerge::change_queue::ChangeQueue::pop_topo_sorted_ready"
MISSING = "automerge::automerge::Automerge::missing_deps_from"
GRAPH_HAS = "automerge::change_graph::ChangeGraph::has_change"
DOC_HAS = "automerge::automerge::Automerge::has_change"
APPLY = "automerge::op_set2::change::batch::apply_changes_batch_log_patches"


def find(f, name):
    c = [p for p in f.fns if norm_fn(p) == name and not p.startswith("bin:")]
    if len(c) != 1:
        raise facts.AnchorMissing(name)
    return c[0]


def call_false_edges(b, callee_name):
    def pred(src):
        if src["kind"] == "call" and norm_fn(src["callee"]) == callee_name:
            return False
        return None
    return rules.guard_edges(b, pred)


def run(ctx):
    ctx.level = "proof"
    ctx.decides = ("pop_topo_sorted_ready: missing-dependency counters are incremented only under has_change(dep)==false for deps of the change, decremented only for dependents of a released change, and a change is "
                   "released only on `count == 0`; missing_deps_from reports a hash only when neither applied nor held and follows held changes' deps; get_missing_deps seeds the search with the queue and the heads; "
                   "BatchApply receives only what pop_topo_sorted_ready returned.")
    ctx.not_decided = "independence of the final state from the arrival order (C01); value-level exactness of get_missing_deps; actor-branch pruning (C38 / C06)."
    ctx.rule("G1", "edge dominance in Kahn's algorithm: increments under !has_change(dep); releases under count == 0")
    ctx.rule("G2", "missing.insert(hash) is dominated by has_change(hash)==false and queued.get(hash)==None; the Some arm extends the stack with the change's deps")
    ctx.rule("G3", "provenance of missing_deps_from's argument in get_missing_deps: queue hashes chained with the heads parameter")
    ctx.rule("G5", "sibling agreement: ChangeQueue methods mutating `changes` mutate `hashes` and `incoming_actor_seqs` as well")
    ctx.rule("G4", "provenance of BatchApply::push's argument: pop_topo_sorted_ready only")
    ctx.rule("G8", "merge's dependency walk (Automerge::get_changes_added): collecting a hash and following its dependencies depends only on the visited set and on has_change (applied here) — a change that is merely *held* here is still followed, its missing ancestors are what the merge must bring")
    ctx.rule("G6", "no stale snapshot: a local set captured by a closure that prunes a ChangeQueue field (retain) is not extended afterwards")
    ctx.rule("G7", "whole-document replacement (`*self = doc`) in Automerge is edge-dominated by a test that reads ChangeQueue::is_empty (held changes are not thrown away)")
    f = ctx.facts()
    # ---------------- G1
    b = cfg.body(f.fns[find(f, POP)])
    ctx.analysed_fns.add(find(f, POP))
    # the counter vector: the Vec<u32> this function creates with vec![0u32; n] (identified by construction, not by its name)
    counters = set()
    for cb, ct in b.calls():
        if norm_fn(ct.get("fn")) == "alloc::vec::from_elem" and (ct.get("ga") or [""])[0] == "u32":
            counters.add(ct["dst"]["l"])
    if len(counters) != 1:
        raise facts.AnchorMissing("the missing-dependency counter vector (vec![0u32; n]) in pop_topo_sorted_ready")

    def on_counters(op):
        pv = b.provenance(op, through_calls=True)
        return bool(pv.locals & counters) or any(b.origin(l, pr)[0] in counters for l, pr in pv.places)
    incs, decs = [], []
    for bi, blk in enumerate(b.blocks):
        if blk.get("cleanup") or bi not in b.live_blocks():
            continue
        for st in blk["st"]:
            rv = st["rv"]
            if rv["k"] == "Bin" and rv.get("op") in ("AddWithOverflow", "Add", "SubWithOverflow", "Sub"):
                ty = b.local_ty(st["d"]["l"])
                if "u32" not in ty:
                    continue
                k = util.op_const(rv["o"][1])
                if k is None or k.get("v") != "1":
                    continue
                if not on_counters(rv["o"][0]):
                    continue
                (incs if rv["op"].startswith("Add") else decs).append((bi, st))
    ctx.floor("increments of unsatisfied[..]", len(incs), 1)
    ctx.floor("decrements of unsatisfied[..]", len(decs), 1)
    has_false = call_false_edges(b, GRAPH_HAS)
    for k, (bi, st) in util.ordinal_keys(incs, lambda it: "pop_topo_sorted_ready|unsatisfied += 1"):
        ok = bool(has_false) and b.edges_dominate(has_false, bi)
        # the tested hash is a dependency of the change being counted
        dep_ok = False
        for hb, ht in b.calls():
            if norm_fn(ht.get("fn")) == GRAPH_HAS:
                pv = b.provenance(ht["args"][1], through_calls=True)
                dep_ok = dep_ok or any(norm_fn(c) == "automerge::change::Change::deps" for c in pv.callees())
        ctx.ob("G1", k, ok and dep_ok, st["sp"], "under change_graph.has_change(dep) == false, dep from c.deps()" if ok and dep_ok else
               "a dependency is counted as missing without the change graph having been asked about it (or the hash asked about is not a dependency of the change)")
    pushes = [(bi, t) for bi, t in b.calls() if norm_fn(t.get("fn")) == "alloc::collections::vec_deque::VecDeque::push_back"]
    ctx.floor("ready.push_back sites", len(pushes), 2)

    def zero_true(src):
        if src["kind"] == "bin" and src["op"] == "Eq":
            ks = [util.op_const(o) for o in src["o"]]
            other = [o for o, k_ in zip(src["o"], ks) if k_ is None]
            if any(k_ is not None and k_.get("v") == "0" for k_ in ks) and other:
                if on_counters(other[0]):
                    return True
        return None
    zero_edges = rules.guard_edges(b, zero_true)
    for k, (bi, t) in util.ordinal_keys(pushes, lambda it: "pop_topo_sorted_ready|ready.push_back"):
        ok = bool(zero_edges) and b.edges_dominate(zero_edges, bi)
        ctx.ob("G1", k, ok, t["sp"], "released only when its missing-dependency count is zero" if ok else "a change can be released while its count of missing dependencies is not known to be zero")
    # decrements: only for dependents recorded under the hash of a change that was popped from `ready`
    pops = [bi for bi, t in b.calls() if norm_fn(t.get("fn")) == "alloc::collections::vec_deque::VecDeque::pop_front"]
    for k, (bi, st) in util.ordinal_keys(decs, lambda it: "pop_topo_sorted_ready|unsatisfied -= 1"):
        ok = bool(pops) and any(b.block_dominates(p_, bi) for p_ in pops)
        ctx.ob("G1", k, ok, st["sp"], "inside the release loop (after ready.pop_front())" if ok else "a missing-dependency count is lowered outside the release loop")
    # ---------------- G2
    mp = find(f, MISSING)
    m = cfg.body(f.fns[mp])
    ctx.analysed_fns.add(mp)
    # the reported set: the HashSet whose contents flow into the function's result (identified by data flow, not by its name)
    ret_locals = set()
    for rb_, kind, rec in util.ret_defs(m):
        src = rec["rv"]["o"][0] if kind == "stmt" and rec["rv"].get("o") else None
        if src is not None:
            ret_locals |= m.provenance(src, through_calls=True).locals
        elif kind == "call":
            for a_ in rec["args"]:
                ret_locals |= m.provenance(a_, through_calls=True).locals
    inserts = [(bi, t) for bi, t in m.calls() if norm_fn(t.get("fn")) == "std::collections::hash::set::HashSet::insert" and (m.operand_origin(t["args"][0]) or (None,))[0] in ret_locals]
    ctx.floor("missing.insert sites", len(inserts), 1)
    not_applied = call_false_edges(m, DOC_HAS)
    none_edges = []
    some_edges = []
    for sb, sw in m.switches():
        src = m.bool_operand_source(sw["op"])
        if src and src["kind"] == "discr":
            d = m.single_def(src["origin"][0])
            if d and d[1] == "t" and norm_fn(d[2].get("fn")) == "std::collections::hash::map::HashMap::get":
                none = [tb for v, tb in sw["targets"] if (src["vars"] or {}).get(v) == "None"]
                some = [tb for v, tb in sw["targets"] if (src["vars"] or {}).get(v) == "Some"]
                none_edges.append((sb, none[0] if none else sw["otherwise"]))
                some_edges.append((sb, some[0] if some else sw["otherwise"]))
    for k, (bi, t) in util.ordinal_keys(inserts, lambda it: "missing_deps_from|missing.insert"):
        ok = bool(not_applied) and m.edges_dominate(not_applied, bi) and bool(none_edges) and m.edges_dominate(none_edges, bi)
        ctx.ob("G2", k, ok, t["sp"], "only when has_change(hash) is false and the queue does not hold it" if ok else "a hash can be reported missing although it is applied or held in the queue")
    exts = [(bi, t) for bi, t in m.calls() if norm_fn(t.get("fn")) == "core::iter::traits::collect::Extend::extend"]
    okx = False
    for bi, t in exts:
        pv = m.provenance(t["args"][1], through_calls=True)
        if any(norm_fn(c) == "automerge::change::Change::deps" for c in pv.callees()) and some_edges and m.edges_dominate(some_edges, bi):
            okx = True
    ctx.ob("G2", "missing_deps_from|held change: its deps are searched", okx, m.rec["sp"], "stack.extend(change.deps()) on the Some arm" if okx else "the dependencies of a held change are not followed")
    # ---------------- G3
    gm = [p for p in f.fns if norm_fn(p) == "<automerge::automerge::Automerge as automerge::read::ReadDoc>::get_missing_deps"]
    if len(gm) != 1:
        raise facts.AnchorMissing("ReadDoc::get_missing_deps for Automerge")
    g = cfg.body(f.fns[gm[0]])
    ctx.analysed_fns.add(gm[0])
    calls = [(bi, t) for bi, t in g.calls() if norm_fn(t.get("res") or t.get("fn")) == MISSING]
    ctx.floor("missing_deps_from calls in get_missing_deps", len(calls), 1)
    for bi, t in calls:
        pv = g.provenance(t["args"][1], through_calls=True)
        from_queue = any(".queue" in pr for _, pr in [g.origin(l, pr) for l, pr in pv.places])
        from_heads = any(i == 2 for i, _ in pv.params)
        ctx.ob("G3", "get_missing_deps|search seeded with queue hashes and the heads", from_queue and from_heads, t["sp"], "queue: %s, heads parameter: %s" % (from_queue, from_heads))
    # ---------------- G4
    ap = [p for p in f.fns if norm_fn(p).endswith("::apply_changes_batch_log_patches") and "batch" in p and "{closure" not in p]
    if len(ap) != 1:
        raise facts.AnchorMissing(APPLY)
    a = cfg.body(f.fns[ap[0]])
    ctx.analysed_fns.add(ap[0])
    pushes = [(bi, t) for bi, t in a.calls() if norm_fn(t.get("res") or t.get("fn")) == "automerge::op_set2::change::batch::BatchApply::push"]
    ctx.floor("BatchApply::push calls in the admission function", len(pushes), 1)
    for k, (bi, t) in util.ordinal_keys(pushes, lambda it: "apply_changes_batch_log_patches|BatchApply::push"):
        pv = a.provenance(t["args"][1], through_calls=True)
        ok = any(norm_fn(c) == POP for c in pv.callees())
        ctx.ob("G4", k, ok, t["sp"], "argument comes from pop_topo_sorted_ready" if ok else "a change reaches BatchApply without having been released by pop_topo_sorted_ready")
    # who else pushes onto a BatchApply?
    others = set()
    for p, r in f.fns.items():
        if r["ckey"] != ("automerge", "lib") or p == ap[0]:
            continue
        for bi, t in f.calls(r):
            if norm_fn(t.get("res") or t.get("fn")) == "automerge::op_set2::change::batch::BatchApply::push":
                others.add(norm_fn(p))
    ctx.ob("G4", "BatchApply::push|only the admission function", not others, "", "other callers: %s" % sorted(others))
    # ---------------- G5
    from . import C28
    CQ = "automerge::change_queue::ChangeQueue"
    n5 = 0
    for p, r in sorted(f.fns.items()):
        if r["ckey"] != ("automerge", "lib") or r.get("container") != CQ or "{closure" in p:
            continue
        b = cfg.body(r)
        if not b.local_ty(1).startswith("&mut"):
            continue
        flds = C28.mutated_fields(f, p, 1)
        if "changes" not in flds:
            continue
        n5 += 1
        ctx.analysed_fns.add(p)
        missing = {"hashes", "incoming_actor_seqs"} - flds
        ctx.ob("G5", "%s|indexes updated with the queue" % norm_fn(p).split("::")[-1], not missing, r["sp"],
               "mutates %s" % sorted(flds) if not missing else "changes the queued changes but not %s: has_hash / has_actor_seq answer from a stale index" % sorted(missing))
    ctx.floor("ChangeQueue methods mutating `changes`", n5, 3)
    # ---------------- G6: the set that decides what leaves `changes` is the set that decides what leaves the indexes
    n6 = 0
    for p, r in sorted(f.fns.items()):
        if r["ckey"] != ("automerge", "lib") or r.get("container") != CQ or "{closure" in p:
            continue
        b = cfg.body(r)
        prunes = []
        for bi, t in b.calls():
            fn = norm_fn(t.get("fn")) or ""
            if fn.split("::")[-1] not in ("retain", "retain_mut", "extract_if", "drain_filter"):
                continue
            ro = b.operand_origin(t["args"][0])
            if not ro or ro[0] != 1:
                continue                                    # prunes a field of self
            pl = t["args"][1].get("m") or t["args"][1].get("c")
            d = b.single_def(pl["l"]) if pl else None
            if not (d and d[1] != "t" and d[2]["rv"]["k"] == "Agg" and d[2]["rv"].get("ak") == "closure"):
                continue
            caps = set()
            for o in d[2]["rv"]["o"]:
                oo = b.operand_origin(o)
                if oo and oo[0] > b.argc and not [x for x in oo[1] if x not in ("&", "*")]:
                    caps.add(oo[0])
            prunes.append((bi, t, caps))
        for k, (bi, t, caps) in util.ordinal_keys(prunes, lambda it: "%s|prune of %s" % (norm_fn(p).split("::")[-1], "".join(b.operand_origin(it[1]["args"][0])[1]).replace("*", "").replace("&", "").strip("."))):
            n6 += 1
            late = []
            for mb, mt in b.calls():
                mfn = norm_fn(mt.get("fn")) or ""
                if mfn.split("::")[-1] not in ("insert", "extend", "push", "push_back", "remove", "clear", "retain"):
                    continue
                mo = b.operand_origin(mt["args"][0]) if mt.get("args") else None
                if mo and mo[0] in caps and not [x for x in mo[1] if x not in ("&", "*")] and mb != bi and b.can_reach(bi, mb):
                    late.append(mt["sp"])
            ctx.ob("G6", k, not late, t["sp"], "the filter set is final when it is used" if not late else
                   "the set that decides this prune is still modified afterwards (%s): elements added later leave the other containers of the queue but not this one, so the queue's indexes disagree with its contents" % late[0])
    ctx.floor("closure-driven prunes of ChangeQueue fields", n6, 1)
    # ---------------- G7: replacing the whole document drops its queue
    AM = "automerge::automerge::Automerge"
    from .. import callgraph
    cg = callgraph.get(f)
    QEMPTY = CQ + "::is_empty"
    reads_queue = {QEMPTY}
    for _ in range(2):
        for p, r in f.fns.items():
            if r["ckey"] == ("automerge", "lib") and p not in reads_queue and any(norm_fn(c) in reads_queue for c in cg.out.get(p, ())):
                if cfg.body(r).local_ty(0) == "bool":
                    reads_queue.add(norm_fn(p))
    n7 = 0
    for p, r in sorted(f.fns.items()):
        if r["ckey"] != ("automerge", "lib") or r.get("container") != AM or "{closure" in p:
            continue
        b = cfg.body(r)
        if b.argc < 1 or not b.local_ty(1).startswith("&mut") or util.base_ty(b.local_ty(1)) != AM:
            continue
        for bi, blk in enumerate(b.blocks):
            if blk.get("cleanup"):
                continue
            for st in blk["st"]:
                if st["d"]["l"] == 1 and st["d"]["p"] == ["*"] and st["rv"]["k"] == "Use":
                    n7 += 1
                    ctx.analysed_fns.add(p)
                    edges = []
                    for sb, sw in b.switches():
                        src = b.bool_operand_source(sw["op"])
                        if src and src["kind"] == "call" and norm_fn(src["callee"]) in reads_queue:
                            edges += true_edges(b, sb, sw, src["negated"])
                    ok = bool(edges) and b.edges_dominate(edges, bi)
                    ctx.ob("G7", "%s|*self replaced" % norm_fn(p).split("::")[-1], ok, st["sp"], "only when the queue is known to be empty" if ok else
                           "the document (and with it the queue of held changes) is replaced without a test that reads ChangeQueue::is_empty: changes held back for missing dependencies are thrown away")
    ctx.floor("whole-document replacements in Automerge methods", n7, 1)
    check_merge_walk(ctx, f)


def true_edges(b, sb, sw, negated):
    """edges of a bool switch taken when the (un-negated) source is true"""
    want_nonzero = not negated
    zero = [tb for v, tb in sw["targets"] if v == "0"]
    if want_nonzero:
        return [(sb, sw["otherwise"])]
    return [(sb, zero[0])] if zero else []


def check_merge_walk(ctx, f):
    AM = "automerge::automerge::Automerge"
    from .C28 import control_switches_transitive
    GA = AM + "::get_changes_added"
    gb = ctx.body(GA)
    ctx.analysed_fns.add(GA)
    sites = [(bi, t) for bi, t in gb.calls() if (norm_fn(t.get("fn")) or "").split("::")[-1] in ("push", "extend") and "ChangeHash" in " ".join(t.get("argtys", []))
             and any(gb.can_reach(bi, pb) and gb.can_reach(pb, bi) for pb, pt in gb.calls() if (norm_fn(pt.get("fn")) or "").split("::")[-1] == "pop")]
    ctx.floor("collect / follow sites in get_changes_added", len(sites), 2)
    for k, (bi, t) in util.ordinal_keys(sites, lambda it: "get_changes_added|%s" % (norm_fn(it[1].get("fn")) or "?").split("::")[-1]):
        bad = []
        for sb, sw in control_switches_transitive(gb, bi):
            src = gb.bool_operand_source(sw["op"])
            if src and src["kind"] == "discr":
                d = gb.single_def(src["origin"][0])
                if d and d[1] == "t" and (norm_fn(d[2].get("fn")) or "").split("::")[-1] in ("pop", "next"):
                    continue
            if src and src["kind"] == "call":
                c = norm_fn(src["callee"]) or ""
                if c == AM + "::has_change" or (c.split("::")[-1] in ("contains", "insert") and ("Set" in c or "set::" in c)):
                    continue
                if c.startswith("tracing") or "tracing" in c or c.split("::")[-1] in ("enabled", "is_never", "le", "interest", "current"):
                    continue            # the tracing::trace! macro's level checks
            bad.append(util.where(gb, sb))
        ctx.ob("G8", k, not bad, t["sp"], "depends only on the visited set and has_change" if not bad else
               "the walk that decides what a merge brings stops under a further condition (%s): a change this document only holds back is not followed, so its missing ancestors never arrive and it stays held" % bad)
