"""C10 History is immutable and content-addressed — rules R12 (hash provenance) + R10 (closure discipline), hash clause.

Decides: (i) a change's hash is read from Header.hash (Change::hash -> stored.hash -> header.hash ->
field), and every construction of a Header takes `hash` from chunk::hash(chunk_type, data) over the
data the header describes; (ii) chunk::hash feeds SHA-256 with the chunk-type byte and the LEB128
length first, then the data, and returns the digest; ChangeHash values are otherwise constructed only
by the two parsers (from bytes / from hex); (iii) AutoCommit's history getters (get_changes,
get_changes_added, get_last_local_change, get_changes_meta) close the pending transaction first.
Not decided: byte-identity of changes rebuilt by the ChangeCollector, and that get_changes(have)
returns exactly the non-ancestors in dependency order (graph algorithms over runtime data).
"""
from .. import cfg, util, rules, facts
from ..util import callee, decl, norm_fn
from . import C14, C12

HASH_FN = "automerge::storage::chunk::hash"
CH = "automerge::types::ChangeHash"
CH_CTORS = {HASH_FN, "<%s as core::convert::TryFrom<&[u8]>>::try_from" % CH, "<%s as core::str::traits::FromStr>::from_str" % CH}
GETTERS = {"get_changes", "get_changes_added", "get_last_local_change", "get_changes_meta"}


def run(ctx):
    _run10(ctx)
    check_scalar_codes(ctx, ctx.facts())


def _run10(ctx):
    ctx.level = "proof"
    ctx.decides = ("hash accessor chain ends in the Header.hash field; Header.hash is always chunk::hash(type, data); chunk::hash hashes [type, leb(len)] then data with SHA-256 and returns the digest; "
                   "ChangeHash is constructed only in chunk::hash and the two parsers; AutoCommit's history getters close the pending transaction first.")
    ctx.not_decided = "byte-identity of changes reconstructed from the op set; exactness and order of get_changes(have)."
    ctx.rule("R12", "Header.hash provenance is chunk::hash only")
    ctx.rule("R12-chain", "Change::hash() -> storage Change::hash() -> Header::hash() -> self.hash")
    ctx.rule("R12-sha", "chunk::hash: update(header bytes built from type and data.len()) dominates update(data); result is finalize()")
    ctx.rule("R12-ctor", "who-may-construct ChangeHash")
    ctx.rule("R10-close", "AutoCommit history getters are dominated by ensure_transaction_closed")
    f = ctx.facts()
    C14.check_hash_provenance(ctx, f)
    # each Header construction hashes the same data whose length it records
    for p, r in f.fns.items():
        if r["ckey"] != ("automerge", "lib") or r.get("trait_item") == "core::clone::Clone::clone":
            continue
        for blk in r["blocks"]:
            for s in blk["st"]:
                rv = s["rv"]
                if rv["k"] == "Agg" and rv.get("adt") == "automerge::storage::chunk::Header":
                    b = cfg.body(r)
                    hp = b.provenance(rv["o"][rv["fields"].index("hash")], through_calls=True)
                    lp = b.provenance(rv["o"][rv["fields"].index("data_len")], through_calls=True)
                    # the data operand of hash() and of len() share an origin local
                    hcalls = [b.blocks[bi]["t"] for (c, bi) in hp.calls if norm_fn(c) == HASH_FN]
                    lcalls = [b.blocks[bi]["t"] for (c, bi) in lp.calls if norm_fn(c).endswith("::len")]
                    same = bool(hcalls) and bool(lcalls) and any(b.operand_origin(h["args"][1])[0] == b.operand_origin(l["args"][0])[0] for h in hcalls for l in lcalls)
                    ctx.ob("R12", "%s|hash and data_len describe the same data" % norm_fn(p), same, s["sp"], "")
    # accessor chain
    chain = [("automerge::change::Change::hash", "automerge::storage::change::Change::hash"),
             ("automerge::storage::change::Change::hash", "automerge::storage::chunk::Header::hash")]
    for src, dst in chain:
        c = [p for p in f.fns if norm_fn(p) == src]
        if len(c) != 1:
            raise facts.AnchorMissing(src)
        b = ctx.body(c[0])
        rd = util.ret_defs(b)
        ok = len(rd) == 1 and rd[0][1] == "call" and callee(rd[0][2]) == dst
        ctx.ob("R12-chain", "%s -> %s" % (src.split("::", 1)[1], dst.split("::", 1)[1]), ok, b.rec["sp"], "")
    hb = ctx.body("automerge::storage::chunk::Header::hash")
    rd = util.ret_defs(hb)
    ok = len(rd) == 1 and rd[0][1] == "stmt" and rd[0][2]["rv"]["k"] == "Use" and (hb.operand_origin(rd[0][2]["rv"]["o"][0]) or (0, ()))[1][-1:] == (".hash",)
    ctx.ob("R12-chain", "Header::hash returns self.hash", ok, hb.rec["sp"], "")
    # chunk::hash
    b = ctx.body(HASH_FN)
    ups = [(bi, t) for bi, t in b.calls() if norm_fn(t.get("fn")) == "digest::digest::Digest::update"]
    fin = [(bi, t) for bi, t in b.calls() if norm_fn(t.get("fn")) == "digest::digest::Digest::finalize"]
    sha = all("sha2::Sha256" in (t.get("resargs") or t.get("fnargs") or "") or "sha2::" in (t.get("res") or "") or "Sha256" in " ".join(t.get("ga", [])) for _, t in ups)
    ctx.floor("Digest::update calls in chunk::hash", len(ups), 2)
    ok = len(ups) == 2 and len(fin) == 1 and sha
    if ok:
        (b1, t1), (b2, t2) = ups
        if not b.block_dominates(b1, b2):
            (b1, t1), (b2, t2) = (b2, t2), (b1, t1)
        p1 = b.provenance(t1["args"][1], through_calls=True)
        p2 = b.provenance(t2["args"][1], through_calls=True)
        o2 = b.operand_origin(t2["args"][1])
        # first update: the little header built from the type byte and the LEB128 length of data
        hdr_local = (b.operand_origin(t1["args"][1]) or (None,))[0]
        fed = [t for _, t in b.calls() if t["args"] and (b.operand_origin(t["args"][0]) or (None,))[0] == hdr_local]
        fed_names = [norm_fn(t.get("fn")) for t in fed]
        tyb = any(fn == "alloc::vec::Vec::push" and b.provenance(t["args"][1], through_calls=True).depends_on_param(1) for fn, t in zip(fed_names, fed))
        lenb = any(fn == "leb128::write::unsigned" and b.provenance(t["args"][1], through_calls=True).depends_on_param(2) for fn, t in zip(fed_names, fed))
        data_second = o2 is not None and o2[0] == 2 and not p2.calls
        order = b.block_dominates(b1, b2) and b.block_dominates(b2, fin[0][0])
        # push(type) comes before the leb write
        pb = [bi for bi, t in b.calls() if norm_fn(t.get("fn")) == "alloc::vec::Vec::push"]
        lb = [bi for bi, t in b.calls() if norm_fn(t.get("fn")) == "leb128::write::unsigned"]
        order = order and bool(pb) and bool(lb) and b.block_dominates(pb[0], lb[0]) and b.block_dominates(lb[0], b1)
        ok = tyb and lenb and data_second and order
        detail = "type byte: %s, leb(len(data)): %s, data fed second: %s, order: %s" % (tyb, lenb, data_second, order)
    else:
        detail = "expected two SHA-256 update calls and one finalize"
    ctx.ob("R12-sha", "chunk::hash|sha256(type || leb(len) || data)", ok, b.rec["sp"], detail)
    rd = util.ret_defs(b)
    okr = len(rd) == 1 and rd[0][1] == "stmt" and rd[0][2]["rv"].get("adt") == CH
    if okr:
        pv = b.provenance(rd[0][2]["rv"]["o"][0], through_calls=True)
        cs = {norm_fn(c) for c in pv.callees()}
        okr = {c for c in cs if not c.startswith("<")} <= {"digest::digest::Digest::finalize", "core::convert::Into::into", "digest::digest::Digest::new"} and "digest::digest::Digest::finalize" in cs
    ctx.ob("R12-sha", "chunk::hash|returns the digest", okr, b.rec["sp"], "")
    # ChangeHash constructors
    ctors = set()
    for p, r in f.fns.items():
        if r["ckey"][0] not in ("automerge",) or r["ckey"][1] != "lib" or (r.get("trait_item") or "").startswith(("core::clone::Clone", "serde", "core::default")):
            continue
        for blk in r["blocks"]:
            for s in blk["st"]:
                if s["rv"]["k"] == "Agg" and s["rv"].get("adt") == CH:
                    ctors.add(p)
    ctx.floor("ChangeHash constructors", len(ctors), 3)
    for p in sorted(ctors):
        ctx.ob("R12-ctor", "ChangeHash|%s" % norm_fn(p), p in CH_CTORS, f.fns[p]["sp"], "reviewed constructor" if p in CH_CTORS else "a hash is fabricated outside chunk::hash and the two parsers")
    from . import C28
    ctx.rule("R11-fields", "ChangeGraph::insert_actor and remove_actor re-index the same actor-indexed structures (get_changes walks the cached clocks)")
    C28.check_actor_pair(ctx, f)
    # AutoCommit getters close first
    fns = C12.autocommit_fns(f)
    CL = C12.closers(f, fns)
    n = 0
    for p in fns:
        if "SyncWrapper" in p:
            continue
        ab = cfg.body(f.fns[p])
        closes = [bi for bi, t in ab.calls() if callee(t) in CL]
        for k, (bi, t, m) in util.ordinal_keys(C12.doc_calls(ab), lambda it: "%s|%s" % (norm_fn(p), (callee(it[1]) or "?").split("::")[-1])):
            name = (callee(t) or "").split("::")[-1]
            if name in GETTERS:
                n += 1
                ctx.analysed_fns.add(p)
                ok = any(ab.block_dominates(c, bi) for c in closes)
                ctx.ob("R10-close", k, ok, t["sp"], "closes the pending transaction before reading history")
    ctx.floor("AutoCommit history getter call sites", n, 4)
    check_mapper(ctx, f)
    # a change rebuilt from stored ops starts at the counter of the first op that was actually collected for it; the start_op kept in the
    # change-graph metadata is an estimate after a load (max_op - max(deps' max_op)), exact only for non-isolated histories
    ctx.rule("R12-startop", "provenance: StoredChange.start_op in OpEncoderStrategy::finish derives from the collected columns (into_change_cols), not only from the metadata parameter")
    fb = ctx.body("automerge::op_set2::change::collector::OpEncoderStrategy::<'a>::finish")
    aggs = [(bi, st) for bi, blk in enumerate(fb.blocks) for st in blk["st"] if st["rv"]["k"] == "Agg" and (st["rv"].get("adt") or "").endswith("storage::change::Change") and "start_op" in st["rv"].get("fields", [])]
    ctx.floor("StoredChange constructions in OpEncoderStrategy::finish", len(aggs), 1)
    for bi, st in aggs:
        rv = st["rv"]
        pv = fb.provenance(rv["o"][rv["fields"].index("start_op")], through_calls=True)
        from_cols = any(norm_fn(c).endswith("OpEncoderStrategy::into_change_cols") for c in pv.callees())
        ctx.ob("R12-startop", "OpEncoderStrategy::finish|start_op from the collected ops", from_cols, st["sp"], "derives from into_change_cols(..).start_op" if from_cols else
               "start_op of the rebuilt change comes from the change-graph metadata only: after a load that value is an estimate, so a change made in an isolated transaction is rebuilt with other bytes and another hash")


def check_mapper(ctx, f):
    # a change rebuilt from the op set hashes to the original only if its actor table is rebuilt from scratch: the collector shares one
    # ActorMapper across all changes, so the per-change encode step resets it before an encoder's finish() fills it
    ctx.rule("R12-mapper", "must-pass-through: ActorMapper::reset dominates every {VecEncoder, ProgressiveEncoder}::finish that receives a mapper parameter")
    AMAP = "automerge::op_set2::change::ActorMapper"
    n_fin = 0
    for p, r in sorted(f.fns.items()):
        if r["ckey"] != ("automerge", "lib"):
            continue
        sites = []
        for bi, t in f.calls(r):
            tgt = norm_fn(t.get("res") or t.get("fn")) or ""
            if tgt in ("automerge::op_set2::change::collector::VecEncoder::finish", "automerge::op_set2::change::collector::ProgressiveEncoder::finish"):
                sites.append((bi, t))
        if not sites:
            continue
        b = cfg.body(r)
        ctx.analysed_fns.add(p)
        for k, (bi, t) in util.ordinal_keys(sites, lambda it: "%s|%s" % (norm_fn(p), "::".join(norm_fn(it[1].get("res") or it[1].get("fn")).split("::")[-2:]))):
            n_fin += 1
            marg = [a for a, ty in zip(t["args"], t["argtys"]) if util.base_ty(util.strip_refs(ty)) == AMAP]
            mo = b.operand_origin(marg[0]) if marg else None
            resets = [rb for rb, rt in b.calls() if norm_fn(rt.get("res") or rt.get("fn")) == AMAP + "::reset" and mo is not None and (b.operand_origin(rt["args"][0]) or (None,))[0] == mo[0]]
            ok = bool(resets) and any(b.block_dominates(rb, bi) for rb in resets)
            ctx.ob("R12-mapper", k, ok, t["sp"], "mapper.reset() first" if ok else
                   "the shared ActorMapper is handed to the encoder without being reset: actors seen while encoding an earlier change leak into this change's actor table (other_actors), so the rebuilt change has different bytes and a different hash")
    ctx.floor("encoder finish calls receiving the shared mapper", n_fin, 2)


def check_scalar_codes(ctx, f):
    """R12-code: a scalar the format cannot hold is refused where it enters a transaction"""
    ctx.rule("R12-code", "who-must-check: each entry of TransactionInner that turns a caller's value into ops (local_op, do_insert, splice, mark, batch_create_object, batch_init_root_map) calls its check_scalar / check_action / check_value, and the call dominates every call that builds or records an op (the format has four bits for a value's type code)")
    TIp = "automerge::transaction::inner::TransactionInner::"
    ENTRIES = ("local_op", "do_insert", "splice", "mark", "batch_create_object", "batch_init_root_map")
    CHECKS = ("automerge::transaction::inner::check_scalar", "automerge::transaction::inner::check_action", "automerge::transaction::inner::check_value")
    BUILD = ("local_map_op", "local_list_op", "insert_local_op", "inner_splice", "do_insert", "local_op", "batch_bfs", "finish", "append", "splice", "push")
    n = 0
    for e in ENTRIES:
        P = [p for p in f.fns if norm_fn(p) == TIp + e]
        if len(P) != 1:
            raise facts.AnchorMissing(TIp + e)
        b = cfg.body(f.fns[P[0]])
        ctx.analysed_fns.add(P[0])
        checks = [bi for bi, t in cfg.inlined_calls(f, b) and [(s_, t_) for s_, t_, _o, _a in cfg.inlined_calls(f, b)] if (callee(t) or "") in CHECKS]
        builds = [(bi, t) for bi, t in b.calls() if ((callee(t) or "").startswith(TIp) or "BatchInsertion::" in (callee(t) or "") or (callee(t) or "").endswith(("OpSet::splice", "Vec::push"))) and (callee(t) or "").split("::")[-1] in BUILD]
        n += 1
        # a check made per element of a loop over the values (`for v in &values { check_value(v)?; }`) precedes a build when the
        # loop's header dominates the build and the build lies after the loop
        heads = {}
        for c in checks:
            for nb, nt in b.calls():
                if (norm_fn(nt.get("fn")) or "").endswith("Iterator::next") and b.block_dominates(nb, c) and b.can_reach(c, nb):
                    heads[c] = nb

        def covered(bi):
            for c in checks:
                if c == bi or b.block_dominates(c, bi):
                    return True
                if c in heads and b.block_dominates(heads[c], bi) and not b.can_reach(bi, c):
                    return True
            return False
        ok = bool(checks) and all(covered(bi) for bi, _ in builds)
        ctx.ob("R12-code", "%s|value checked before an op is built" % e, ok, b.rec["sp"], "check_* dominates %d op-building calls" % len(builds) if ok else
               "a caller's scalar reaches the op set without the type-code check: ScalarValue::Unknown with a code above 15 is written as a different value, and the committed change differs from the one rebuilt from the op set")
    ctx.floor("value-taking entries of TransactionInner", n, 6)
