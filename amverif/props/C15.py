"""C15 Untrusted bytes and strings never crash the library — rule family R7 (panic discipline) + R6 (validate before trust), partial.

Decides:
 (R7a) every Result::unwrap / expect in shipped code of automerge, hexane and automerge-c is discharged: error type
       uninhabited, io::Error from writing into a Vec<u8>, callee without any Err path, or a reviewed row in
       tables/unwrap_result.tsv; otherwise it is a violation / listed known finding;
 (R7b) in the parse layer (the frozen list of first-touch functions below, closures included) every panic-capable construct —
       BoundsCheck / division asserts, slice and str indexing, split_at / copy_from_slice, explicit panics, Option::unwrap —
       is discharged by a local pattern (constant index in range, divisor guarded, str index from find() on the same string,
       index guarded by a dominating length test) or reviewed in tables/panic_sites.tsv, or is a listed known finding;
 (R7-ovf) every overflow-checked arithmetic operation (present in builds with overflow checks) whose operand is a wire-controlled
       integer — C17's taint: LEB-parsed value, decoder value, field filled from one — has a reviewed bound (tables/overflow_sites.tsv);
 (R6d) outside hexane no trusting streaming decoder of any value type is built over non-literal bytes without a dominating
       validating load of the same bytes.
Not decided: panic-freedom of the apply / index machinery reached after decoding (BatchApply, OpSet, hexane column edits),
arithmetic-overflow panics of debug builds, aborts from allocation failure (C17).
"""
import re
from .. import cfg, util, rules, facts, panics
from ..util import norm_fn, callee
from . import C39, C23

LAYER = [
    r"^automerge::storage::parse::", r"^automerge::storage::chunk::(Chunk::parse|Header::parse|hash$)", r"^<automerge::storage::chunk::ChunkType as core::convert::TryFrom<u8>>",
    r"^automerge::storage::change::Change::(parse|parse_following_header)", r"^automerge::storage::columns::raw_column::(RawColumns|RawColumn)::parse", r"^<automerge::storage::columns::column_specification::",
    r"^automerge::storage::document::Document::parse", r"^automerge::storage::document::compression::decompress",
    r"^automerge::storage::bundle::storage::(BundleStorage::parse_following_header|extract_id_ctr_values|decode_delta_int)", r"^<automerge::storage::bundle::Bundle as core::convert::TryFrom",
    r"^automerge::storage::bundle::builder::(BundleChangeIterInner|OpIterInner)::(try_new|try_next)",
    r"^automerge::sync::(Message::(decode|parse)|MessageVersion::parse|ChunkList::parse|parse_have|MessageFlags::parse_bytes)", r"^automerge::sync::bloom::", r"^<automerge::sync::bloom::BloomFilter as core::convert::TryFrom",
    r"^automerge::sync::state::State::(decode|parse)",
    r"^automerge::cursor::(Cursor::from_str|parse_0)", r"^<automerge::cursor::Cursor as core::convert::TryFrom", r"^<automerge::exid::ExId as core::convert::TryFrom",
    r"^<automerge::types::(ActorId|ChangeHash) as core::(convert::TryFrom|str::traits::FromStr)",
    r"^automerge::automerge::Automerge::(import|import_obj|exid_to_opid|op_cursor_to_opid|load_with_options_and_mark_validation|load_incremental_log_patches)$",
    r"^<automerge::change::Change as core::convert::TryFrom", r"^automerge::change::Change::(new_from_unverified|from_bytes)", r"^automerge::storage::load::(load_changes|load_next_change)",
    r"^automerge::change_graph::ChangeGraphCols::load$", r"^automerge::op_set2::change::batch::import_ops(_to)?$",
]


# functions behind the parse layer in which the byte-mutation triage (findings/d7*.tsv) showed untrusted content reaching a panic: they
# consume decoded-but-semantically-unchecked changes / stored ops, so their constructs are inventoried too
LAYER += [
    r"^automerge::op_set2::change::batch::BatchApply::(apply|import_ops)$", r"^automerge::op_set2::change::batch::Untangler::finish$",
    r"^automerge::op_set2::change::ActorMapper::process_actor$", r"^automerge::op_set2::change::collector::(VecEncoder::add|OpEncoderStrategy::finish)$",
    r"^<automerge::change_graph::ChangeIter<'a> as core::iter::traits::iterator::Iterator>::(next|nth)$",
]

# R7a is split by module: the decode / storage / apply machinery belongs to C15, the API layer (document, transactions, patches, serde, C bindings) to C37
API_MODULES = re.compile(r"^<?(automerge::(automerge|autocommit|autoserde|transaction|patches|hydrate|marks|read|iter|text_diff|text_value|anonymize|clock|query)\b|automerge_core::)")


def r7a_owner(p):
    return "C37" if API_MODULES.match(norm_fn(p)) else "C15"


def in_layer(n):
    n = n.split("::{closure")[0]
    return any(re.search(x, n) for x in LAYER)


def const_of(b, op):
    k = util.op_const(op)
    if k is not None:
        return k.get("v")
    pl = util.op_place(op)
    if pl is not None and not pl["p"]:
        d = b.single_def(pl["l"])
        if d and d[1] != "t" and d[2]["rv"]["k"] == "Use":
            return const_of(b, d[2]["rv"]["o"][0])
    return None


def len_guard(b, bi, idx_op, container_op, strict):
    """is `idx < len(container)` (strict) or `idx <= len(container)` established on every path to block bi by a comparison
    between the index value and a len() of the same container (or the saturating_sub/NonZero idiom)?"""
    io = b.operand_origin(idx_op)
    ic = const_of(b, idx_op)
    co = b.operand_origin(container_op) if container_op is not None else None
    if co is None:
        return False
    co_base = (co[0], tuple(e for e in co[1] if e not in ("&", "*")))
    edges = []
    for sb, sw in b.switches():
        src = b.bool_operand_source(sw["op"])
        if not src:
            continue
        if src["kind"] == "bin" and src["op"] in ("Lt", "Le", "Gt", "Ge"):
            a, c = src["o"]
            for (x, y, flip) in ((a, c, False), (c, a, True)):
                # x is the index side, y the len side
                xo, xc = b.operand_origin(x), const_of(b, x)
                same_idx = (xo is not None and io is not None and xo == io) or (xc is not None and xc == ic)
                pv = b.provenance(y, through_calls=True)
                is_len = any(norm_fn(cc).endswith("::len") for cc in pv.callees()) and any((b.origin(l, p)[0], tuple(e for e in b.origin(l, p)[1] if e not in ("&", "*"))) == co_base for l, p in pv.places)
                if not (same_idx and is_len):
                    continue
                op = src["op"]
                if flip:
                    op = {"Lt": "Gt", "Le": "Ge", "Gt": "Lt", "Ge": "Le"}[op]
                # now: idx OP len
                for truth in (True, False):
                    rel = op if truth else {"Lt": "Ge", "Le": "Gt", "Gt": "Le", "Ge": "Lt"}[op]
                    good = rel == "Lt" or (rel == "Le" and not strict)
                    if good:
                        operand_value = (not truth) if src["negated"] else truth
                        edges.append(rules.bool_switch_edge(b, sb, operand_value))
        elif src["kind"] == "discr" and "NonZero" in (src.get("ty") or ""):
            # Option<NonZeroUsize> from NonZeroUsize::new(idx.saturating_sub(len)) : None edge => idx <= len
            d = b.single_def(src["origin"][0])
            if d and d[1] == "t" and "NonZero" in (d[2].get("fn") or "") and (d[2].get("fn") or "").endswith("::new"):
                pv = b.provenance(d[2]["args"][0], through_calls=True)
                sat = [cb for (cc, cb) in pv.calls if norm_fn(cc).endswith("::saturating_sub")]
                for cb in sat:
                    st = b.blocks[cb]["t"]
                    xo, xc = b.operand_origin(st["args"][0]), const_of(b, st["args"][0])
                    same_idx = (xo is not None and io is not None and xo == io) or (xc is not None and xc == ic)
                    pl = b.provenance(st["args"][1], through_calls=True)
                    is_len = any(norm_fn(cc).endswith("::len") for cc in pl.callees()) and any((b.origin(l, p)[0], tuple(e for e in b.origin(l, p)[1] if e not in ("&", "*"))) == co_base for l, p in pl.places)
                    if same_idx and is_len and not strict:
                        none = [tb for v, tb in sw["targets"] if (src["vars"] or {}).get(v) == "None"]
                        edges.append((sb, none[0] if none else sw["otherwise"]))
    return bool(edges) and b.edges_dominate(edges, bi)


def max_guard(b, bi, idx_op, container_op):
    """`v[i]` where v = vec![..; N] in this function, i is drawn from a collection C, and the function leaves with an error unless
    max(C) < N (the comparison is against the very operand that sized v)"""
    co = b.operand_origin(container_op) if container_op is not None else None
    if co is None:
        return False
    d = b.single_def(co[0])
    if not (d and d[1] == "t" and norm_fn(d[2].get("fn")) == "alloc::vec::from_elem"):
        return False
    n_op = d[2]["args"][1]
    n_origin, n_const = b.operand_origin(n_op), const_of(b, n_op)
    ipv = b.provenance(idx_op, through_calls=True)
    edges = []
    for sb, sw in b.switches():
        src = b.bool_operand_source(sw["op"])
        if not src:
            continue
        if src["kind"] == "bin" and src["op"] in ("Lt", "Le", "Gt", "Ge"):
            for (x, y, flip) in ((src["o"][0], src["o"][1], False), (src["o"][1], src["o"][0], True)):
                xp = b.provenance(x, through_calls=True)
                if not any(norm_fn(c) == "core::iter::traits::iterator::Iterator::max" for c in xp.callees()):
                    continue
                if not (xp.locals & ipv.locals - {0}):
                    continue
                yo, yc = b.operand_origin(y), const_of(b, y)
                if not ((yo is not None and yo == n_origin) or (yc is not None and yc == n_const)):
                    continue
                op = src["op"]
                if flip:
                    op = {"Lt": "Gt", "Le": "Ge", "Gt": "Lt", "Ge": "Le"}[op]
                for truth in (True, False):
                    rel = op if truth else {"Lt": "Ge", "Le": "Gt", "Gt": "Le", "Ge": "Lt"}[op]
                    if rel == "Lt":
                        operand_value = (not truth) if src["negated"] else truth
                        edges.append(rules.bool_switch_edge(b, sb, operand_value))
        elif src["kind"] == "discr" and util.base_ty(src.get("ty") or "") == "core::option::Option":
            dd = b.single_def(src["origin"][0])
            if dd and dd[1] == "t" and norm_fn(dd[2].get("fn")) == "core::iter::traits::iterator::Iterator::max":
                none = [tb for v, tb in sw["targets"] if (src["vars"] or {}).get(v) == "None"]
                edges.append((sb, none[0] if none else sw["otherwise"]))
    has_cmp = any(True for e in edges)
    return has_cmp and len(edges) >= 2 and b.edges_dominate(edges, bi)


def constructs(f, p):
    """panic-capable constructs of one function: [(block, kind, detail, span, terminator)]"""
    r = f.fns[p]
    out = []
    for bi, blk in enumerate(r["blocks"]):
        if blk.get("cleanup"):
            continue
        t = blk["t"]
        if t["k"] == "assert":
            if t["msg"] in ("BoundsCheck", "DivisionByZero", "RemainderByZero"):
                out.append((bi, t["msg"], "", t["sp"], t))
        elif t["k"] == "call":
            fn = norm_fn(t.get("fn")) or ""
            last = fn.split("::")[-1]
            if fn.startswith("core::ops::index::Index"):
                out.append((bi, "index", "%s[%s]" % (util.strip_refs(t["argtys"][0]).split("::")[-1], t["argtys"][1].split("::")[-1]), t["sp"], t))
            elif last in ("split_at", "split_at_mut", "copy_from_slice", "swap_remove", "drain", "split_off") and ("slice" in fn or "Vec" in fn):
                out.append((bi, last, "", t["sp"], t))
            elif last == "remove" and "Vec" in fn:
                out.append((bi, "Vec::remove", "", t["sp"], t))
            elif (t.get("fn") or "") in panics.OPT_UNWRAP:
                out.append((bi, "Option::unwrap", "", t["sp"], t))
            elif "target" not in t and ("panic" in fn or "assert_failed" in fn or "unreachable" in fn or "expect_failed" in fn or "unwrap_failed" in fn):
                out.append((bi, "panic", ",".join(t.get("mac", [])), t["sp"], t))
    return out


def discharge(f, b, bi, kind, t):
    """local patterns; returns reason or None"""
    if kind == "BoundsCheck":
        ln, ix = t["mo"]
        cl, ci = const_of(b, ln), const_of(b, ix)
        if cl is not None and ci is not None and int(ci) < int(cl):
            return "constant index %s into a fixed array of %s" % (ci, cl)
        # index against the runtime length of a local slice: needs a guard
        return None
    if kind in ("DivisionByZero", "RemainderByZero"):
        ok, why = C23.divisor_guarded(b, bi, t)
        return why if ok else None
    if kind == "index":
        recv, arg = t["args"][0], t["args"][1]
        recv_ty = util.strip_refs(t["argtys"][0])
        aty = t["argtys"][1]
        if recv_ty == "str":
            # every bound comes from find()/len() on the same string (plus a one-byte ASCII needle offset)
            pv = b.provenance(arg, through_calls=True)
            cs = {norm_fn(c) for c, _ in pv.decls if c not in cfg.TRANSPARENT}
            ok = cs and all(c in ("core::str::find", "core::str::rfind", "core::str::len", "core::str::strip_prefix", "core::str::strip_suffix") for c in cs)
            if ok:
                ro = b.operand_origin(recv)
                same = True
                for (c, cb) in pv.decls:
                    if norm_fn(c) in ("core::str::find", "core::str::rfind"):
                        fo = b.operand_origin(b.blocks[cb]["t"]["args"][0])
                        same = same and fo is not None and ro is not None and fo[0] == ro[0]
                        needle = util.op_const(b.blocks[cb]["t"]["args"][1])
                        same = same and needle is not None and needle.get("ty") == "char" and int(needle.get("v", "999")) < 128
                if same:
                    return "str range bounds come from find(<ASCII char>) on the same string: char boundaries"
            return None
        if aty.endswith("RangeFull"):
            return "full range"
        # x[..n] / x[n..] / x[a..b] / x[i]
        if aty == "usize":
            if len_guard(b, bi, arg, recv, True):
                return "index < len tested on every path"
            if max_guard(b, bi, arg, recv):
                return "the vector was sized with N and the function leaves unless the maximum of the indexing collection is < N"
            return None
        pl = util.op_place(arg)
        d = b.single_def(pl["l"]) if pl is not None and not pl["p"] else None
        if d and d[1] != "t" and d[2]["rv"]["k"] == "Agg":
            ops = d[2]["rv"]["o"]
            if all(len_guard(b, bi, o, recv, False) or const_of(b, o) == "0" for o in ops):
                return "range bounds <= len tested on every path"
        return None
    if kind in ("split_at", "split_at_mut"):
        return "split point <= len tested on every path" if len_guard(b, bi, t["args"][1], t["args"][0], False) else None
    return None


def guarantees(ctx, f):
    """machine-checked facts that reviewed rows may rely on (`[requires G-…]` in a row's reason): a bound established in another
    function is re-verified on every run, so removing it re-opens every row that cites it"""
    out = {}
    try:
        b = cfg.body(f.fns[[p for p in f.fns if norm_fn(p) == "automerge::storage::bundle::builder::BundleChangeIterInner::try_next"][0]])
    except IndexError:
        return {"G-bundle-max-op": False, "G-bundle-start-op": False}
    errs = {bi for bi in range(b.n)}

    def named(op, name):
        """the value was decoded from the self.<name> column decoder (field name of BundleChangeIterInner, not a local's name)"""
        pv = b.provenance(op, through_calls=True)
        for l, pr in pv.places:
            o = b.origin(l, pr)
            if o[0] == 1 and ("." + name) in o[1]:
                return True
        return False
    g1 = g2 = False
    for sb, sw in b.switches():
        src = b.bool_operand_source(sw["op"])
        if not src or src["kind"] != "bin" or src["op"] not in ("Gt", "Ge", "Lt", "Le"):
            continue
        ks = [const_of(b, o) for o in src["o"]]
        sides = src["o"]
        # which edge leaves with an error? the edge from which no Ok(Some(..)) aggregate of the function is reachable
        def leaves_with_err(tb):
            firsts = util.first_ret_assignments(b, tb)
            return bool(firsts) and all(kind == "stmt" and util.is_err_agg(rec["rv"]) for (_, kind, rec) in firsts)

        def is_u32_max(op):
            if const_of(b, op) == "4294967295":
                return True
            cs = b.provenance(op).consts
            return any((v or "").endswith("u32>::MAX") or v == "4294967295" for _, v in cs) and not b.provenance(op).params
        edges = [tb for _, tb in sw["targets"]] + [sw["otherwise"]]
        if not any(leaves_with_err(tb) for tb in edges):
            continue
        if any(is_u32_max(o) for o in sides) and any(named(o, "max_op") for o in sides):
            g1 = True
        if any(named(o, "start_op") for o in sides) and any(named(o, "max_op") for o in sides):
            g2 = True
    out["G-bundle-max-op"] = g1
    out["G-bundle-start-op"] = g2
    return out


def check_requires(ctx, reason, G):
    """returns the list of guarantees a reviewed reason cites that do not hold"""
    return [g for g in re.findall(r"\[requires (G-[a-z-]+)\]", reason) if not G.get(g, False)]


def check_r7a(ctx, f, owner):
    """shared with C37: Result::unwrap/expect inventory of the modules owned by `owner`"""
    mayfail = panics.MayFail(f)
    table = ctx.table("unwrap_result.tsv")
    rows = panics.result_unwraps(f)
    ctx.floor("Result::unwrap/expect sites in library crates", len(rows), 80)
    auto = 0
    for k, (p, b, bi, t, E, srcs) in util.ordinal_keys(rows, lambda r: panics.key_of(r[0], r[3], r[4], r[5], r[1])):
        if r7a_owner(p) != owner:
            continue
        cl, why = panics.classify_result_unwrap(f, mayfail, p, b, bi, t, E, srcs)
        if cl:
            auto += 1
            ctx.ob("R7a", k, True, t["sp"], "%s: %s" % (cl, why), nontrivial=cl != "vec-writer")
        elif ("R7a|" + k) in table:
            ctx.ob("R7a", k, True, t["sp"], "reviewed: " + table["R7a|" + k], via="table:" + table["R7a|" + k])
        else:
            ctx.ob("R7a", k, False, t["sp"], "the error of %s is discarded with unwrap/expect (error type %s) and the site is not reviewed" % (",".join(sorted({norm_fn(c).split("::")[-1] for c, _ in srcs})) or "a value", E))
    ctx.note("R7a (%s modules): %d sites in the library crates, %d of this owner discharged automatically" % (owner, len(rows), auto))


def run(ctx):
    ctx.decides = ("R7a: every Result::unwrap/expect in automerge, hexane, automerge-c discharged (uninhabited error, Vec<u8> writer, infallible callee, reviewed row) or a listed finding; "
                   "R7b: every panic-capable construct of the parse layer discharged by a local pattern, reviewed, or a listed finding; R6d: no trusting decoder over unvalidated non-literal bytes outside hexane.")
    ctx.not_decided = "panic-freedom of the apply/index machinery after decoding (BatchApply, OpSet, hexane column edits), debug-only arithmetic overflow asserts, allocation-failure aborts and hangs (C17)."
    ctx.rule("R7a", "discarded error channel: Result::unwrap/expect inventory by error type and source callee")
    ctx.rule("R7b", "parse-layer inventory of panic-capable constructs with local discharge patterns")
    ctx.rule("R7-ovf", "overflow-checked arithmetic whose operand is a wire-controlled integer (C17's taint: parsed integer, decoder value, wire-filled field) is reviewed for a bound")
    ctx.rule("R6d", "must-validate-before-trust for every trusting streaming decoder outside hexane")
    ctx.rule("R7-pair", "field pairing behind an expect: ValueState::list_flush expects `replaced` of an exposed value; every construction / update of the patch-state value that can set `expose` also sets `replaced` to Some")
    ctx.rule("R8-actoridx", "Columns::load: every column of actor indexes that goes into the op set is the receiver of an Iterator::all bound check (index < actors.len())")
    f = ctx.facts()
    check_r7a(ctx, f, "C15")
    check_actor_columns(ctx, f)
    check_expose_pair(ctx, f)
    # ---------------- R7b
    ptable = ctx.table("panic_sites.tsv")
    G = guarantees(ctx, f)
    for g, ok in sorted(G.items()):
        ctx.ob("R7-ovf", "guarantee|%s" % g, ok, "", "bound established in BundleChangeIterInner::try_next (comparison whose failing edge returns Err)" if ok else "a bound that reviewed rows rely on is no longer established")
    layer = sorted(p for p, r in f.fns.items() if r["ckey"] == ("automerge", "lib") and in_layer(norm_fn(p)))
    ctx.floor("functions (and closures) in the parse layer", len(layer), 200)
    n = nauto = 0
    for p in layer:
        b = cfg.body(f.fns[p])
        cons = constructs(f, p)
        if cons:
            ctx.analysed_fns.add(p)
        for k, (bi, kind, detail, sp, t) in util.ordinal_keys(cons, lambda c: "%s|%s%s" % (norm_fn(p), c[1], ("(" + c[2] + ")") if c[2] else "")):
            n += 1
            why = discharge(f, b, bi, kind, t)
            if why:
                nauto += 1
                ctx.ob("R7b", k, True, sp, why, nontrivial=kind != "BoundsCheck")
            elif ("R7b|" + k) in ptable:
                broken = check_requires(ctx, ptable["R7b|" + k], G)
                ctx.ob("R7b", k, not broken, sp, ("reviewed: " + ptable["R7b|" + k]) if not broken else "the reviewed reason relies on %s, which no longer holds" % broken, via=("table:" + ptable["R7b|" + k]) if not broken else None)
            else:
                ctx.ob("R7b", k, False, sp, "%s %s in a function that first touches untrusted input is neither discharged by a local pattern nor reviewed" % (kind, detail))
    ctx.floor("panic-capable constructs in the parse layer", n, 40)
    ctx.note("R7b: %d constructs, %d discharged by a local pattern" % (n, nauto))
    # ---------------- R7-ovf: arithmetic on wire-controlled integers (asserts exist in builds with overflow checks: dev facts)
    from . import C17
    T = C17.Taint(f)
    otable = ctx.table("overflow_sites.tsv")
    n_ovf = 0
    for p, r in sorted(f.fns.items()):
        if r["ckey"] != ("automerge", "lib"):
            continue
        b = None
        sites = []
        for bi, blk in enumerate(r["blocks"]):
            t = blk["t"]
            if t["k"] == "assert" and "Overflow" in (t.get("msg") or "") and not blk.get("cleanup"):
                b = b or cfg.body(r)
                sts = [st for st in blk["st"] if st["rv"]["k"] in ("Bin", "Un") and ("Overflow" in (st["rv"].get("op") or "") or st["rv"]["k"] == "Un")]
                ops = sts[-1]["rv"]["o"] if sts else []
                why = []
                for o in ops:
                    if util.op_const(o) is None:
                        why += T.sources(b, o)[0]
                if why:
                    sites.append((bi, t, sorted(set(why))))
        for k, (bi, t, why) in util.ordinal_keys(sites, lambda s_: "%s|%s" % (norm_fn(p), s_[1]["msg"])):
            n_ovf += 1
            if ("R7-ovf|" + k) in otable:
                broken = check_requires(ctx, otable["R7-ovf|" + k], G)
                ctx.ob("R7-ovf", k, not broken, t["sp"], ("reviewed: " + otable["R7-ovf|" + k]) if not broken else "the reviewed reason relies on %s, which no longer holds" % broken, via=("table:" + otable["R7-ovf|" + k]) if not broken else None)
            else:
                ctx.ob("R7-ovf", k, False, t["sp"], "checked arithmetic on a wire-controlled integer (%s): panics in builds with overflow checks, wraps otherwise" % "; ".join(why[:2]))
    if ctx.config == "dev":
        ctx.floor("overflow-checked operations on wire-controlled integers (dev facts)", n_ovf, 6)
    # ---------------- R6d
    sites = []
    for p, r in sorted(f.fns.items()):
        if r["ckey"][0] == "hexane" or r["ckey"][1] == "bin":
            continue
        b = None
        for bi, t in f.calls(r):
            if norm_fn(t.get("fn")) in C39.TRUSTING:
                b = b or cfg.body(r)
                sites.append((p, b, bi, t))
    ctx.floor("trusting decoder sites outside hexane", len(sites), 20)
    dtable = ctx.table("trusting_decoders.tsv")
    for k, (p, b, bi, t) in util.ordinal_keys(sites, lambda s: "%s|%s<%s>" % (norm_fn(s[0]), norm_fn(s[3]["fn"]).split("::")[-1], (s[3].get("ga") or ["?"])[0].replace("core::option::Option", "Option").replace("automerge::op_set2::types::", "").replace("automerge::op_set2::meta::", "").replace("alloc::string::", ""))):
        if C39.literal_empty(b, t["args"][0]):
            ctx.ob("R6d", k, True, t["sp"], "over a literal empty slice", nontrivial=False)
            continue
        ok, why = C39.dominated_by_validation(b, bi, t)
        if not ok and ("R6d|" + k) in dtable:
            ctx.ob("R6d", k, True, t["sp"], "reviewed: " + dtable["R6d|" + k], via="table:" + dtable["R6d|" + k])
        else:
            ctx.ob("R6d", k, ok, t["sp"], why)



def check_actor_columns(ctx, f):
    """actor indexes read from a document chunk index the actor table (ActorMapper, clocks, ..): each loaded column of them is range-checked"""
    CL = "automerge::op_set2::columns::Columns::load"
    b = ctx.body(CL)
    ctx.analysed_fns.add(CL)
    is_col = lambda l: "ActorIdx" in b.local_ty(l) and b.local_ty(l).startswith("hexane::column::Column<")
    cols = {}
    for bi, blk in enumerate(b.blocks):
        for st in blk["st"]:
            rv = st["rv"]
            if rv["k"] == "Agg" and (rv.get("adt") or "").endswith("op_set2::columns::Columns"):
                for fld, o in zip(rv.get("fields", []), rv["o"]):
                    ls = {l for l in b.provenance(o, through_calls=False).locals if is_col(l)}
                    if ls:
                        cols[fld] = ls
    ctx.floor("actor-index columns stored into Columns by Columns::load", len(cols), 4)
    checked = set()
    for bi, t in b.calls():
        if (norm_fn(t.get("fn")) or "").endswith("Iterator::all"):
            checked |= {l for l in b.provenance(t["args"][0], through_calls=True).locals if is_col(l)}
    for fld, ls in sorted(cols.items()):
        ok = bool(ls & checked)
        ctx.ob("R8-actoridx", "Columns::load|%s range-checked" % fld, ok, b.rec["sp"], "receiver of an all(index < actors.len()) check" if ok else
               "the actor indexes of column %s are never compared with the size of the actor table: a document naming an actor outside its table is accepted and indexes out of bounds later (ActorMapper / clocks)" % fld)



def check_expose_pair(ctx, f):
    """`(Some(d), None) if d.expose => d.replaced.expect(..)` in the text branch of list_flush: the invariant expose => replaced.is_some() is
    established where the value is built"""
    OV = "automerge::op_set2::change::batch::OpValue"
    n = 0
    for p, r in sorted(f.fns.items()):
        if r["ckey"] != ("automerge", "lib") or "op_set2::change::batch::" not in p or " as core::clone::Clone>" in p:
            continue
        b = None
        for bi, blk in enumerate(r["blocks"]):
            if blk.get("cleanup"):
                continue
            for st in blk["st"]:
                rv = st["rv"]
                if rv["k"] == "Agg" and rv.get("adt") == OV and "expose" in rv.get("fields", []):
                    b = b or cfg.body(r)
                    n += 1
                    ctx.analysed_fns.add(p)
                    eo = rv["o"][rv["fields"].index("expose")]
                    k = util.op_const(eo)
                    if k is not None and k.get("v") == "0":
                        ctx.ob("R7-pair", "%s|OpValue built with expose = false" % norm_fn(p).split("::")[-1], True, st["sp"], "never exposed here", nontrivial=False)
                        continue
                    ro = rv["o"][rv["fields"].index("replaced")]
                    pv = b.provenance(ro, through_calls=True)
                    lit_none_only = (("core::option::Option", "None") in pv.aggs) and not any(v == "Some" for a, v in pv.aggs if a == "core::option::Option") and not any((norm_fn(c) or "").split("::")[-1] in ("then", "then_some") for c in pv.callees())
                    # tied to the same condition: `expose.then(..)`
                    tied = any((norm_fn(c) or "").split("::")[-1] in ("then", "then_some") for c in pv.callees()) and bool(b.provenance(eo, through_calls=False).locals & pv.locals)
                    ok = not lit_none_only and (tied or any(v == "Some" for a, v in pv.aggs if a == "core::option::Option"))
                    ctx.ob("R7-pair", "%s|OpValue built with a computed expose flag" % norm_fn(p).split("::")[-1], ok, st["sp"],
                           "replaced is Some whenever expose is set (same condition)" if ok else
                           "a value can be marked exposed while `replaced` is None: ValueState::list_flush expects the replaced value of an exposed text value and panics (merge of a change deleting the losing value of a text conflict)")
    ctx.floor("OpValue constructions in the patch-state machinery", n, 1)
    # the in-place update: expose = true is stored together with replaced = Some(..)
    EX = [p for p in f.fns if norm_fn(p).endswith("batch::OpValueOption::expose")]
    if not EX:
        raise facts.AnchorMissing("OpValueOption::expose")
    eb = ctx.body(EX[0])
    sets_e = sets_r = False
    for blk in eb.blocks:
        for st in blk["st"]:
            pr = "".join(st["d"]["p"])
            if pr.endswith(".expose"):
                sets_e = True
            if pr.endswith(".replaced"):
                rv = st["rv"]
                if rv["k"] == "Agg" and rv.get("variant") == "Some":
                    sets_r = True
                elif rv.get("o"):
                    pv = eb.provenance(rv["o"][0], through_calls=False)
                    sets_r = sets_r or (("core::option::Option", "Some") in pv.aggs and ("core::option::Option", "None") not in pv.aggs)
    ctx.ob("R7-pair", "OpValueOption::expose|sets both fields", sets_e and sets_r, eb.rec["sp"], "expose = true and replaced = Some(..)" if sets_e and sets_r else "expose is set without a replaced value")
