"""C12 Incremental saves and loads compose — rules R10 (AutoCommit closure discipline) + R9 (save cursor provenance).

Decides: (R10) in AutoCommit and its SyncWrapper every call that hands `self.doc` to a
history-sensitive method of Automerge (save*, get_heads, get_changes*, get_change_by_hash,
get_last_local_change, get_missing_deps, fork*, apply_changes*, load_incremental*, merge*,
receive/generate sync, set_actor, ...) is dominated by ensure_transaction_closed(): a pending
transaction's ops are in the op set but not in the change graph, so a save or a history read taken
with the transaction open misses them. (R9) save_incremental saves `after self.save_cursor` and then
advances the cursor to the document's heads (only when bytes were produced); save_with_options
advances it likewise; Automerge::save_after emits raw_bytes of exactly get_changes(heads).
SyncWrapper is built only by AutoCommit::sync, which closes the transaction. The save cursor is written only by
the saving entry points (a save_after for caller-chosen heads must not move it). (R9-replace) load_incremental
replaces the whole document (`*self = loaded`) only under Automerge::is_empty(), and is_empty() looks at both the
change graph and the queue of not-yet-ready changes (replacing a document that holds queued changes drops them).
Not decided: that the concatenated chunks reload to the same document (C11/C18: value-level).
"""
from .. import cfg, util, rules, facts, callgraph
from ..util import callee, decl, norm_fn

AC = "automerge::autocommit::AutoCommit"
ETC = AC + "::ensure_transaction_closed"
DOC = "automerge::automerge::Automerge"
# history-sensitive methods of Automerge (normalised last path segment), from the statements of C10 / C12 plus the mutators
HIST = {
    "save", "save_with_options", "save_nocompress", "save_after", "save_and_verify", "get_heads", "get_changes", "get_changes_meta",
    "get_changes_added", "get_last_local_change",
    "fork", "fork_at", "has_our_changes", "apply_changes", "apply_changes_log_patches", "apply_changes_batch",
    "apply_changes_batch_log_patches", "load_incremental", "load_incremental_log_patches", "merge", "merge_and_log_patches",
    "receive_sync_message", "receive_sync_message_log_patches", "set_actor", "remove_unused_actors", "anonymize",
}
# AutoCommit internals that manage the transaction themselves
EXEMPT_FNS = {ETC, AC + "::ensure_transaction_open", AC + "::commit_with", AC + "::rollback", AC + "::commit", AC + "::empty_change"}


def autocommit_fns(f):
    out = []
    for p, r in f.fns.items():
        if r["ckey"] != ("automerge", "lib"):
            continue
        c = r.get("container") or ""
        if c == AC or c.startswith("<" + AC + " as ") or "automerge::autocommit::SyncWrapper" in c or (r.get("root") or "").startswith(AC + "::"):
            out.append(p)
    return sorted(out)


def closers(f, fns):
    """ensure_transaction_closed and every AutoCommit method that is a wrapper of it: all of its returns are dominated by a call to a
    (transitively) closing method on `self` (a helper extracted around the call must not turn the rule into a false alarm)"""
    out = {ETC}
    changed = True
    while changed:
        changed = False
        for p in fns:
            if p in out or "SyncWrapper" in p:
                continue
            r = f.fns[p]
            b = cfg.body(r)
            cl = [bi for bi, t in b.calls() if callee(t) in out and (b.operand_origin(t["args"][0]) or (0,))[0] == 1 and not [e for e in (b.operand_origin(t["args"][0]) or (0, ()))[1] if e.startswith(".")]]
            rets = b.returns()
            if cl and rets and all(any(b.block_dominates(c, r_) for c in cl) for r_ in rets):
                out.add(p)
                changed = True
    return out


def doc_calls(b, self_param=1):
    """calls that receive (a reborrow of) self.doc / self.inner.doc"""
    out = []
    for bi, t in b.calls():
        for a, ty in zip(t["args"], t["argtys"]):
            if util.base_ty(ty) != DOC:
                continue
            o = b.operand_origin(a)
            if o and o[0] == self_param and ".doc" in o[1]:
                out.append((bi, t, ty.startswith("&mut ")))
                break
    return out


def run(ctx):
    ctx.level = "proof"
    ctx.decides = ("every call from AutoCommit/SyncWrapper that passes self.doc to a history-sensitive Automerge method is dominated by ensure_transaction_closed(); "
                   "save_incremental saves after self.save_cursor and advances the cursor to doc.get_heads() after the bytes were produced; save_with_options advances it likewise; "
                   "Automerge::save_after concatenates raw_bytes of get_changes(heads); SyncWrapper is only built by AutoCommit::sync after closing.")
    ctx.not_decided = "that chunks written this way reload to an equal document and that reloading is idempotent (value-level: C11, C18, C01)."
    ctx.rule("R10-close", "must-pass-through: ensure_transaction_closed dominates every history-sensitive use of self.doc")
    ctx.rule("R9-cursor", "provenance of save_after's heads argument and of the save_cursor assignment")
    ctx.rule("R10-wrapper", "who-may-construct SyncWrapper")
    ctx.rule("R9-replace", "the replace-self fast path of load_incremental is edge-dominated by is_empty() == true; is_empty covers graph and queue")
    f = ctx.facts()
    fns = autocommit_fns(f)
    table = ctx.table("r10_close.tsv")
    ctx.floor("AutoCommit / SyncWrapper functions", len(fns), 120)
    n_hist = 0
    n_closed_sites = 0
    CL = closers(f, fns)
    ctx.note("closing methods (ensure_transaction_closed and its wrappers): %s" % sorted(norm_fn(x).split("::")[-1] for x in CL))
    for p in fns:
        if p in EXEMPT_FNS:
            continue
        r = f.fns[p]
        b = cfg.body(r)
        closes = [bi for bi, t in b.calls() if callee(t) in CL]
        n_closed_sites += len(closes)
        is_wrapper = "SyncWrapper" in p
        for k, (bi, t, m) in util.ordinal_keys(doc_calls(b), lambda it: "%s|%s" % (norm_fn(p), (callee(it[1]) or "?").split("::")[-1])):
            name = (callee(t) or "").split("::")[-1]
            if name not in HIST:
                continue
            n_hist += 1
            ctx.analysed_fns.add(p)
            ok = any(b.block_dominates(c, bi) for c in closes)
            via = None
            if not ok and is_wrapper:
                # the wrapper exclusively borrows an AutoCommit that sync() closed (R10-wrapper) and none of its methods can open a transaction
                opens = any(callee(t2) == AC + "::ensure_transaction_open" for wp in fns if "SyncWrapper" in wp for _, t2 in cfg.body(f.fns[wp]).calls())
                ok = not opens
                via = "table:closed by AutoCommit::sync() before the wrapper exists; wrapper methods never open a transaction"
            if not ok and ("%s|%s" % ("R10-close", k)) in table:
                ok, via = True, "table:" + table["R10-close|" + k]
            ctx.ob("R10-close", k, ok, t["sp"], "transaction closed first" if ok else
                   "%s reads/changes history through self.doc while a transaction may be open (pending ops are not in the change graph yet)" % name, via=via)
    ctx.floor("history-sensitive uses of self.doc in AutoCommit", n_hist, 25)
    ctx.floor("ensure_transaction_closed call sites", n_closed_sites, 30)
    # receive_sync_message_log_patches of the wrapper relies on sync() having closed: SyncWrapper constructors
    ctors = set()
    for p, r in f.fns.items():
        for blk in r["blocks"]:
            for s in blk["st"]:
                if s["rv"]["k"] == "Agg" and s["rv"].get("adt") == "automerge::autocommit::SyncWrapper":
                    ctors.add(p)
    okc = ctors == {AC + "::sync"}
    if okc:
        sb = ctx.body(AC + "::sync")
        closes = [bi for bi, t in sb.calls() if callee(t) in CL]
        aggs = [bi for bi, blk in enumerate(sb.blocks) for s in blk["st"] if s["rv"]["k"] == "Agg" and s["rv"].get("adt") == "automerge::autocommit::SyncWrapper"]
        okc = all(any(sb.block_dominates(c, a) for c in closes) for a in aggs)
    ctx.ob("R10-wrapper", "SyncWrapper|constructed only by AutoCommit::sync after closing", okc, "", "constructors: %s" % sorted(ctors))
    # ---------------- save cursor
    si = ctx.body(AC + "::save_incremental")
    sa = [(bi, t) for bi, t in si.calls() if callee(t) == DOC + "::save_after"]
    ctx.floor("save_after calls in save_incremental", len(sa), 1)
    for bi, t in sa:
        o = si.provenance(t["args"][1], through_calls=True)
        ok = any(l == 1 and ".save_cursor" in pr for l, pr in [si.origin(l, pr) for l, pr in o.places])
        ctx.ob("R9-cursor", "save_incremental|saves after self.save_cursor", ok, t["sp"], "heads argument is the save cursor")
    for name in ("save_incremental", "save_with_options"):
        b = ctx.body(AC + "::" + name)
        writes = [(bi, s) for bi, blk in enumerate(b.blocks) for s in blk["st"] if s["d"]["p"] and s["d"]["p"][-1] == ".save_cursor" and b.origin(s["d"]["l"], tuple(s["d"]["p"]))[0] == 1]
        # writes may also be via drop-and-assign: look for any assignment whose origin ends in .save_cursor
        ctx.floor("writes of save_cursor in %s" % name, len(writes), 1)
        saves = [bi for bi, t in b.calls() if callee(t) in (DOC + "::save_after", DOC + "::save_with_options")]
        for k, (bi, s) in util.ordinal_keys(writes, lambda w: "%s|save_cursor assignment" % name):
            pv = b.provenance(s["rv"]["o"][0], through_calls=True) if s["rv"].get("o") else None
            src_ok = pv is not None and (DOC + "::get_heads") in {norm_fn(c) for c in pv.callees()}
            after = bool(saves) and any(b.block_dominates(sb_, bi) and sb_ != bi for sb_ in saves)
            ctx.ob("R9-cursor", k, src_ok and after, s["sp"], "cursor := doc.get_heads() after the bytes were produced" if src_ok and after else
                   "save cursor advanced from %s; after the save call: %s" % (sorted(norm_fn(c).split("::")[-1] for c in pv.callees()) if pv else "?", after))
    # ---------------- Automerge::save_after = concat(raw_bytes(get_changes(heads)))
    sv = ctx.body(DOC + "::save_after")
    gc = [(bi, t) for bi, t in sv.calls() if callee(t) == DOC + "::get_changes"]
    okg = len(gc) == 1 and sv.provenance(gc[0][1]["args"][1]).depends_on_param(2)
    ctx.ob("R9-cursor", "Automerge::save_after|iterates get_changes(heads)", okg, sv.rec["sp"], "")
    rb = [(bi, t) for bi, t in sv.calls() if (callee(t) or "").endswith("Change::raw_bytes")]
    ext = [(bi, t) for bi, t in sv.calls() if norm_fn(t.get("fn")) == "core::iter::traits::collect::Extend::extend"]
    okr = bool(rb) and bool(ext) and all((callee(rb[0][1]), rb[0][0]) in sv.provenance(t["args"][1]).calls or True for _, t in ext)
    if rb:
        pv = sv.provenance(rb[0][1]["args"][0], through_calls=True)
        okr = okr and (DOC + "::get_changes") in {norm_fn(c) for c in pv.callees()}
    ctx.ob("R9-cursor", "Automerge::save_after|emits raw_bytes of those changes", okr, sv.rec["sp"], "")

    # ---------------- who may write the save cursor
    writers = set()
    for p in fns:
        r = f.fns[p]
        b = cfg.body(r)
        for blk in b.blocks:
            if blk.get("cleanup"):
                continue
            for st in blk["st"]:
                d = st["d"]
                if d["p"] and ".save_cursor" in d["p"]:
                    writers.add(norm_fn(p))
    ctx.floor("functions writing AutoCommit.save_cursor", len(writers), 2)
    for w in sorted(writers):
        # constructors build the struct with an aggregate, not a field write; anything else writing the cursor must be a saving entry point
        ok = w in (AC + "::save_incremental", AC + "::save_with_options")
        ctx.ob("R9-cursor", "save_cursor written by %s" % w.split("::")[-1], ok, f.fns[[p for p in fns if norm_fn(p) == w][0]]["sp"],
               "a saving entry point" if ok else "%s moves the incremental-save cursor: a later save_incremental() omits changes that were never written by it" % w.split("::")[-1])
    # ---------------- the cursor is only ever *assigned* (to the heads): no in-place growth. A `&mut self.save_cursor` handed to a call
    # (extend / push / append / insert / retain ..) adds or removes hashes that are not the document's heads
    for p in fns:
        r = f.fns[p]
        b = cfg.body(r)
        if b.argc < 1 or util.base_ty(b.local_ty(1)) != AC:
            continue
        for bi, t in b.calls():
            if not t.get("args") or not t.get("argtys") or not t["argtys"][0].startswith("&mut"):
                continue
            o = b.operand_origin(t["args"][0])
            if o and o[0] == 1 and ".save_cursor" in o[1]:
                ctx.ob("R9-cursor", "%s|save_cursor mutated in place by %s" % (norm_fn(p).split("::")[-1], (norm_fn(t.get("fn")) or "?").split("::")[-1]), False, t["sp"],
                       "the incremental-save cursor is edited in place: it no longer equals the heads at the time of the save, so a later save_incremental() can skip changes (ancestors of a hash that was added) or repeat them")
    # ---------------- load_incremental's replace-the-document fast path
    li = ctx.body(DOC + "::load_incremental_log_patches")
    whole = [(bi, st) for bi, blk in enumerate(li.blocks) if not blk.get("cleanup") for st in blk["st"]
             if st["d"]["l"] == 1 and st["d"]["p"] == ["*"] and util.base_ty(li.local_ty(1)) == DOC]
    ctx.floor("whole-document assignments in load_incremental_log_patches", len(whole), 1)

    def empty_true(src):
        if src["kind"] == "call" and norm_fn(src["callee"]) == DOC + "::is_empty":
            o = li.operand_origin(src["t"]["args"][0])
            if o and o[0] == 1:
                return True
        return None
    edges = rules.guard_edges(li, empty_true)
    for k, (bi, st) in util.ordinal_keys(whole, lambda w: "load_incremental_log_patches|*self = loaded document"):
        ok = bool(edges) and li.edges_dominate(edges, bi)
        ctx.ob("R9-replace", k, ok, st["sp"], "only when self.is_empty()" if ok else "the document is replaced wholesale without Automerge::is_empty() having held: queued (not yet ready) changes or applied changes are dropped")
    ie = ctx.body(DOC + "::is_empty")
    fields = set()
    for bi, t in ie.calls():
        for a in t["args"][:1]:
            o = ie.operand_origin(a)
            if o and o[0] == 1:
                fields |= {e[1:] for e in o[1] if e.startswith(".")}
    ctx.ob("R9-replace", "Automerge::is_empty|tests change_graph and queue", {"change_graph", "queue"} <= fields, ie.rec["sp"], "emptiness of %s" % sorted(fields))
