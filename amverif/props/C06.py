"""C06 Failed calls leave the document unchanged — rule R4 (error-after-mutation).

Decides: in the apply path (apply_changes*, apply_changes_batch*, load_incremental*, merge*, the sync receive path and
BatchApply) and in the transaction operations C03 lists, no Err return is reachable after a call that mutated document
state (change queue, actor table, history, op set, pending ops), except for pairs that are discharged automatically
(the callee whose error is propagated cannot fail; the same fallible query was already evaluated successfully before the
mutation) or reviewed as infeasible in tables/eam.tsv. Pairs confirmed as real leftovers are listed as known findings.
Not decided: that validation rejects everything that should be rejected, nor "no sequence of calls leaves an unsaveable document".
"""
from .. import cfg, util, facts, eam
from ..util import norm_fn, callee
from . import C03

PRIM = {
    "automerge::change_queue::ChangeQueue::extend", "automerge::change_queue::ChangeQueue::remove_actor_branch_from",
    "automerge::change_queue::ChangeQueue::pop_topo_sorted_ready",
    "automerge::automerge::Automerge::insert_actor", "automerge::automerge::Automerge::put_actor", "automerge::automerge::Automerge::put_actor_ref",
    "automerge::automerge::Automerge::update_history", "automerge::automerge::Automerge::remove_actor",
    "automerge::op_set2::op_set::OpSet::splice", "automerge::op_set2::op_set::OpSet::add_succ", "automerge::op_set2::op_set::OpSet::insert_actor",
    "automerge::change_graph::ChangeGraph::add_change",
}
ENTRY_NAMES = {
    "automerge::automerge::Automerge::apply_changes", "automerge::automerge::Automerge::apply_changes_log_patches",
    "automerge::op_set2::change::batch::apply_changes_batch", "automerge::op_set2::change::batch::apply_changes_batch_log_patches",
    "automerge::automerge::Automerge::load_incremental", "automerge::automerge::Automerge::load_incremental_log_patches",
    "automerge::automerge::Automerge::merge", "automerge::automerge::Automerge::merge_and_log_patches",
    "automerge::sync::receive_sync_message_inner",
}


def apply_scope(f):
    N = norm_fn
    return {p: r for p, r in f.fns.items() if r["ckey"] == ("automerge", "lib") and (N(p).startswith("automerge::op_set2::change::batch::") or N(p) in ENTRY_NAMES)}


def run(ctx):
    ctx.decides = ("apply path and the listed transaction operations: every (mutation, later Err return) pair is discharged automatically, reviewed as infeasible, or listed as a known finding; "
                   "a patch log is validated before the queue or actor table is touched.")
    ctx.not_decided = "completeness of validation; unsaveable-document freedom over arbitrary call sequences; partial application inside reconciliation / batch construction calls (C27)."
    ctx.rule("R4", "error-after-mutation: no Err exit reachable from a mutation point (bottom-up summaries over the apply path and the transaction layer)")
    ctx.rule("R4-prevalidate", "the fallible patch-log migration dominates every mutation in apply_changes_batch_log_patches")
    f = ctx.facts()
    check_spans_typecheck(ctx, f)
    table = ctx.table("eam.tsv")
    # ---- apply path
    fns = apply_scope(f)
    ctx.floor("functions in the apply path", len(fns), 60)
    found = {norm_fn(p) for p in fns}
    missing = ENTRY_NAMES - found
    if missing:
        raise facts.AnchorMissing(sorted(missing)[0])
    E = eam.Eam(f, fns, PRIM)
    ctx.floor("mutating functions in the apply path", len(E.Mset), 6)
    n = C03.report(ctx, f, fns, E, set(fns), table)
    for p in sorted(fns):
        if norm_fn(p) in ENTRY_NAMES:
            ctx.ob("R4", "%s|analysed" % norm_fn(p), True, fns[p]["sp"], "summary: %s" % ("has reviewed / known pairs" if p in E.EAM else "no error exit reachable after a mutation"), nontrivial=p in E.Mset)
    # ---- the reason given in eam.tsv for BatchApply::apply rests on this: the patch log is migrated before any mutation
    ap = [p for p in fns if norm_fn(p) == "automerge::op_set2::change::batch::apply_changes_batch_log_patches"][0]
    ab = cfg.body(fns[ap])
    mig = [bi for bi, t in ab.calls() if callee(t) == "automerge::patches::patch_log::PatchLog::migrate_actors"]
    muts = [mb for (mb, what, kind) in E.mut_sites(ap, E.Mset)]
    okp = bool(mig) and all(any(ab.block_dominates(m, mb) and m != mb for m in mig) for mb in muts)
    # its error must exit: the call's result goes through `?`
    exits = [eb for (eb, origin) in eam.err_exits(ab) if origin in mig]
    ctx.ob("R4-prevalidate", "apply_changes_batch_log_patches|patch log migrated before any mutation", okp and bool(exits), fns[ap]["sp"],
           "migrate_actors(&self.ops.actors)? dominates %d mutation sites" % len(muts) if okp and exits else "the patch log is no longer validated before the queue / actor table are touched (BatchApply::apply can then fail half way)")
    callers = {norm_fn(x).split("::{closure")[0] for c, xs in __import__("amverif.callgraph", fromlist=["get"]).get(f).inn.items() if norm_fn(c) == "automerge::op_set2::change::batch::BatchApply::apply" for x in xs}
    ctx.ob("R4-prevalidate", "BatchApply::apply|single caller", callers == {norm_fn(ap)}, "", "callers %s" % sorted(callers))
    # ---- the known finding (a rejected duplicate of an *applied* (actor, seq) prunes the queue before the error) is keyed by its call
    # site; its extent is pinned here so that a wider trigger is a new report: the prune runs only on the true edge of
    # Automerge::has_actor_seq(c) (the duplicate is in the applied history), never for a duplicate that is merely queued
    ctx.rule("R4-prune-guard", "edge dominance: in apply_changes_batch_log_patches the queue prune before a DuplicateSeqNumber error is dominated by the true edge of Automerge::has_actor_seq alone")
    prunes = [(bi, t) for bi, t in ab.calls() if callee(t) == "automerge::change_queue::ChangeQueue::remove_actor_branch_from"]
    for k, (bi, t) in util.ordinal_keys(prunes, lambda it: "apply_changes_batch_log_patches|remove_actor_branch_from"):
        edges = []
        for sb, sw in ab.switches():
            src = ab.bool_operand_source(sw["op"])
            if src and src["kind"] == "call" and norm_fn(src["callee"]) == "automerge::automerge::Automerge::has_actor_seq":
                zero = [tb for v, tb in sw["targets"] if v == "0"]
                edges.append((sb, zero[0]) if src["negated"] and zero else (sb, sw["otherwise"]))
        ok = bool(edges) and ab.edges_dominate(edges, bi)
        ctx.ob("R4-prune-guard", k, ok, t["sp"], "only for a duplicate of an applied (actor, seq)" if ok else
               "the queue is pruned on a path where the rejected change does not duplicate an applied (actor, seq): a failed apply_changes now drops held changes in more cases than the known finding covers")
    # ---- transaction layer (same rule instances as C03)
    tf = C03.scope_fns(f)
    TE = eam.Eam(f, tf, C03.PRIM, C03.pending_push)
    entries = [C03.TI + e for e in C03.ENTRIES]
    inscope = C03.reachable_from(f, tf, entries)
    n2 = C03.report(ctx, f, tf, TE, inscope, table)
    ctx.note("own pairs examined: apply path %d, transaction layer %d" % (n, n2))
    ctx.floor("own (mutation, error) pairs examined", n + n2, 8)


def check_spans_typecheck(ctx, f):
    """R4-typecheck: update_spans rejects a non-text object before its first edit"""
    ctx.rule("R4-typecheck", "text_diff::myers_block_diff: every call that edits through the transaction (the diff run, update_block, splice) is edge-dominated by the `object is a Text` test; the other edge returns InvalidOp")
    P = [p for p in f.fns if norm_fn(p) == "automerge::text_diff::myers_block_diff"]
    if len(P) != 1:
        raise facts.AnchorMissing("text_diff::myers_block_diff")
    b = cfg.body(f.fns[P[0]])
    ctx.analysed_fns.add(P[0])
    is_text = []
    for sb, sw in b.switches():
        src = b.bool_operand_source(sw["op"])
        zero = [tb for v, tb in sw["targets"] if v == "0"]
        if src and src["kind"] == "call" and (norm_fn(src["callee"]) or "").split("::")[-1] in ("ne", "eq") and any("ObjType" in ty for ty in src["t"].get("argtys", [])):
            ne = (norm_fn(src["callee"]) or "").split("::")[-1] == "ne"
            neg = src["negated"] != ne          # True: the `otherwise` edge means "not text"
            is_text += ([(sb, zero[0])] if zero else []) if neg else [(sb, sw["otherwise"])]
        elif src and src["kind"] == "discr" and "ObjType" in (src.get("ty") or ""):
            is_text += [(sb, tb) for v, tb in sw["targets"] if (src["vars"] or {}).get(v) == "Text"]
    edits = [(bi, t) for bi, t in b.calls() if (callee(t) or "").startswith("automerge::text_diff::myers::diff") or (callee(t) or "").startswith("automerge::transaction::inner::TransactionInner::")
             or (callee(t) or "").endswith("text_diff::spans_as_grapheme")]
    ctx.floor("reads / edits in myers_block_diff", len(edits), 2)
    for k, (bi, t) in util.ordinal_keys(edits, lambda it: "myers_block_diff|%s" % (callee(it[1]) or "").split("::")[-1]):
        ok = any(b.edges_dominate([e], bi) for e in is_text)
        ctx.ob("R4-typecheck", k, ok, t["sp"], "only on a text object" if ok else
               "update_spans starts reading / editing before the object type is known to be Text: on a list its maps are taken for block markers and rewritten, and the error that follows leaves those edits in the transaction")
