"""C38 Actor sequence numbers stay unique — rule R3 (who-may-add-a-change + dominating duplicate tests).

Decides: a change can enter the change graph only through apply_changes_batch_log_patches (each
accepted change is dominated by the false edges of Automerge::has_actor_seq and
ChangeQueue::has_actor_seq, plus ChangeBatch::push's in-batch test; the queue is extended after the
loop; BatchApply is fed only from pop_topo_sorted_ready) or through TransactionInner::commit_impl
(sequence number = seq_for_actor(actor)+1, conflicting queued branch removed first).
Not decided: that the predicates compute the right answer for every history; the load path
(ChangeGraph::load / ChangeCollector) is listed as not covered.
"""
from .. import cfg, util, rules, facts, callgraph
from ..util import callee, decl, norm_fn

APPLY = "automerge::op_set2::change::batch::<impl automerge::automerge::Automerge>::apply_changes_batch_log_patches"
N = norm_fn

ALLOWED_CALLERS = {
    # callee -> allowed callers (normalised)
    "automerge::change_graph::ChangeGraph::add_change": {"automerge::automerge::Automerge::update_history"},
    "automerge::change_graph::ChangeGraph::add_changes": {"automerge::change_graph::ChangeGraph::add_change"},
    "automerge::automerge::Automerge::update_history": {"automerge::op_set2::change::batch::BatchApply::import_ops", "automerge::transaction::inner::TransactionInner::commit_impl"},
    "automerge::op_set2::change::batch::BatchApply::push": {N(APPLY)},
    "automerge::change_queue::ChangeQueue::extend": {N(APPLY)},
    "automerge::change_queue::ChangeBatch::push": {N(APPLY)},
    "automerge::change_queue::ChangeQueue::pop_topo_sorted_ready": {N(APPLY)},
    "automerge::op_set2::change::batch::BatchApply::apply": {N(APPLY)},
    "automerge::op_set2::change::batch::BatchApply::import_ops": {"automerge::op_set2::change::batch::BatchApply::apply"},
}


def find_fn(f, normalised):
    c = [p for p in f.fns if N(p) == normalised and not p.startswith("bin:")]
    if len(c) != 1:
        raise facts.AnchorMissing(normalised)
    return c[0]


def err_only(b, start, stop_edges=()):
    firsts = util.first_ret_assignments(b, start, stop_edges)
    if not firsts:
        return False, "no return reached"
    for (bi, kind, rec) in firsts:
        if kind == "stmt" and util.is_err_agg(rec["rv"]):
            continue
        if kind == "call" and util.is_from_residual(rec):
            continue
        return False, "block %d sets the return value by %s" % (bi, kind)
    return True, ""


def run(ctx):
    ctx.level = "proof"
    ctx.decides = ("who-may-call closure around ChangeGraph::add_change(s) / update_history / BatchApply / ChangeQueue::extend; in apply_changes_batch_log_patches the "
                   "accepting call ChangeBatch::push is dominated by the false edges of both has_actor_seq tests whose true edges return Err, queue.extend is after the loop, "
                   "BatchApply::push is fed from pop_topo_sorted_ready; ChangeBatch::push's insertion is dominated by its in-batch duplicate test; "
                   "TransactionArgs is built only in transaction_args with seq = seq_for_actor(..)+1; commit_impl removes the queued branch of the committed change's (actor, seq) on every path after update_history.")
    ctx.not_decided = "that has_actor_seq / seq_for_actor compute the right answer for every history; uniqueness across ChangeGraph::load (ChangeCollector) is not covered."
    ctx.rule("R3-callers", "callers of each function in the admission chain are a subset of the reviewed set")
    ctx.rule("R3-guard", "accepting a change is dominated by the false edge of each duplicate test; the true edge returns Err")
    ctx.rule("R3-order", "queue.extend is not inside the admission loop; BatchApply::push takes changes from pop_topo_sorted_ready")
    ctx.rule("R3-local", "TransactionArgs{seq} has provenance ChangeGraph::seq_for_actor + 1; the queued conflicting branch of the committed change's (actor, seq) is removed where the change enters the history (commit_impl)")
    f = ctx.facts()
    cg = callgraph.get(f)
    # ---- callers
    inn_norm = {}
    for c, callers in cg.inn.items():
        inn_norm.setdefault(N(c), set()).update(N(x) for x in callers)
    for target, allowed in sorted(ALLOWED_CALLERS.items()):
        find_fn(f, target)
        got = inn_norm.get(target, set())
        # closures count as their root function
        got = {g.split("::{closure")[0] for g in got}
        extra = got - allowed
        ctx.ob("R3-callers", target, not extra and bool(got), "", "callers %s" % sorted(got) if not extra else "unexpected caller(s) %s (allowed: %s)" % (sorted(extra), sorted(allowed)))
    # BatchApply constructed only in APPLY (Default::default / aggregate)
    ctors = set()
    for p, r in f.fns.items():
        for bi, t in f.calls(r):
            if (t.get("resargs") or "").startswith("<automerge::op_set2::change::batch::BatchApply as core::default::Default>::default"):
                ctors.add(N(p))
        for blk in r["blocks"]:
            for s in blk["st"]:
                if s["rv"]["k"] == "Agg" and s["rv"].get("adt") == "automerge::op_set2::change::batch::BatchApply" and r.get("trait_item") not in ("core::default::Default::default", "core::clone::Clone::clone"):
                    ctors.add(N(p))
    ctx.ob("R3-callers", "BatchApply|constructors", ctors == {N(APPLY)}, "", "constructed in %s" % sorted(ctors))

    # ---- guards in APPLY
    b = ctx.body(APPLY)
    push = [bi for bi, t in b.calls() if callee(t) == "automerge::change_queue::ChangeBatch::push"]
    ctx.floor("ChangeBatch::push call sites in apply_changes_batch_log_patches", len(push), 1)
    tests = {
        "Automerge::has_actor_seq": "automerge::automerge::Automerge::has_actor_seq",
        "ChangeQueue::has_actor_seq": "automerge::change_queue::ChangeQueue::has_actor_seq",
    }
    for name, tp in tests.items():
        find_fn(f, tp)
        false_edges = rules.guard_edges(b, rules.call_pred({tp}, False))
        true_edges = rules.guard_edges(b, rules.call_pred({tp}, True))
        ctx.floor("switches on %s" % name, len(false_edges), 1)
        for n, pb in enumerate(push):
            ok = bool(false_edges) and b.edges_dominate(false_edges, pb)
            ctx.ob("R3-guard", "apply_changes_batch_log_patches|%s|before ChangeBatch::push|%d" % (name, n), ok, util.where(b, pb),
                   "dominated by %s == false" % name if ok else "ChangeBatch::push reachable without passing `%s == false` (witness blocks %s)" % (name, b.witness_path(0, pb, avoid_edges=false_edges)))
        for (sb, tb) in true_edges:
            ok, why = err_only(b, tb, stop_edges=false_edges)
            ctx.ob("R3-guard", "apply_changes_batch_log_patches|%s|true edge returns Err" % name, ok, util.where(b, sb), why or "Err on every path")
        # the test is applied to the same change that is pushed: its argument and push's argument share provenance (the loop variable)
    # ---- order
    ext = [bi for bi, t in b.calls() if callee(t) == "automerge::change_queue::ChangeQueue::extend"]
    guard_blocks = [bi for bi, t in b.calls() if callee(t) in tests.values()]
    for n, eb in enumerate(ext):
        loops_back = any(b.can_reach(eb, gb) for gb in guard_blocks)
        ctx.ob("R3-order", "apply_changes_batch_log_patches|queue.extend after loop|%d" % n, not loops_back, util.where(b, eb), "extend must not be followed by further duplicate tests (it would make a rejected batch partially queued)")
    ctx.floor("ChangeQueue::extend call sites", len(ext), 1)
    bp = [(bi, t) for bi, t in b.calls() if callee(t) == "automerge::op_set2::change::batch::BatchApply::push"]
    ctx.floor("BatchApply::push call sites", len(bp), 1)
    for n, (bi, t) in enumerate(bp):
        pv = b.provenance(t["args"][1])
        ok = "automerge::change_queue::ChangeQueue::pop_topo_sorted_ready" in {N(c) for c in pv.callees()}
        ctx.ob("R3-order", "apply_changes_batch_log_patches|BatchApply::push source|%d" % n, ok, t["sp"], "changes handed to BatchApply come from ChangeQueue::pop_topo_sorted_ready; sources: %s" % sorted(N(c) for c in pv.callees())[:6])
    # the Err edge of `batch.push(c)?` (in-batch duplicates) comes before extend
    # ---- ChangeBatch::push internal test
    pb_ = cfg.body(f.fns[find_fn(f, "automerge::change_queue::ChangeBatch::push")])
    ctx.analysed_fns.add(pb_.path)
    vec_push = [(bi, t) for bi, t in pb_.calls() if N(t.get("fn")) == "alloc::vec::Vec::push"]
    contains = []
    for sb, sw in pb_.switches():
        src = pb_.bool_operand_source(sw["op"])
        if src and src["kind"] == "call" and "HashSet" in (src["callee"] or "") and src["callee"].endswith("::contains"):
            o = pb_.operand_origin(src["t"]["args"][0])
            if o and ".incoming_actor_seqs" in o[1]:
                contains.append((sb, src))
    ctx.floor("incoming_actor_seqs.contains tests in ChangeBatch::push", len(contains), 1)
    ctx.floor("Vec::push in ChangeBatch::push", len(vec_push), 1)
    if contains:
        fe = [rules.bool_switch_edge(pb_, sb, src["negated"]) for sb, src in contains]   # edge where contains()==false
        te = [rules.bool_switch_edge(pb_, sb, not src["negated"]) for sb, src in contains]
        for n, (bi, t) in enumerate(vec_push):
            ok = pb_.edges_dominate(fe, bi)
            ctx.ob("R3-guard", "ChangeBatch::push|in-batch test before insertion|%d" % n, ok, t["sp"], "changes.push dominated by incoming_actor_seqs.contains == false")
        for (sb, tb) in te:
            ok, why = err_only(pb_, tb, stop_edges=fe)
            ctx.ob("R3-guard", "ChangeBatch::push|duplicate returns Err", ok, util.where(pb_, sb), why or "Err on every path")

    # ---- local commits
    TA = "automerge::automerge::TransactionArgs"
    if TA not in f.adts:
        # find by name
        c = [a for a in f.adts if a.endswith("::TransactionArgs")]
        if len(c) != 1:
            raise facts.AnchorMissing("TransactionArgs")
        TA = c[0]
    sites = []
    for p, r in f.fns.items():
        for bi, blk in enumerate(r["blocks"]):
            for s in blk["st"]:
                rv = s["rv"]
                if rv["k"] == "Agg" and rv.get("adt") == TA and r.get("trait_item") != "core::clone::Clone::clone":
                    sites.append((p, bi, s))
    ctx.floor("TransactionArgs constructions", len(sites), 1)
    TARGS = "automerge::automerge::Automerge::transaction_args"
    for (p, bi, s) in sites:
        ctx.ob("R3-local", "TransactionArgs|constructed in %s" % N(p), N(p) == TARGS, s["sp"], "only transaction_args may build TransactionArgs")
        if N(p) != TARGS:
            continue
        tb = cfg.body(f.fns[p])
        ctx.analysed_fns.add(p)
        rv = s["rv"]
        seq_op = rv["o"][rv["fields"].index("seq")]
        pv = tb.provenance(seq_op, through_calls=False)
        cs = {N(c) for c in pv.callees()}
        ok = cs <= {"automerge::change_graph::ChangeGraph::seq_for_actor", "automerge::automerge::Automerge::isolate_actor"} and bool(cs)
        if "automerge::change_graph::ChangeGraph::seq_for_actor" in cs:
            ok = ok and ("u64", "1") in pv.consts   # seq_for_actor(..) + 1
        ctx.ob("R3-local", "transaction_args|seq provenance", ok, s["sp"], "seq derives from %s" % sorted(cs))

    # the committed change claims its (actor, seq): the queued conflicting branch is removed where the change enters the history
    # (not where the transaction opens: a transaction that is rolled back must leave the queue alone, C28)
    CI = "automerge::transaction::inner::TransactionInner::commit_impl"
    cb = ctx.body(CI)
    ctx.analysed_fns.add(CI)
    ups = [(bi, t) for bi, t in cb.calls() if callee(t) == "automerge::automerge::Automerge::update_history"]
    ctx.floor("update_history calls in commit_impl", len(ups), 1)
    rm = [(rb, t) for rb, t in cb.calls() if callee(t) == "automerge::change_queue::ChangeQueue::remove_actor_branch_from"]
    for k, (bi, t) in util.ordinal_keys(ups, lambda it: "commit_impl|update_history"):
        ch = cb.operand_origin(t["args"][1])
        reach = cb.reachable(start=t.get("target"), removed_blocks={rb for rb, _ in rm}) if t.get("target") is not None else set()
        okr = bool(rm) and not any(r_ in reach for r_ in cb.returns())
        same_actor = same_seq = False
        for rb, rt in rm:
            for argi, want in ((1, "actor_id"), (2, "seq")):
                pva = cb.provenance(rt["args"][argi], through_calls=False)
                hit = False
                for cbk, ct in cb.calls():
                    if (callee(ct) or "").endswith("change::Change::" + want) and ct.get("dst") and ct["dst"]["l"] in pva.locals | {l for l, _ in pva.places}:
                        o = cb.operand_origin(ct["args"][0])
                        hit = hit or (o is not None and ch is not None and o[0] == ch[0])
                if not hit:
                    hit = any((norm_fn(c) or "").endswith("change::Change::" + want) for c in pva.callees()) and ch is not None and ch[0] in cb.provenance(rt["args"][argi], through_calls=True).locals
                if argi == 1:
                    same_actor = same_actor or hit
                else:
                    same_seq = same_seq or hit
        ctx.ob("R3-local", "commit_impl|remove_actor_branch_from targets the committing actor", same_actor, t["sp"],
               "the actor passed to remove_actor_branch_from is the committed change's actor_id()" if same_actor else
               "the actor whose queued branch is removed does not derive from the change that is being committed")
        ctx.ob("R3-local", "commit_impl|remove_actor_branch_from(actor, seq) on every path", okr and same_seq, t["sp"],
               "queued conflicting branch removed when the sequence number is claimed" if okr and same_seq else "remove_actor_branch_from missing on some path after update_history, or called with a different seq")
    # isolate_actor's seq
    ib = ctx.body("automerge::automerge::Automerge::isolate_actor")
    # the actor is reused only if every change it has made is in the history of the heads: a comparison of sequence numbers
    # (seq_clock_for_heads vs seq_for_actor), never of op counters (a change without ops has its predecessor's max_op)
    ctx.rule("R3-iso", "isolate_actor: the actor chosen for an isolated transaction (Clock::isolate) is edge-dominated by the true edge of `seq seen from the heads == seq_for_actor`; no max_op / covers test decides it")
    reuse = [(bi, t) for bi, t in ib.calls() if (callee(t) or "").endswith("clock::Clock::isolate")]
    ctx.floor("actor choices in isolate_actor", len(reuse), 1)
    seq_eq = []
    op_tests = []
    for sb, sw in ib.switches():
        src = ib.bool_operand_source(sw["op"])
        if src and src["kind"] == "bin" and src["op"] in ("Eq", "Ne", "Ge", "Le"):
            cs_ = set()
            for o_ in src["o"]:
                cs_ |= {N(c) for c in ib.provenance(o_, through_calls=True).callees()}
            if any(c.endswith("ChangeGraph::seq_clock_for_heads") for c in cs_) and any(c.endswith("ChangeGraph::seq_for_actor") for c in cs_):
                zero = [tb for v, tb in sw["targets"] if v == "0"]
                eqish = src["op"] in ("Eq", "Ge", "Le")
                if src["negated"]:
                    eqish = not eqish
                seq_eq += [(sb, sw["otherwise"])] if eqish else ([(sb, zero[0])] if zero else [])
        if src and src["kind"] == "call" and N(src["callee"]).endswith("clock::Clock::covers"):
            op_tests.append(util.where(ib, sb))
        if src and src["kind"] == "bin":
            for o_ in src["o"]:
                if any(N(c).endswith("ChangeGraph::max_op_for_actor") for c in ib.provenance(o_, through_calls=False).callees()):
                    op_tests.append(util.where(ib, sb))
    for k_, (bi, t) in util.ordinal_keys(reuse, lambda it: "isolate_actor|actor reused"):
        ok = bool(seq_eq) and ib.edges_dominate(seq_eq, bi) and not op_tests
        ctx.ob("R3-iso", k_, ok, t["sp"], "only when the heads have seen every change of the actor (by sequence number)" if ok else
               "the actor of an isolated transaction is chosen by op counters (%s) / without the sequence-number test: a change without ops outside the heads passes for covered, and the isolated change takes seq n+1 without seq n among its ancestors" % (op_tests or "none"))
    iso = [(bi, s) for bi, blk in enumerate(ib.blocks) for s in blk["st"] if s["rv"]["k"] == "Agg" and (s["rv"].get("adt") or "").endswith("::Isolation")]
    ctx.floor("Isolation constructions in isolate_actor", len(iso), 1)
    for bi, s in iso:
        rv = s["rv"]
        pv = ib.provenance(rv["o"][rv["fields"].index("seq")], through_calls=False)
        cs = {N(c) for c in pv.callees()}
        plus1 = ("u64", "1") in pv.consts
        ctx.ob("R3-local", "isolate_actor|seq provenance", cs == {"automerge::change_graph::ChangeGraph::seq_for_actor"} and plus1, s["sp"], "seq = seq_for_actor(actor_index) + 1; sources %s" % sorted(cs))
    # commit_impl uses self.seq and TransactionInner.seq is written only by constructors from args.seq
    cb = ctx.body(find_fn(f, "automerge::transaction::inner::TransactionInner::commit_impl"))
    ctx.note("not covered: ChangeGraph::load / ChangeGraphCols::finalize (uniqueness on load rests on ChangeCollector)")
    # an incoming (actor, seq) collides with applied history when the actor's applied sequence number has reached it: `>=`, not `==`
    ctx.rule("R3-cmp", "Automerge::has_actor_seq compares seq_for_actor(actor) >= change.seq()")
    hb = ctx.body("automerge::automerge::Automerge::has_actor_seq")
    cmps = []
    for bi, blk in enumerate(hb.blocks):
        for st in blk["st"]:
            rv = st["rv"]
            if rv["k"] == "Bin" and rv.get("op") in ("Ge", "Gt", "Le", "Lt", "Eq", "Ne"):
                srcs = [{N(c).split("::")[-1] for c in hb.provenance(o, through_calls=True).callees()} for o in rv["o"]]
                cmps.append((rv["op"], srcs, st["sp"]))
    ctx.floor("comparisons in has_actor_seq", len(cmps), 1)
    for op, srcs, sp in cmps:
        applied_left = "seq_for_actor" in srcs[0] and "seq" in srcs[1]
        applied_right = "seq_for_actor" in srcs[1] and "seq" in srcs[0]
        ok = (op == "Ge" and applied_left) or (op == "Le" and applied_right)
        ctx.ob("R3-cmp", "has_actor_seq|applied seq >= incoming seq", ok, sp, "operator %s" % op if ok else
               "the test is `%s`: an incoming change that re-uses a sequence number below the actor's latest applied one is not recognised as a duplicate" % op)
    # the queue's (actor, seq) and hash indexes are only edited element-wise: a whole-field assignment forgets what was queued before
    ctx.rule("R3-index", "ChangeQueue.hashes / incoming_actor_seqs are never assigned as a whole outside the constructor")
    CQ = "automerge::change_queue::ChangeQueue"
    whole = []
    for p, r in sorted(f.fns.items()):
        if r["ckey"] != ("automerge", "lib") or r.get("container") != CQ:
            continue
        b = cfg.body(r)
        for blk in b.blocks:
            if blk.get("cleanup"):
                continue
            for st in blk["st"]:
                d = st["d"]
                if d["p"] and d["p"][-1] in (".hashes", ".incoming_actor_seqs") and b.origin(d["l"], tuple(d["p"]))[0] == 1 and N(p).split("::")[-1] != "new":
                    # `mem::take` style rewrites assign a freshly built value: what matters is whether the old contents survive
                    pv = b.provenance(st["rv"]["o"][0], through_calls=True) if st["rv"].get("o") else None
                    keeps = pv is not None and any(d["p"][-1] in b.origin(l, pr)[1] and b.origin(l, pr)[0] == 1 for l, pr in pv.places)
                    if not keeps:
                        whole.append("%s%s at %s" % (N(p).split("::")[-1], d["p"][-1], st["sp"]))
    ctx.ob("R3-index", "ChangeQueue|indexes edited element-wise only", not whole, "", "no whole-field assignment" if not whole else
           "an index of the queue is overwritten (%s): the claims of changes already waiting are forgotten, so a conflicting (actor, seq) is admitted" % whole)
