"""C32 Serde export is a faithful image of the current state — rule R9 (provenance obligations), structural clauses.

Decides: in the three serializers of autoserde.rs (i) every read of the document (length, keys,
get, text, ...) is made on the object being serialized (`self.obj`), in particular the size hint
given to serialize_map / serialize_seq is `Some(length of that same object)` (never `None`: maps and lists agree); (ii) children
are wrapped with the object id returned by `get` for that entry, and AutoSerdeVal hands its own
object id to the nested map / list serializer; (iii) AutoSerdeVal's dispatch covers all ObjType
variants without a wildcard.
Not decided: faithfulness of scalar values, conflict winners, key order (runtime state).
"""
from .. import cfg, util, rules, facts
from ..util import callee, decl, norm_fn

MOD = "automerge::autoserde::"
READDOC = "automerge::read::ReadDoc::"
SERS = {"Map": "AutoSerdeMap", "Seq": "AutoSerdeSeq", "Val": "AutoSerdeVal"}


def find_ser(f, name):
    c = [p for p, r in f.fns.items() if r.get("trait_item") == "serde_core::ser::Serialize::serialize" and (MOD + name + "<") in p]
    if len(c) != 1:
        raise facts.AnchorMissing("Serialize for " + name)
    return c[0]


def run(ctx):
    ctx.level = "proof"
    ctx.decides = ("every ReadDoc call in AutoSerdeMap/Seq/Val::serialize takes self.obj as its object; serialize_map/serialize_seq hints are Some(ReadDoc::length(self.obj)); "
                   "child serializers are built with the ExId returned by get() (Map/Seq) or self.obj (Val); AutoSerdeVal matches every ObjType variant.")
    ctx.not_decided = "that scalar values, conflict winners and ordering in the output equal the document state (runtime values)."
    ctx.rule("R9-obj", "object argument of every ReadDoc call has origin (*self).obj")
    ctx.rule("R9-hint", "size hint operand is None or Some(ReadDoc::length(self.obj))")
    ctx.rule("R9-child", "child serializer aggregates take obj from get()'s result / from self.obj")
    ctx.rule("R9-len", "OpSet::seq_length (what ReadDoc::length and hence every size hint reports): each count() of visible ops runs over a dedup()ed key / element iterator — conflicting values of one key or element count once")
    ctx.rule("R9-arms", "the ObjType dispatch has an arm for every variant")
    f = ctx.facts()
    n_reads = 0
    for kind, name in SERS.items():
        p = find_ser(f, name)
        b = ctx.body(p)
        # (i) object argument of ReadDoc calls
        for k, (bi, t) in util.ordinal_keys([(bi, t) for bi, t in b.calls() if (t.get("fn") or "").startswith(READDOC)], lambda it: "%s|%s" % (name, it[1]["fn"].split("::")[-1])):
            n_reads += 1
            o = b.operand_origin(t["args"][1]) if len(t["args"]) > 1 else None
            ok = o is not None and o[0] == 1 and ".obj" in o[1]
            ctx.ob("R9-obj", k, ok, t["sp"], "reads %s" % (b.origin_str(o) if o else "a constant") if ok else "reads object %s instead of the object being serialized (self.obj)" % (b.origin_str(o) if o and o[0] else "a constant id"))
        # (ii) hints
        for bi, t in b.calls():
            fn = (t.get("fn") or "")
            if fn in ("serde_core::ser::Serializer::serialize_map", "serde_core::ser::Serializer::serialize_seq"):
                hint = t["args"][1]
                pv = b.provenance(hint, through_calls=True)
                aggs = {v for (a, v) in pv.aggs if a == "core::option::Option"}
                if aggs == {"None"} or (not pv.calls and not aggs):
                    # maps announce Some(length): a container that announces nothing is rejected by every serializer that needs the
                    # length up front (sibling agreement of AutoSerdeMap and AutoSerdeSeq)
                    ctx.ob("R9-hint", "%s|%s hint" % (name, fn.split("::")[-1]), False, t["sp"],
                           "the container does not announce its length (None) although it iterates 0..length: length-prefixed serializers reject every document that contains it")
                    continue
                lens = [(c, cb) for (c, cb) in pv.calls if c == READDOC + "length"]
                ok = len(lens) >= 1
                for (c, cb) in lens:
                    lt = b.blocks[cb]["t"]
                    o = b.operand_origin(lt["args"][1])
                    ok = ok and o is not None and o[0] == 1 and ".obj" in o[1]
                other = {c for c, _ in pv.calls} - {READDOC + "length"}
                ctx.ob("R9-hint", "%s|%s hint" % (name, fn.split("::")[-1]), ok and not other, t["sp"],
                       "Some(length(self.obj))" if ok and not other else "size hint is not the length of the object being serialized (sources %s)" % sorted(c for c, _ in pv.calls))
        # (iii) children
        for bi, blk in enumerate(b.blocks):
            for s in blk["st"]:
                rv = s["rv"]
                if rv["k"] == "Agg" and (rv.get("adt") or "").startswith(MOD + "AutoSerde") and "obj" in rv["fields"]:
                    op = rv["o"][rv["fields"].index("obj")]
                    pv = b.provenance(op, through_calls=True)
                    child = rv["adt"].split("::")[-1]
                    if kind in ("Map", "Seq"):
                        ok = (READDOC + "get") in {c for c, _ in pv.calls}
                        why = "child id comes from get()"
                    else:
                        ok = any(l == 1 and ".obj" in pr for l, pr in [b.origin(l, pr) for l, pr in pv.places])
                        why = "nested serializer receives self.obj"
                    ctx.ob("R9-child", "%s|builds %s" % (name, child), ok, s["sp"], why if ok else "object id of the child serializer has the wrong source")
    ctx.floor("ReadDoc calls in the serializers", n_reads, 6)
    # (iv) dispatch arms
    vb = ctx.body(find_ser(f, "AutoSerdeVal"))
    ot = f.adts.get("automerge::types::ObjType")
    if ot is None:
        raise facts.AnchorMissing("ObjType")
    names = {v["name"] for v in ot["variants"]}
    seen = set()
    wildcard = False
    for sb, sw in vb.switches():
        src = vb.bool_operand_source(sw["op"])
        if src and src["kind"] == "discr" and util.base_ty(src.get("ty") or "") == "automerge::types::ObjType":
            for v, tb in sw["targets"]:
                seen.add((src["vars"] or {}).get(v))
            # `otherwise` that is not unreachable is a wildcard arm
            if vb.blocks[sw["otherwise"]]["t"]["k"] != "unreachable":
                wildcard = True
    ctx.ob("R9-arms", "AutoSerdeVal|ObjType dispatch", names <= seen and not wildcard, vb.rec["sp"], "arms %s of %s, wildcard=%s" % (sorted(x for x in seen if x), sorted(names), wildcard))
    # each object kind is handed to the matching serializer
    built = set()
    for blk in vb.blocks:
        for s in blk["st"]:
            if s["rv"]["k"] == "Agg" and (s["rv"].get("adt") or "").startswith(MOD):
                built.add(s["rv"]["adt"].split("::")[-1])
    ctx.ob("R9-arms", "AutoSerdeVal|builds map and seq serializers", {"AutoSerdeMap", "AutoSerdeSeq"} <= built and any((t.get("fn") or "") == READDOC + "text" for _, t in vb.calls()), vb.rec["sp"], "built %s" % sorted(built))
    # scalars are exported by ScalarValue's own Serialize impl, unconditionally: in the Scalar arm the serializer is handed to nothing else
    scalar_region = None
    for sb, sw in vb.switches():
        src = vb.bool_operand_source(sw["op"])
        if src and src["kind"] == "discr" and util.base_ty(src.get("ty") or "") == "automerge::value::Value":
            for v, tb in sw["targets"]:
                if (src["vars"] or {}).get(v) == "Scalar":
                    scalar_region = [x for x in sorted(vb.live_blocks()) if vb.block_dominates(tb, x) and not vb.blocks[x].get("cleanup")]
    if scalar_region is None:
        raise facts.AnchorMissing("Value::Scalar arm of AutoSerdeVal::serialize")
    takes_ser = [(bi, t) for bi, t in vb.calls() if bi in scalar_region and "S" in t.get("argtys", [])]
    ctx.floor("calls consuming the serializer in the Scalar arm", len(takes_ser), 1)
    for k, (bi, t) in util.ordinal_keys(takes_ser, lambda it: "AutoSerdeVal|Scalar arm|serializer handed to %s" % (it[1].get("fn") or "?").split("::")[-1]):
        recv = util.strip_refs(t["argtys"][0]) if t.get("argtys") else ""
        ok = t.get("fn") == "serde_core::ser::Serialize::serialize" and "automerge::value::ScalarValue" in recv
        ctx.ob("R9-arms", k, ok, t["sp"], "ScalarValue's Serialize impl" if ok else
               "a scalar is exported through %s on %s instead of ScalarValue's own Serialize impl (some values take a different form in the export)" % (t.get("fn"), recv))
    n_sw = [sb for sb, sw in vb.switches() if sb in scalar_region]
    ctx.ob("R9-arms", "AutoSerdeVal|Scalar arm|no branching on the scalar's value", not n_sw, vb.rec["sp"], "switches inside the Scalar arm: %d" % len(n_sw))
    # ---------------- the announced length is the number of entries, not of values
    SL = "automerge::op_set2::op_set::OpSet::seq_length"
    lb = ctx.body(SL)
    ctx.analysed_fns.add(SL)
    counts = [(bi, t) for bi, t in lb.calls() if (norm_fn(t.get("fn")) or "").endswith("Iterator::count")]
    ctx.floor("count() calls in OpSet::seq_length", len(counts), 2)
    for k, (bi, t) in util.ordinal_keys(counts, lambda it: "seq_length|count"):
        pv = lb.provenance(t["args"][0], through_calls=True)
        ok = any(norm_fn(c).split("::")[-1] in ("dedup", "dedup_by", "dedup_by_key") for c in pv.callees())
        ctx.ob("R9-len", k, ok, t["sp"], "counts distinct keys / elements" if ok else
               "length() counts every visible value: a key or element with conflicting values is counted more than once, so a container announces more entries than it serializes")
