"""C03 Local edits have their documented sequential effect — rule R4 (error-after-mutation), error clause only,
plus one apply-side table agreement.

Decides: for the editing calls C03 lists (put, put_object, insert, insert_object, delete, increment, splice,
splice_text, mark, unmark, split_block, join_block) no path inside TransactionInner (and the helpers they reach:
BatchInsertion, text_diff) returns an error after the op set or the pending list has been mutated, except for
pairs reviewed as infeasible in tables/eam.tsv; and every object-creating action that OpType::decompose can write
is recognised by the op set's TryFrom<Action> for ObjType (an object whose make-action is not recognised is never
registered, so the id returned by put_object is unusable).
Not decided: the sequential effect itself (values, indexes, visibility): runtime-valued.
"""
from .. import cfg, util, facts, eam, tables
from ..util import norm_fn, callee

TI = "automerge::transaction::inner::TransactionInner::"
ENTRIES = ["put", "put_object", "insert", "insert_object", "delete", "increment", "splice", "splice_text", "mark", "unmark", "split_block", "join_block"]
PRIM = {"automerge::op_set2::op_set::OpSet::splice", "automerge::op_set2::op_set::OpSet::add_succ_with_undo"}


def scope_fns(f):
    N = norm_fn
    return {p: r for p, r in f.fns.items() if r["ckey"] == ("automerge", "lib") and
            (N(p).startswith(TI) or N(p).startswith("automerge::transaction::inner::") or N(p).startswith("automerge::text_diff::"))}


def pending_push(b, bi, t):
    if norm_fn(t.get("fn")) == "alloc::vec::Vec::push" and ".pending" in (b.operand_origin(t["args"][0]) or (0, ()))[1]:
        return "pending.push"
    return None


def reachable_from(f, fns, entries):
    seen, st = set(), list(entries)
    while st:
        x = st.pop()
        if x in seen or x not in fns:
            continue
        seen.add(x)
        for bi, t in f.calls(fns[x]):
            for c in (t.get("res"), t.get("fn")):
                if c in fns:
                    st.append(c)
        for r in f.closures_of(x):
            st.append(r["path"])
    return seen


def report(ctx, f, fns, E, inscope, table, rule="R4"):
    n = 0
    for p in sorted(inscope):
        b = cfg.body(fns[p])
        seen = set()
        for (mb, what, eb, kind, oname) in E.pairs.get(p, []):
            if kind != "own":
                continue
            key = "%s|%s|%s" % (norm_fn(p), what.split("::")[-1], oname.split("::")[-1] if oname != "explicit Err" else oname)
            if key in seen:
                continue
            seen.add(key)
            n += 1
            ctx.analysed_fns.add(p)
            full = "%s|%s" % (rule, key)
            if full in table:
                ctx.ob(rule, key, True, util.where(b, eb), "reviewed: " + table[full], via="table:" + table[full])
            else:
                ctx.ob(rule, key, False, util.where(b, eb), "an error return (%s at %s) is reachable after the mutation %s at %s; witness blocks %s" % (
                    oname, util.where(b, eb).split("/")[-1], what.split("::")[-1], util.where(b, mb).split("/")[-1], b.witness_path(mb, eb)))
    return n


def run(ctx):
    ctx.decides = ("for put, put_object, insert, insert_object, delete, increment, splice, splice_text, mark, unmark, split_block, join_block: every (mutation, later error return) pair in the functions they reach is "
                   "discharged (callee cannot fail / same query validated before the mutation) or reviewed as infeasible; TryFrom<Action> for ObjType recognises every make-action OpType::decompose writes.")
    ctx.not_decided = "the documented sequential effect itself (runtime values); partial application inside the reconciliation / batch calls (C27's calls) is outside C03's list."
    ctx.rule("R4", "error-after-mutation: no Err exit reachable from a mutation point of the op set / pending list (bottom-up summaries; own pairs reported per function)")
    ctx.rule("R5-sibling", "the op set's Action->ObjType table covers every make-action the encoder side writes")
    f = ctx.facts()
    fns = scope_fns(f)
    ctx.floor("functions in the transaction layer", len(fns), 90)
    E = eam.Eam(f, fns, PRIM, pending_push)
    entries = [TI + e for e in ENTRIES]
    for e in entries:
        if e not in fns:
            raise facts.AnchorMissing(e)
    inscope = reachable_from(f, fns, entries)
    ctx.floor("functions reachable from the listed editing calls", len(inscope), 25)
    ctx.floor("mutating functions among them", len([p for p in inscope if p in E.Mset]), 10)
    table = ctx.table("eam.tsv")
    n = report(ctx, f, fns, E, inscope, table)
    check_no_clamp(ctx, f, inscope)
    ctx.note("own (mutation, error) pairs examined: %d; functions with an error-after-mutation summary: %s" % (n, sorted(norm_fn(p).split("::")[-1] for p in E.EAM if p in inscope)))
    # entry points that are clean get a positive obligation each (so that the evidence shows what was proved)
    for e in entries:
        ctx.ob("R4", "%s|no unreviewed error after mutation" % norm_fn(e), True, fns[e]["sp"], "summary: %s" % ("inherits reviewed pairs" if e in E.EAM else "no error exit reachable after a mutation"), nontrivial=e in E.Mset)
    # ---- make-actions recognised by the op set
    dec = tables.table_of(ctx.body("automerge::op_set2::types::<impl automerge::types::OpType>::decompose"))
    tr = tables.table_of(ctx.body("automerge::op_set2::types::<impl core::convert::TryFrom<automerge::op_set2::types::Action> for automerge::types::ObjType>::try_from"))
    want = {v[1].split("::")[-1]: k.split("/")[1] for k, v in dec.items() if k.startswith("Make/") and v[0] == "variant"}
    ctx.floor("make-actions written by OpType::decompose", len(want), 4)
    for action, obj in sorted(want.items()):
        v = tr.get(action, tr.get("_"))
        got = v[1].split("::")[-1] if v and v[0] == "variant" else None
        ctx.ob("R5-sibling", "TryFrom<Action> for ObjType|%s -> ObjType::%s" % (action, obj), got == obj, "automerge/src/op_set2/types.rs",
               "recognised" if got == obj else "put_object(.., ObjType::%s) writes Action::%s, which the op set maps to %s: the new object is never registered" % (obj, action, v))


def check_no_clamp(ctx, f, inscope):
    """an out-of-range position or length supplied by the caller must surface as an error: in the functions the listed editing calls
    reach, no saturating / wrapping / clamping arithmetic is applied to a value that derives from an integer parameter (a clamp turns
    an invalid call into a different valid one)"""
    import re
    ctx.rule("R3-elide", "OpsFound::resolve_action: a put is elided (None) or turned into a conflict-resolving delete only on the true edges of `existing.action == Action::Set` and `existing.value == new value`")
    ctx.rule("R3-delete-all", "inner_splice: the predecessor list of a delete op and the successor updates are built from *all* ops found at the element (no last / first / from_ref / get / nth / take / skip / filter between seek_ops_by_index(..).ops and next_delete / add_succ_with_undo)")
    ctx.rule("R4-clamp", "no saturating_* / wrapping_* / clamp / min / max on values derived from integer parameters of the editing functions")
    CLAMP = re.compile(r"^core::num::(.*::)?(saturating_\w+|wrapping_\w+|clamp)$|^core::cmp::(Ord::)?(min|max|clamp)$")
    n = n_sites = 0
    for p in sorted(inscope):
        r = f.fns[p]
        b = None
        for bi, t in f.calls(r):
            c = norm_fn(t.get("fn")) or ""
            if not CLAMP.match(c):
                continue
            b = b or cfg.body(r)
            n_sites += 1
            # parameters that carry the caller's request (integers, argument structs, props), not the document / log / transaction state
            ints = {i for i in range(1, b.argc + 1) if not any(x in b.local_ty(i) for x in ("Automerge", "PatchLog", "TransactionInner", "OpSet", "Clock", "ObjMeta", "ObjId"))}
            dep = set()
            for a in t["args"]:
                # direct data flow only (moves, arithmetic, field reads): a value a query computed from the argument is the document's
                pv = b.provenance(a, through_calls=False)
                dep |= {i for i, proj in pv.params if i in ints}
            if dep:
                n += 1
                ctx.ob("R4-clamp", "%s|%s" % (norm_fn(p), c.split("::")[-1]), False, t["sp"],
                       "%s is applied to a value derived from the caller's %s: an out-of-range argument is silently replaced instead of being rejected" % (c.split("::")[-1], sorted(b.local_name(i) or i for i in dep)))
    ctx.ob("R4-clamp", "no clamped caller-supplied positions in the editing functions", n == 0, "", "%d clamping operations examined, %d on caller-supplied integers" % (n_sites, n))

    check_elide(ctx, f)
    check_delete_all(ctx, f)


def paggs_of(b, op, depth=0):
    """variants of the ADT constants an operand holds (following single definitions): [(adt, variant)]"""
    k = util.op_const(op)
    if k is not None:
        return [tuple(x) for x in k.get("paggs", [])]
    pl = op.get("c") or op.get("m")
    if pl is None or pl["p"] or depth > 6:
        return []
    d = b.single_def(pl["l"])
    if d is None or d[1] == "t":
        return []
    rv = d[2]["rv"]
    if rv["k"] in ("Use", "Ref") and rv.get("o"):
        return paggs_of(b, rv["o"][0], depth + 1)
    if rv["k"] == "Ref":
        p = rv["p"]
        return paggs_of(b, {"c": {"l": p["l"], "p": [e for e in p["p"] if e != "*"]}}, depth + 1) if not [e for e in p["p"] if e != "*"] else []
    if rv["k"] == "Agg" and rv.get("ak") == "adt":
        return [(rv["adt"], rv["variant"])]
    return []


def check_elide(ctx, f):
    RA = "automerge::op_set2::op_set::OpsFound::<'_>::resolve_action"
    b = ctx.body(RA)
    ctx.analysed_fns.add(RA)
    ACT = "automerge::op_set2::types::Action"
    set_edges, val_edges, some_edges = [], [], []
    for sb, sw in b.switches():
        src = b.bool_operand_source(sw["op"])
        if not src:
            continue
        if src["kind"] == "discr" and (src.get("ty") or "").startswith("core::option::Option<&automerge::op_set2::op::OpBuilder") or (src["kind"] == "discr" and "Option<&" in (src.get("ty") or "") and "op::" in (src.get("ty") or "")):
            d = b.single_def(src["origin"][0])
            if d and d[1] == "t" and (norm_fn(d[2].get("fn")) or "").endswith("::last"):
                vs = src.get("vars") or {}
                some_edges += [(sb, tb) for v, tb in sw["targets"] if vs.get(v) == "Some"] or [(sb, sw["otherwise"])]
        if src["kind"] == "call" and (norm_fn(src.get("decl")) or "") == "core::cmp::PartialEq::eq":
            t = src["t"]
            tys = [util.strip_refs(x) for x in t.get("argtys", [])]
            zero = [tb for v, tb in sw["targets"] if v == "0"]
            true_e = [(sb, zero[0])] if src["negated"] and zero else [(sb, sw["otherwise"])]
            if tys and all(x == ACT for x in tys) and any((ACT, "Set") in paggs_of(b, a) for a in t["args"]):
                set_edges += true_e
            elif tys and all("ScalarValue" in x for x in tys):
                val_edges += true_e
    ctx.floor("tests `existing.action == Action::Set` in resolve_action", len(set_edges), 1)
    ctx.floor("tests `existing.value == new value` in resolve_action", len(val_edges), 1)
    ctx.floor("Some arm of ops.last() in resolve_action", len(some_edges), 1)
    n = 0
    for bi, blk in enumerate(b.blocks):
        if blk.get("cleanup"):
            continue
        for st in blk["st"]:
            rv = st["rv"]
            elide = st["d"]["l"] == 0 and rv["k"] == "Agg" and rv.get("adt") == "core::option::Option" and rv.get("variant") == "None"
            resolve = rv["k"] == "Agg" and (rv.get("adt") or "").endswith("op_set::ResolvedAction") and rv.get("variant") == "ConflictResolution"
            if not (elide or resolve) or not b.edges_dominate(some_edges, bi):
                continue
            n += 1
            ok = b.edges_dominate(set_edges, bi) and b.edges_dominate(val_edges, bi)
            ctx.ob("R3-elide", "resolve_action|%s|%d" % ("no op emitted" if elide else "conflict-resolving delete", n), ok, st["sp"],
                   "only when the existing op is a Set of the same value" if ok else
                   "a put is elided although the existing op is not known to be a Set of the same value: putting a scalar over an object (whose op carries a null value) changes nothing")
    ctx.floor("elision outcomes on the existing-op arm of resolve_action", n, 2)


SELECT = ("last", "first", "from_ref", "get", "nth", "take", "skip", "filter", "filter_map", "find", "split_last", "split_first", "last_mut", "first_mut", "pop")


def check_delete_all(ctx, f):
    # who-may-build a sequence delete op: only next_delete (which takes the whole slice of found ops as predecessors)
    ldel = [(p, t) for p, r in sorted(f.fns.items()) if r["ckey"] == ("automerge", "lib") for _, t in f.calls(r) if (callee(t) or "").endswith("op_set2::op::TxOp::list_del")]
    ctx.floor("TxOp::list_del call sites", len(ldel), 1)
    for p, t in ldel:
        ok = norm_fn(p) == TI + "next_delete"
        ctx.ob("R3-delete-all", "%s|builds a sequence delete op" % norm_fn(p).split("::")[-1], ok, t["sp"], "the one constructor over all found ops" if ok else
               "a delete op of a sequence element is built outside next_delete: its predecessor list is whatever this site picks, not every value found at the element")
    n_sites = 0
    for SP in sorted(p for p, r in f.fns.items() if r["ckey"] == ("automerge", "lib") and norm_fn(p).startswith(TI) and "{closure" not in p):
        b = cfg.body(f.fns[SP])
        if not any((callee(t) or "").endswith("OpSet::seek_ops_by_index") for _, t in b.calls()):
            continue
        _check_delete_all_in(ctx, f, SP, b)
        n_sites += 1
    ctx.floor("TransactionInner functions that look an element up by index", n_sites, 3)


def _check_delete_all_in(ctx, f, SP, b):
    fn = norm_fn(SP).split("::")[-1]
    if True:
        # the slice stops at the element lookup (its arguments are positions) and at the construction of the delete op (its id is not a selection)
        is_seek = lambda rec: (callee(rec) or "").endswith("OpSet::seek_ops_by_index") or callee(rec) == TI + "next_delete"
        sites = []
        for bi, t in b.calls():
            c = callee(t) or ""
            if c == TI + "next_delete":
                sites.append((bi, t, t["args"][4], "predecessors of the delete op"))
            elif c.endswith("OpSet::add_succ_with_undo") and any(callee(t2) == TI + "next_delete" for _, t2 in b.calls()):
                sites.append((bi, t, t["args"][1], "successor updates"))
        if not sites:
            return
        ctx.analysed_fns.add(SP)
        if fn == "inner_splice":
            ctx.floor("delete-op constructions / successor updates in inner_splice", len(sites), 2)
        for k, (bi, t, a, what) in util.ordinal_keys(sites, lambda it: "%s|%s" % (fn, it[3])):
            pv = b.provenance(a, through_calls=True, stop=is_seek)
            from_seek = any(norm_fn(c).endswith("OpSet::seek_ops_by_index") for c, _ in pv.stopped)
            names = {norm_fn(c).split("::")[-1] for c in pv.callees()}
            for cl in pv.closures:
                r = f.fns.get(cl)
                if r is not None:
                    names |= {(norm_fn(tt.get("fn")) or "").split("::")[-1] for _, tt in f.calls(r)}
            sel = sorted(names & set(SELECT))
            ctx.ob("R3-delete-all", k, from_seek and not sel, t["sp"], "built from every op found at the element" if from_seek and not sel else
                   "the %s cover only part of the ops found at the element (selection by %s; from the element lookup: %s): deleting an element with conflicting values leaves the other values visible" % (what, sel, from_seek))
