"""C03 Local edits have their documented sequential effect — rule R4 (error-after-mutation), error clause only,
plus one apply-side table agreement.

Decides: for the editing calls C03 lists (put, put_object, insert, insert_object, delete, increment, splice,
splice_text, mark, unmark, split_block, join_block) no path inside TransactionInner (and the helpers they reach:
BatchInsertion, text_diff) returns an error after the op set or the pending list has been mutated, except for
pairs reviewed as infeasible in tables/eam.tsv; and every object-creating action that OpType::decompose can write
is recognised by the op set's TryFrom<Action> for ObjType (an object whose make-action is not recognised is never
registered, so the id returned by put_object is unusable).
Not decided: the sequential effect itself (values, indexes, visibility): runtime-valued.
"""
from .. import cfg, util, facts, eam, tables
from ..util import norm_fn, callee

TI = "automerge::transaction::inner::TransactionInner::"
ENTRIES = ["put", "put_object", "insert", "insert_object", "delete", "increment", "splice", "splice_text", "mark", "unmark", "split_block", "join_block"]
PRIM = {"automerge::op_set2::op_set::OpSet::splice", "automerge::op_set2::op_set::OpSet::add_succ_with_undo"}


def scope_fns(f):
    N = norm_fn
    return {p: r for p, r in f.fns.items() if r["ckey"] == ("automerge", "lib") and
            (N(p).startswith(TI) or N(p).startswith("automerge::transaction::inner::") or N(p).startswith("automerge::text_diff::"))}


def pending_push(b, bi, t):
    if norm_fn(t.get("fn")) == "alloc::vec::Vec::push" and ".pending" in (b.operand_origin(t["args"][0]) or (0, ()))[1]:
        return "pending.push"
    return None


def reachable_from(f, fns, entries):
    seen, st = set(), list(entries)
    while st:
        x = st.pop()
        if x in seen or x not in fns:
            continue
        seen.add(x)
        for bi, t in f.calls(fns[x]):
            for c in (t.get("res"), t.get("fn")):
                if c in fns:
                    st.append(c)
        for r in f.closures_of(x):
            st.append(r["path"])
    return seen


def report(ctx, f, fns, E, inscope, table, rule="R4"):
    n = 0
    for p in sorted(inscope):
        b = cfg.body(fns[p])
        seen = set()
        for (mb, what, eb, kind, oname) in E.pairs.get(p, []):
            if kind != "own":
                continue
            key = "%s|%s|%s" % (norm_fn(p), what.split("::")[-1], oname.split("::")[-1] if oname != "explicit Err" else oname)
            if key in seen:
                continue
            seen.add(key)
            n += 1
            ctx.analysed_fns.add(p)
            full = "%s|%s" % (rule, key)
            if full in table:
                ctx.ob(rule, key, True, util.where(b, eb), "reviewed: " + table[full], via="table:" + table[full])
            else:
                ctx.ob(rule, key, False, util.where(b, eb), "an error return (%s at %s) is reachable after the mutation %s at %s; witness blocks %s" % (
                    oname, util.where(b, eb).split("/")[-1], what.split("::")[-1], util.where(b, mb).split("/")[-1], b.witness_path(mb, eb)))
    return n


def run(ctx):
    ctx.decides = ("for put, put_object, insert, insert_object, delete, increment, splice, splice_text, mark, unmark, split_block, join_block: every (mutation, later error return) pair in the functions they reach is "
                   "discharged (callee cannot fail / same query validated before the mutation) or reviewed as infeasible; TryFrom<Action> for ObjType recognises every make-action OpType::decompose writes.")
    ctx.not_decided = "the documented sequential effect itself (runtime values); partial application inside the reconciliation / batch calls (C27's calls) is outside C03's list."
    ctx.rule("R4", "error-after-mutation: no Err exit reachable from a mutation point of the op set / pending list (bottom-up summaries; own pairs reported per function)")
    ctx.rule("R5-sibling", "the op set's Action->ObjType table covers every make-action the encoder side writes")
    f = ctx.facts()
    fns = scope_fns(f)
    ctx.floor("functions in the transaction layer", len(fns), 90)
    E = eam.Eam(f, fns, PRIM, pending_push)
    entries = [TI + e for e in ENTRIES]
    for e in entries:
        if e not in fns:
            raise facts.AnchorMissing(e)
    inscope = reachable_from(f, fns, entries)
    ctx.floor("functions reachable from the listed editing calls", len(inscope), 25)
    ctx.floor("mutating functions among them", len([p for p in inscope if p in E.Mset]), 10)
    table = ctx.table("eam.tsv")
    n = report(ctx, f, fns, E, inscope, table)
    check_no_clamp(ctx, f, inscope)
    ctx.note("own (mutation, error) pairs examined: %d; functions with an error-after-mutation summary: %s" % (n, sorted(norm_fn(p).split("::")[-1] for p in E.EAM if p in inscope)))
    # entry points that are clean get a positive obligation each (so that the evidence shows what was proved)
    for e in entries:
        ctx.ob("R4", "%s|no unreviewed error after mutation" % norm_fn(e), True, fns[e]["sp"], "summary: %s" % ("inherits reviewed pairs" if e in E.EAM else "no error exit reachable after a mutation"), nontrivial=e in E.Mset)
    # ---- make-actions recognised by the op set
    dec = tables.table_of(ctx.body("automerge::op_set2::types::<impl automerge::types::OpType>::decompose"))
    tr = tables.table_of(ctx.body("automerge::op_set2::types::<impl core::convert::TryFrom<automerge::op_set2::types::Action> for automerge::types::ObjType>::try_from"))
    want = {v[1].split("::")[-1]: k.split("/")[1] for k, v in dec.items() if k.startswith("Make/") and v[0] == "variant"}
    ctx.floor("make-actions written by OpType::decompose", len(want), 4)
    for action, obj in sorted(want.items()):
        v = tr.get(action, tr.get("_"))
        got = v[1].split("::")[-1] if v and v[0] == "variant" else None
        ctx.ob("R5-sibling", "TryFrom<Action> for ObjType|%s -> ObjType::%s" % (action, obj), got == obj, "automerge/src/op_set2/types.rs",
               "recognised" if got == obj else "put_object(.., ObjType::%s) writes Action::%s, which the op set maps to %s: the new object is never registered" % (obj, action, v))


def check_no_clamp(ctx, f, inscope):
    """an out-of-range position or length supplied by the caller must surface as an error: in the functions the listed editing calls
    reach, no saturating / wrapping / clamping arithmetic is applied to a value that derives from an integer parameter (a clamp turns
    an invalid call into a different valid one)"""
    import re
    ctx.rule("R4-clamp", "no saturating_* / wrapping_* / clamp / min / max on values derived from integer parameters of the editing functions")
    CLAMP = re.compile(r"^core::num::(.*::)?(saturating_\w+|wrapping_\w+|clamp)$|^core::cmp::(Ord::)?(min|max|clamp)$")
    n = n_sites = 0
    for p in sorted(inscope):
        r = f.fns[p]
        b = None
        for bi, t in f.calls(r):
            c = norm_fn(t.get("fn")) or ""
            if not CLAMP.match(c):
                continue
            b = b or cfg.body(r)
            n_sites += 1
            # parameters that carry the caller's request (integers, argument structs, props), not the document / log / transaction state
            ints = {i for i in range(1, b.argc + 1) if not any(x in b.local_ty(i) for x in ("Automerge", "PatchLog", "TransactionInner", "OpSet", "Clock", "ObjMeta", "ObjId"))}
            dep = set()
            for a in t["args"]:
                # direct data flow only (moves, arithmetic, field reads): a value a query computed from the argument is the document's
                pv = b.provenance(a, through_calls=False)
                dep |= {i for i, proj in pv.params if i in ints}
            if dep:
                n += 1
                ctx.ob("R4-clamp", "%s|%s" % (norm_fn(p), c.split("::")[-1]), False, t["sp"],
                       "%s is applied to a value derived from the caller's %s: an out-of-range argument is silently replaced instead of being rejected" % (c.split("::")[-1], sorted(b.local_name(i) or i for i in dep)))
    ctx.ob("R4-clamp", "no clamped caller-supplied positions in the editing functions", n == 0, "", "%d clamping operations examined, %d on caller-supplied integers" % (n_sites, n))
