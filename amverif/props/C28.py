"""C28 Rollback restores the exact prior document — rule R11 (do/undo agreement).

Decides: (i) sibling agreement of the do and undo halves: the sets of fields mutated by
add_succ_with_undo / undo_succ, Columns::splice / Columns::remove_ops, OpSet::splice / OpSet::undo_op,
and by the insert_actor / remove_actor pairs of ChangeGraph, OpSet and Automerge are equal (a field
changed by the forward half and not restored by the backward half survives a rollback);
(ii) rollback undoes the pending ops in reverse order through OpSet::undo_op and removes the actor
only when the transaction would have been the actor's first change;
(iii) inside TransactionInner every mutation of the op set (OpSet::splice, add_succ_with_undo) is
recorded: the op is pushed onto `pending` on every path that continues, and the undo list returned by
add_succ_with_undo is stored in the op's `undo` field.
Not decided: that the restored column *values* equal the old ones (SuccUndo contents, reset_top).
"""
import re
from .. import cfg, util, facts
from ..util import norm_fn, callee

OS = "automerge::op_set2::op_set::OpSet"
COLS = "automerge::op_set2::columns::Columns"
CG = "automerge::change_graph::ChangeGraph"
AM = "automerge::automerge::Automerge"
TI = "automerge::transaction::inner::TransactionInner"


def mutated_fields(f, path, depth):
    """field paths (up to `depth` components) under `self` that the function (and its closures) borrows mutably or assigns"""
    out = set()
    bodies = [cfg.body(f.fns[path])] + [cfg.body(r) for r in f.closures_of(path)]
    for b in bodies:
        for blk in b.blocks:
            if blk.get("cleanup"):
                continue
            for s in blk["st"]:
                rv, d = s["rv"], s["d"]
                pls = []
                if rv["k"] in ("Ref", "RawPtr") and rv.get("mut"):
                    pls.append(rv["p"])
                if d["p"] and "*" in d["p"]:
                    pls.append(d)
                for pl in pls:
                    o = b.origin(pl["l"], tuple(pl["p"]))
                    if o[0] != 1 or b is not bodies[0]:
                        if b is bodies[0]:
                            continue
                        # closure: captured `&mut self` is field 0.. of the environment; accept any path through a deref
                        comps = [e[1:] for e in o[1] if e.startswith(".") and not e[1:].isdigit()]
                    else:
                        comps = [e[1:] for e in o[1] if e.startswith(".")]
                    if comps:
                        out.add(".".join(comps[:depth]))
    return out


def check_actor_pair(ctx, f):
    """shared with C07 / C10: cached clocks (and every other actor-indexed structure of the change graph) are re-indexed by
    both insert_actor and remove_actor; historical reads and get_changes walk those cached clocks"""
    pd, pu = find(f, CG + "::insert_actor"), find(f, CG + "::remove_actor")
    ctx.analysed_fns.update([pd, pu])
    fd, fu = reach_fields(f, pd, 1), reach_fields(f, pu, 1)
    check_unconditional_reindex(ctx, f, pd)
    check_unconditional_reindex(ctx, f, pu)
    ctx.ob("R11-fields", "ChangeGraph insert_actor / remove_actor", fd == fu and "clock_cache" in fd, f.fns[pu]["sp"],
           "both re-index %s" % sorted(fd) if fd == fu else "insert_actor re-indexes %s, remove_actor %s: cached clocks / indexes go out of step with the actor table after an abandoned transaction" % (sorted(fd), sorted(fu)))


def control_switches(b, bi):
    """switch blocks block bi is control dependent on (Ferrante et al.): bi post-dominates one of the switch's successors but not
    the switch itself. Post-dominance: every path from a block to a return passes bi."""
    rets = b.returns()

    def postdominated(x):
        if x == bi:
            return True
        reach = b.reachable(x, removed_blocks=(bi,))
        return not any(r_ in reach for r_ in rets)
    out = []
    for sb, sw in b.switches():
        if sb == bi or sb not in b.live_blocks() or not b.can_reach(sb, bi):
            continue
        succs = [tb for _, tb in sw["targets"]] + [sw["otherwise"]]
        succs = [x for x in succs if (sb, x) not in b.infeasible_edges()]
        # a successor from which no return is reachable (the failing arm of an assert, a panic) decides nothing about bi
        succs = [x for x in succs if any(r_ in b.reachable(x) for r_ in rets)]
        if any(postdominated(x) for x in succs) and not postdominated(sb):
            out.append((sb, sw))
    return out


def control_switches_transitive(b, bi):
    """control dependence closed under nesting: `if a { if b { X } }` makes X depend on b's switch and, through it, on a's"""
    out, work, seen = [], [bi], set()
    while work:
        x = work.pop()
        for sb, sw in control_switches(b, x):
            if sb not in seen:
                seen.add(sb)
                out.append((sb, sw))
                work.append(sb)
    return out


def check_unconditional_reindex(ctx, f, p):
    """every cached clock / fragment clock is re-indexed: the per-element calls depend on nothing but the loop's own iterator"""
    b = cfg.body(f.fns[p])
    sites = [(bi, t) for bi, t in b.calls() if (norm_fn(t.get("res") or t.get("fn")) or "").startswith("automerge::clock::SeqClock::") and
             norm_fn(t.get("res") or t.get("fn")).split("::")[-1] in ("remove_actor", "insert_actor", "rewrite_with_new_actor")]
    ctx.floor("per-clock re-index calls in %s" % norm_fn(p).split("::")[-1], len(sites), 2)
    for k, (bi, t) in util.ordinal_keys(sites, lambda it: "%s|%s" % (norm_fn(p).split("ChangeGraph::")[-1], norm_fn(it[1].get("res") or it[1].get("fn")).split("::")[-1])):
        bad = []
        for sb, sw in control_switches_transitive(b, bi):
            src = b.bool_operand_source(sw["op"])
            if src and src["kind"] == "discr" and util.base_ty(src.get("ty") or "") == "core::option::Option":
                d = b.single_def(src["origin"][0])
                if d and d[1] == "t" and norm_fn(d[2].get("fn")) == "core::iter::traits::iterator::Iterator::next":
                    continue
            bad.append(util.where(b, sb))
        ctx.ob("R11-fields", "%s|unconditional" % k, not bad, t["sp"], "runs for every element of the loop" if not bad else
               "the re-index of a cached clock is conditional (%s): a clock that is skipped keeps the old actor numbering" % bad)


def find(f, name):
    c = [p for p in f.fns if norm_fn(p) == name and not p.startswith("bin:")]
    if len(c) != 1:
        raise facts.AnchorMissing(name)
    return c[0]


def run(ctx):
    ctx.level = "proof"
    ctx.decides = ("field sets mutated by each do/undo pair are equal (add_succ_with_undo/undo_succ, Columns::splice/remove_ops, OpSet::splice/undo_op, insert_actor/remove_actor of ChangeGraph, OpSet, Automerge); "
                   "rollback calls undo_op over pending.iter().rev() and remove_actor under seq == 1; every op-set mutation in TransactionInner reaches a pending.push and add_succ_with_undo's result is stored in op.undo.")
    ctx.not_decided = "that the values written back equal the previous values (SuccUndo contents, reset_top ranges); patch-log effects of a rollback."
    ctx.rule("R11-fields", "do/undo sibling agreement on the set of mutated fields")
    ctx.rule("R11-rollback", "rollback: undo_op for each pending op in reverse; actor removed only for a first change")
    ctx.rule("R11-recorded", "must-pass-through: op-set mutation -> pending.push ; undo list stored in op.undo")
    f = ctx.facts()
    pairs = [
        ("add_succ_with_undo / undo_succ", OS + "::add_succ_with_undo", OS + "::undo_succ", 3, "equal"),
        ("Columns::splice / remove_ops", COLS + "::splice", COLS + "::remove_ops", 2, "equal"),
        ("OpSet::splice / undo_op", OS + "::splice", OS + "::undo_op", 1, "subset"),
        ("ChangeGraph insert_actor / remove_actor", CG + "::insert_actor", CG + "::remove_actor", 1, "equal"),
        # depth 3: the mark index (`cols.index.mark`) holds actor indexes of its own and is re-numbered by a call of its own
        ("OpSet insert_actor / remove_actor", OS + "::insert_actor", OS + "::remove_actor", 3, "equal"),
        ("Automerge insert_actor / remove_actor", AM + "::insert_actor", AM + "::remove_actor", 1, "equal"),
    ]
    for name, do, undo, depth, mode in pairs:
        pd, pu = find(f, do), find(f, undo)
        ctx.analysed_fns.update([pd, pu])
        fd = reach_fields(f, pd, depth)
        fu = reach_fields(f, pu, depth)
        ok = (fd == fu) if mode == "equal" else (fd <= fu)
        ctx.ob("R11-fields", name, ok and bool(fd), f.fns[pu]["sp"],
               "both touch %s" % sorted(fd) if ok else "forward half mutates %s, backward half %s: not restored %s, only in undo %s" % (sorted(fd), sorted(fu), sorted(fd - fu), sorted(fu - fd)))
    # opening a transaction mutates nothing that rollback has no inverse for: the queue of held-back changes in particular
    ctx.rule("R11-open", "Automerge::transaction_args (and isolate_actor) mutate only what rollback undoes (the actor table, through get_or_create_actor_index / remove_actor): no call that removes or adds queued changes")
    for fn in (AM + "::transaction_args", AM + "::isolate_actor"):
        tb = ctx.body(fn)
        ctx.analysed_fns.add(find(f, fn))
        qm = [(bi, t) for bi, t in tb.calls() if (callee(t) or "").startswith("automerge::change_queue::ChangeQueue::") and t.get("argtys") and t["argtys"][0].startswith("&mut ")]
        ctx.ob("R11-open", "%s|queue untouched" % fn.split("::")[-1], not qm, (qm[0][1]["sp"] if qm else tb.rec["sp"]),
               "no mutating ChangeQueue call" if not qm else
               "opening a transaction already edits the queue of held-back changes (%s); rollback has no record of it: a rolled-back transaction loses queued changes, get_missing_deps() and save() differ from before" % sorted({callee(t).split("::")[-1] for _, t in qm}))
    check_unconditional_reindex(ctx, f, find(f, CG + "::insert_actor"))
    check_unconditional_reindex(ctx, f, find(f, CG + "::remove_actor"))
    # ---------------- rollback
    rb = ctx.body(TI + "::rollback")
    undo = [(site, t, adaptor) for site, t, owner, adaptor in cfg.inlined_calls(f, rb) if callee(t) == OS + "::undo_op"]
    ctx.floor("undo_op calls in rollback", len(undo), 1)
    for bi, t, adaptor in undo:
        # the op undone is an item of an iteration: either of the enclosing `for` loop or of the adaptor the closure is handed to
        pv = rb.provenance(t["args"][1], through_calls=True) if adaptor is None else rb.provenance(adaptor["args"][0], through_calls=True)
        cs = {norm_fn(c) for c in pv.callees()}
        from_pending = any(".pending" in pr for _, pr in [rb.origin(l, pr) for l, pr in pv.places])
        reversed_ = any(c.endswith("::rev") or "Rev<" in c for c in cs) or (adaptor is not None and "Rev<" in " ".join(adaptor.get("ga", [])))
        in_loop = any(rb.can_reach(s, bi) for s in rb.succ[bi]) if adaptor is None else norm_fn(adaptor.get("fn")).split("::")[-1] in ("for_each", "try_for_each", "fold", "try_fold")
        ctx.ob("R11-rollback", "rollback|undo_op over pending in reverse", from_pending and reversed_ and in_loop, t["sp"], "from pending: %s, reversed: %s, in loop: %s" % (from_pending, reversed_, in_loop))
        # every pending op is undone: no adaptor between `pending` and the loop drops elements
        dropping = sorted(c.split("::")[-1] for c in cs if re.search(r"::(filter|filter_map|skip|skip_while|take|take_while|step_by|map_while)$", c))
        ctx.ob("R11-rollback", "rollback|every pending op is undone", not dropping, t["sp"], "no filtering adaptor on the pending list" if not dropping else
               "the undo loop runs over a filtered view of the pending ops (%s): an op that is skipped stays in the op set after the rollback" % dropping)
    # the successor entries a transaction added are removed in the reverse of the order in which they were added (positions shift)
    us = ctx.body(OS + "::undo_succ")
    splices = [(bi, t) for bi, t in us.calls() if (norm_fn(t.get("fn")) or "").endswith("::splice")]
    ctx.floor("column splices in undo_succ", len(splices), 4)
    nexts = [(bi, t) for bi, t in us.calls() if norm_fn(t.get("fn")) == "core::iter::traits::iterator::Iterator::next"]
    rev_ok = False
    for bi, t in nexts:
        ty = (t.get("ga") or [""])[0]
        pv = us.provenance(t["args"][0], through_calls=True)
        if pv.depends_on_param(2):
            rev_ok = "Rev<" in ty or any(norm_fn(c).endswith("::rev") for c in pv.callees())
    ctx.ob("R11-rollback", "undo_succ|SuccUndo list walked in reverse", rev_ok, us.rec["sp"], "iterates op_pos.iter().rev()" if rev_ok else
           "the recorded successor insertions are undone in the order they were made: later entries shift the sub positions of earlier ones, so the wrong rows are removed")
    # undo_op replays what the forward path recorded: each step depends only on its own record (op.undo, op.obj_info(), op.reset_range)
    ub = ctx.body(OS + "::undo_op")
    steps = [(bi, t) for bi, t in ub.calls() if callee(t) in (OS + "::undo_succ", OS + "::reset_top", COLS + "::remove_ops")]
    ctx.floor("replay steps in undo_op", len(steps), 3)
    own = {"undo_succ": (".undo",), "reset_top": (".reset_range",), "remove_ops": ()}
    for k, (bi, t) in util.ordinal_keys(steps, lambda it: "undo_op|%s" % callee(it[1]).split("::")[-1]):
        name = callee(t).split("::")[-1]
        bad = []
        for sb, sw in control_switches_transitive(ub, bi):
            src = ub.bool_operand_source(sw["op"])
            flds = set()
            if src and src["kind"] in ("discr", "place"):
                flds = {e for e in src["origin"][1] if e.startswith(".")}
            elif src and src["kind"] == "call":
                pv = ub.provenance(src["t"]["args"][0], through_calls=True) if src["t"].get("args") else None
                flds = {e for _, pr in (pv.places if pv else ()) for e in pr if e.startswith(".")}
            if not (flds and flds <= set(own[name])):
                bad.append(util.where(ub, sb))
        ctx.ob("R11-rollback", k + "|depends only on its own record", not bad, t["sp"], "controlled by %s only" % (own[name] or "nothing",) if not bad else
               "this undo step is skipped under a condition other than its own record (%s): a recorded %s is not replayed on rollback" % (bad, name))
    rem = [(bi, t) for bi, t in rb.calls() if callee(t) == AM + "::remove_actor"]
    ctx.floor("remove_actor calls in rollback", len(rem), 1)
    from .. import rules

    def seq1(src):
        if src["kind"] == "bin" and src["op"] == "Eq":
            ks = [util.op_const(o) for o in src["o"]]
            other = [o for o, k in zip(src["o"], ks) if k is None]
            if any(k is not None and k.get("v") == "1" for k in ks) and other:
                o = rb.operand_origin(other[0])
                if o and ".seq" in o[1]:
                    return True
        return None
    edges = rules.guard_edges(rb, seq1)
    for bi, t in rem:
        ctx.ob("R11-rollback", "rollback|remove_actor only when seq == 1", bool(edges) and rb.edges_dominate(edges, bi), t["sp"], "")
    # ---------------- every mutation recorded
    muts = {OS + "::splice", OS + "::add_succ_with_undo"}
    n = 0
    for p, r in sorted(f.fns.items()):
        if r["ckey"] != ("automerge", "lib"):
            continue
        np_ = norm_fn(p)
        if not (np_.startswith(TI + "::") or np_.startswith("automerge::transaction::inner::BatchInsertion::")):
            continue
        b = cfg.body(r)
        sites = [(bi, t) for bi, t in b.calls() if callee(t) in muts]
        if not sites:
            continue
        ctx.analysed_fns.add(p)
        pushes = [bi for bi, t in b.calls() if norm_fn(t.get("fn")) in ("alloc::vec::Vec::push", "core::iter::traits::collect::Extend::extend")
                  and ".pending" in (b.operand_origin(t["args"][0]) or (0, ()))[1]]
        rets = b.returns()
        for k, (bi, t) in util.ordinal_keys(sites, lambda it: "%s|%s" % (np_, callee(it[1]).split("::")[-1])):
            n += 1
            # ops that are spliced *from* pending were recorded before
            already = False
            if callee(t) == OS + "::splice":
                pv = b.provenance(t["args"][2], through_calls=True)
                already = any(".pending" in pr for _, pr in [b.origin(l, pr) for l, pr in pv.places])
            reach = b.reachable(bi, removed_blocks=tuple(pushes))
            escaped = [r_ for r_ in rets if r_ in reach]
            # error returns after a mutation are C06's subject; here only Ok/unit continuations matter
            escaped_ok = []
            for r_ in escaped:
                path_ = b.witness_path(bi, r_, avoid_blocks=pushes)
                errs = any(util.is_err_agg(s["rv"]) or False for x in (path_ or []) for s in b.blocks[x]["st"] if s["d"]["l"] == 0) or \
                    any(b.blocks[x]["t"]["k"] == "call" and b.blocks[x]["t"]["dst"]["l"] == 0 and util.is_from_residual(b.blocks[x]["t"]) for x in (path_ or []))
                if not errs:
                    escaped_ok.append(r_)
            ok = already or (bool(pushes) and not escaped_ok)
            ctx.ob("R11-recorded", k, ok, t["sp"], "recorded in pending on every continuing path" if ok else "op-set mutation can complete without the op being pushed onto pending (rollback would not undo it)")
            if callee(t) == OS + "::add_succ_with_undo":
                d = t["dst"]
                stored = ".undo" in d["p"]
                if not stored:
                    # flows into an .undo field later
                    for blk in b.blocks:
                        for s in blk["st"]:
                            if s["d"]["p"] and s["d"]["p"][-1] == ".undo":
                                pv = b.provenance(s["rv"]["o"][0], through_calls=False) if s["rv"].get("o") else None
                                if pv and (t.get("res") or t.get("fn"), bi) in pv.calls:
                                    stored = True
                ctx.ob("R11-recorded", k + "|undo list kept", stored, t["sp"], "result stored in op.undo" if stored else "the SuccUndo list returned by add_succ_with_undo is dropped: undo_op cannot restore the successor columns")
    ctx.floor("op-set mutation sites in TransactionInner / BatchInsertion", n, 7)


def reach_fields(f, path, depth):
    """mutated fields of `path` including what its direct `self.method()` callees mutate (one level, same type)"""
    out = mutated_fields(f, path, depth)
    b = cfg.body(f.fns[path])
    cont = f.fns[path].get("container")
    for bi, t in b.calls():
        c = t.get("res") or t.get("fn")
        r = f.fns.get(c)
        if r is None or r.get("container") != cont:
            continue
        if t["argtys"] and t["argtys"][0].startswith("&mut ") and (b.operand_origin(t["args"][0]) or (0, ("x",)))[0] == 1 and not [e for e in (b.operand_origin(t["args"][0]) or (0, ()))[1] if e.startswith(".")]:
            out |= mutated_fields(f, c, depth)
    return out
