"""C33 CLI JSON import/export round-trips — rule R16 (sibling agreement of the two importers) + C32's export rules.

Decides: import_map and import_list match every serde_json::Value variant (no wildcard) and, arm by
arm, store the same thing: put/insert are instantiated with the same value type per JSON variant
(() / bool / &String / i64 / u64 / f64), put_object/insert_object get the same ObjType (List for
arrays, Map for objects) and recurse into the matching importer, and the Number arm tries as_i64,
as_u64, as_f64 in that order in both. The export half is AutoSerde, whose structural rules (C32) are
re-run here.
Not decided: that values survive the document round trip (number kinds, key order): runtime values.
"""
from .. import cfg, util, facts
from ..util import norm_fn, callee
from . import C32

IMAP = "bin:automerge::import::import_map"
ILIST = "bin:automerge::import::import_list"
T = "automerge::transaction::transactable::Transactable::"
PAIR = {"put": "store", "insert": "store", "put_object": "store_object", "insert_object": "store_object"}


def arms(b):
    """{variant: region blocks} of the match on the serde_json::Value"""
    out = {}
    wildcard = False
    for sb, sw in b.switches():
        src = b.bool_operand_source(sw["op"])
        if src and src["kind"] == "discr" and util.base_ty(src.get("ty") or "") == "serde_json::value::Value":
            for v, tb in sw["targets"]:
                name = (src["vars"] or {}).get(v)
                out[name] = [x for x in range(b.n) if x in b.live_blocks() and b.block_dominates(tb, x) and not b.blocks[x].get("cleanup")]
            if b.blocks[sw["otherwise"]]["t"]["k"] != "unreachable":
                wildcard = True
            return out, wildcard, set((src["vars"] or {}).values())
    return None, None, None


def describe(b, region, self_name, other_name):
    """ordered description of what an arm does"""
    out = []
    blocks = sorted(region, key=lambda x: sum(1 for y in region if y != x and b.block_dominates(y, x)))
    for bi in blocks:
        t = b.blocks[bi]["t"]
        if t["k"] != "call":
            continue
        fn = t.get("fn") or ""
        if fn.startswith(T) and fn[len(T):] in PAIR:
            kind = PAIR[fn[len(T):]]
            ga = t.get("ga", [])
            if kind == "store":
                out.append(("store", ga[-1] if ga else "?"))
            else:
                # ObjType constant argument
                k = None
                for a in t["args"]:
                    pl = util.op_place(a)
                    c = util.op_const(a)
                    if pl is not None and not pl["p"]:
                        d = b.single_def(pl["l"])
                        if d and d[1] != "t" and d[2]["rv"]["k"] == "Agg" and (d[2]["rv"].get("adt") or "").endswith("types::ObjType"):
                            k = d[2]["rv"]["variant"]
                out.append(("store_object", k))
        elif norm_fn(fn) in ("serde_json::number::Number::as_i64", "serde_json::number::Number::as_u64", "serde_json::number::Number::as_f64"):
            out.append(("try", fn.split("::")[-1]))
        elif callee(t) in (IMAP[4:], ILIST[4:]):
            out.append(("recurse", "same" if callee(t) == self_name[4:] else "other"))
    return out


def run(ctx):
    ctx.level = "proof"
    ctx.decides = ("import_map / import_list: exhaustive match over serde_json::Value; per variant the same value type is stored, the same ObjType is created with recursion into the matching importer, "
                   "and numbers are tried as i64, u64, f64 in that order; AutoSerde's structural export rules (C32) hold.")
    ctx.not_decided = "value-level round trip through a saved document (number kinds after reload, key order)."
    ctx.rule("R16-arms", "both importers have an arm for every JSON variant and no wildcard")
    ctx.rule("R16-sibling", "arm-by-arm agreement of the two importers")
    f = ctx.facts()
    mb, lb = ctx.body(IMAP), ctx.body(ILIST)
    am_, wm, names = arms(mb)
    al, wl, _ = arms(lb)
    if am_ is None or al is None:
        raise facts.AnchorMissing("match on serde_json::Value in the importers")
    ctx.floor("JSON variants", len(names), 6)
    ctx.ob("R16-arms", "import_map|exhaustive", names <= set(am_) and not wm, mb.rec["sp"], "arms %s wildcard %s" % (sorted(am_), wm))
    ctx.ob("R16-arms", "import_list|exhaustive", names <= set(al) and not wl, lb.rec["sp"], "arms %s wildcard %s" % (sorted(al), wl))
    expect_obj = {"Array": "List", "Object": "Map"}
    for v in sorted(names):
        dm = describe(mb, am_.get(v, []), IMAP, ILIST)
        dl = describe(lb, al.get(v, []), ILIST, IMAP)
        # recursion: Array -> import_list, Object -> import_map
        dm_n = [("recurse", "list" if (x[1] == "other") else "map") if x[0] == "recurse" else x for x in dm]
        dl_n = [("recurse", "map" if (x[1] == "other") else "list") if x[0] == "recurse" else x for x in dl]
        ok = dm_n == dl_n and bool(dm_n)
        ctx.ob("R16-sibling", "Value::%s" % v, ok, mb.rec["sp"], "both: %s" % dm_n if ok else "import_map does %s but import_list does %s" % (dm_n, dl_n))
        if v in expect_obj:
            want = [("store_object", expect_obj[v]), ("recurse", "list" if v == "Array" else "map")]
            ctx.ob("R16-sibling", "Value::%s|creates %s and recurses" % (v, expect_obj[v]), dm_n == want, mb.rec["sp"], "%s" % dm_n)
        if v == "Number":
            tries = [x[1] for x in dm_n if x[0] == "try"]
            stores = [x[1] for x in dm_n if x[0] == "store"]
            ctx.ob("R16-sibling", "Value::Number|i64, then u64, then f64", tries == ["as_i64", "as_u64", "as_f64"] and stores == ["i64", "u64", "f64"], mb.rec["sp"], "tries %s stores %s" % (tries, stores))
    # export half: AutoSerde
    C32.run(ctx)
    ctx.level = "proof"
    ctx.decides = ("import_map / import_list: exhaustive match over serde_json::Value; per variant the same value type is stored, the same ObjType is created with recursion into the matching importer, "
                   "numbers are tried as i64, u64, f64 in that order; export goes through AutoSerde whose structural rules (C32) are re-checked.")
    ctx.not_decided = "value-level round trip through a saved document (number kinds after reload, key order)."
