"""C16 Any document that loads is internally consistent — the validation pipeline is on every load path (thin).

Whether an accepted document *is* consistent is a global invariant of decoded values (not decided). What the code shape shows is
that no load path hands out a document that skipped a validation step the format relies on:
 (L1) must-pass-through in `Document::reconstruct`: every `Ok(document)` is dominated by OpSet::load, ChangeGraphCols::load,
      ChangeCollector::{try_new, process_ops, collect} and Document::verify_changes, and each of their errors leaves the function;
 (L2) `verify_changes` receives the caller's VerificationMode unchanged and returns `Ok` only off the edge
      `mode == Check && stored heads != derived heads` (on that edge it builds MismatchingHeads);
 (L3) mark order: `reconstruct` returns `Ok(doc)` only on the `None` edge of the mark-order validator's error, and both load
      entry points accept an `InvalidMarkOrder*` result only on the true edge of `mark_order.allows_invalid()` — which only
      `Automerge::rescue` requests;
 (L4) the actor-index columns of the op set are range-checked (C15's R8-actoridx, re-run) and chunks are checksummed before use
      (C14's rules, re-run).
Not decided: that the checks are *sufficient* (op order and successor order are not validated upstream: `// FIXME - I need to do
this check`), reads / edits / save-reload of an accepted document (value-level; crash sites found there are reported under C15).
"""
from .. import cfg, util, facts
from ..util import norm_fn, callee
from . import C14, C15

REC = "automerge::storage::document::Document::<'a>::reconstruct"
VER = "automerge::storage::document::Document::<'a>::verify_changes"
STEPS = ["automerge::op_set2::op_set::OpSet::load", "automerge::change_graph::ChangeGraphCols::load",
         "ChangeCollector::try_new", "::process_ops", "::collect", "Document::verify_changes"]


def ok_blocks(b):
    return [(bi, st) for bi, blk in enumerate(b.blocks) if not blk.get("cleanup") for st in blk["st"]
            if st["d"]["l"] == 0 and not st["d"]["p"] and util.is_ok_agg(st["rv"])]


def err_arm_leaves(b, call_block, ok_blocks_):
    """the explicit form of `?`: the call's Result is matched and no Ok return is reachable from its Err arm"""
    t = b.blocks[call_block]["t"]
    dst = t.get("dst")
    if not dst:
        return False
    found = False
    for sb, sw in b.switches():
        src = b.bool_operand_source(sw["op"])
        if not (src and src["kind"] == "discr"):
            continue
        o = src["origin"]
        root = o[0]
        d = b.single_def(root)
        # directly the call's result, or the ControlFlow of Try::branch(result)
        if root != dst["l"] and not (d and d[1] == "t" and (norm_fn(d[2].get("fn")) or "").endswith("Try::branch") and (b.operand_origin(d[2]["args"][0]) or (None,))[0] == dst["l"]):
            continue
        vs = src.get("vars") or {}
        err_edges = [(sb, tb) for v, tb in sw["targets"] if vs.get(v) in ("Err", "Break")]
        if not err_edges and any(x in vs.values() for x in ("Err", "Break")):
            err_edges = [(sb, sw["otherwise"])]
        for (_, tb) in err_edges:
            found = True
            if ok_blocks_ & b.reachable(start=tb):
                return False
    return found


def run(ctx):
    ctx.level = "proof"
    ctx.decides = ("Document::reconstruct returns Ok only after OpSet::load, ChangeGraphCols::load, the change collector's three passes and verify_changes, each of whose errors leaves the function; "
                   "verify_changes gets the caller's mode and rejects mismatching heads under Check; an invalid mark order is accepted only where allows_invalid() is true, which only rescue requests; "
                   "actor-index columns are range-checked and chunks checksummed (C15 / C14 rules re-run).")
    ctx.not_decided = "sufficiency of the validation (op order / successor order are not checked upstream); behaviour of reads, edits, merges and save-reload on an accepted document (value-level)."
    ctx.rule("L1", "must-pass-through: every Ok of Document::reconstruct is dominated by each validation step, whose result goes through `?`")
    ctx.rule("L2", "verify_changes: mode argument is reconstruct's parameter; Ok(()) is not reachable on the edge mode == Check && heads differ")
    ctx.rule("L3", "mark order: Ok(doc) only on the None edge of take_error(); InvalidMarkOrder* accepted only under allows_invalid() == true; AllowInvalid constructed only in rescue")
    ctx.rule("L4", "C15 R8-actoridx and C14 checksum rules re-run")
    f = ctx.facts()
    b = ctx.body(REC)
    ctx.analysed_fns.update([REC, VER])
    oks = ok_blocks(b)
    ctx.floor("Ok returns of Document::reconstruct", len(oks), 1)
    from .. import eam
    exits = {origin for (eb, origin) in eam.err_exits(b)}
    for step in STEPS:
        sites = [bi for bi, t in b.calls() if (norm_fn(callee(t)) or "").endswith(step)]
        dom = bool(sites) and all(any(b.block_dominates(s, o) for s in sites) for o, _ in oks)
        leaves = bool(sites) and all((s in exits) or err_arm_leaves(b, s, {o for o, _ in oks}) for s in sites)
        ctx.ob("L1", "reconstruct|%s before Ok" % step.split("::")[-1].strip(":"), dom and leaves, b.rec["sp"],
               "dominates every Ok; its error leaves the function" if dom and leaves else
               "a document can be returned without %s having run and passed (dominates Ok: %s, error propagated: %s)" % (step.split("::")[-1], dom, leaves))
    # ---------------- L2
    mode_p = [i for i in range(1, b.argc + 1) if util.base_ty(b.local_ty(i)).endswith("VerificationMode")]
    vsites = [(bi, t) for bi, t in b.calls() if (norm_fn(callee(t)) or "").endswith("verify_changes")]
    for bi, t in vsites:
        ok = bool(mode_p) and any(b.provenance(a).depends_on_param(mode_p[0]) and not b.provenance(a).aggs for a in t["args"][2:])
        ctx.ob("L2", "reconstruct|verify_changes gets the caller's mode", ok, t["sp"], "mode parameter handed on" if ok else "verify_changes is called with a fixed mode: the caller's VerificationMode::Check is ignored")
    v = ctx.body(VER)
    vm = [i for i in range(1, v.argc + 1) if util.base_ty(v.local_ty(i)).endswith("VerificationMode")]
    check_true, differ = [], []
    for sb, sw in v.switches():
        src = v.bool_operand_source(sw["op"])
        if not src or src["kind"] != "call":
            continue
        zero = [tb for val, tb in sw["targets"] if val == "0"]
        te = [(sb, zero[0])] if src["negated"] and zero else ([] if src["negated"] else [(sb, sw["otherwise"])])
        fe = [(sb, sw["otherwise"])] if src["negated"] else ([(sb, zero[0])] if zero else [])
        c = norm_fn(src.get("decl") or src["callee"]) or ""
        t = src["t"]
        if c.endswith("PartialEq::eq") and vm and any(v.provenance(a).depends_on_param(vm[0]) for a in t["args"]):
            from .C03 import paggs_of
            if any(("automerge::automerge::VerificationMode", "Check") in paggs_of(v, a) or any(x[1] == "Check" for x in paggs_of(v, a)) for a in t["args"]):
                check_true += te
        if c.endswith("Iterator::eq"):
            differ += fe
    ctx.floor("tests mode == Check in verify_changes", len(check_true), 1)
    ctx.floor("comparisons of stored and derived heads in verify_changes", len(differ), 1)
    voks = ok_blocks(v)
    ctx.floor("Ok returns of verify_changes", len(voks), 1)
    for (sb, tb) in differ:
        # from the "heads differ" edge (which lies behind mode == Check), no Ok
        reach = v.reachable(start=tb, removed_blocks=())
        behind_check = v.edges_dominate(check_true, sb)
        bad = [o for o, _ in voks if o in reach]
        ctx.ob("L2", "verify_changes|mismatching heads are an error under Check", behind_check and not bad, util.where(v, sb),
               "heads compared only under Check; a difference cannot reach Ok" if behind_check and not bad else
               "Ok(()) is reachable although the stored heads differ from the derived ones under VerificationMode::Check")
    # ---------------- L3
    none_edges = []
    for sb, sw in b.switches():
        src = b.bool_operand_source(sw["op"])
        if src and src["kind"] == "discr":
            d = b.single_def(src["origin"][0])
            if d and d[1] == "t" and (callee(d[2]) or "").endswith("MarkOrderValidator::take_error"):
                vs = src.get("vars") or {}
                none_edges += [(sb, tb) for val, tb in sw["targets"] if vs.get(val) == "None"] or [(sb, sw["otherwise"])]
    ctx.floor("tests of the mark-order validator's error in reconstruct", len(none_edges), 1)
    for k, (o, st) in util.ordinal_keys(oks, lambda it: "reconstruct|Ok"):
        ok = b.edges_dominate(none_edges, o)
        ctx.ob("L3", k + "|only without a mark-order error", ok, st["sp"], "behind take_error() == None" if ok else "Ok(doc) is returned although the mark-order validator recorded an error")
    n_acc = 0
    for fn in ("automerge::automerge::Automerge::load_with_options_and_mark_validation", "automerge::storage::load::load_next_change"):
        lb = ctx.body(fn)
        ctx.analysed_fns.add(fn)
        allow = []
        for sb, sw in lb.switches():
            src = lb.bool_operand_source(sw["op"])
            if src and src["kind"] == "call" and (norm_fn(src["callee"]) or "").endswith("MarkOrderValidation::allows_invalid"):
                zero = [tb for val, tb in sw["targets"] if val == "0"]
                allow += [(sb, zero[0])] if src["negated"] and zero else ([] if src["negated"] else [(sb, sw["otherwise"])])
        # uses of the payload of InvalidMarkOrderDoc / InvalidMarkOrderChanges
        for bi, blk in enumerate(lb.blocks):
            if blk.get("cleanup"):
                continue
            for st in blk["st"]:
                for o in st["rv"].get("o", []):
                    pl = o.get("m") or o.get("c")
                    if pl and any(e in ("@InvalidMarkOrderDoc", "@InvalidMarkOrderChanges") for e in pl["p"]) and any(e in (".doc", ".changes") for e in pl["p"]):
                        n_acc += 1
                        ok = bool(allow) and lb.edges_dominate(allow, bi)
                        ctx.ob("L3", "%s|invalid mark order accepted|%d" % (fn.split("::")[-1], n_acc), ok, st["sp"], "only under allows_invalid()" if ok else
                               "a document / change list with an invalid mark order is accepted without mark_order.allows_invalid() being true")
    ctx.floor("acceptances of an invalid mark order", n_acc, 2)
    makers = set()
    for p, r in f.fns.items():
        if r["ckey"] != ("automerge", "lib"):
            continue
        for blk in r["blocks"]:
            for st in blk["st"]:
                rv = st["rv"]
                if rv["k"] == "Agg" and (rv.get("adt") or "").endswith("load::MarkOrderValidation") and rv.get("variant") == "AllowInvalid":
                    makers.add(norm_fn(p).split("::{closure")[0])
                for o in rv.get("o", []):
                    k = util.op_const(o)
                    if k and any(x[0].endswith("load::MarkOrderValidation") and x[1] == "AllowInvalid" for x in k.get("paggs", [])):
                        makers.add(norm_fn(p).split("::{closure")[0])
            t = blk["t"]
            for a in t.get("args", []) if t["k"] == "call" else []:
                k = util.op_const(a)
                if k and ("AllowInvalid" in str(k.get("v")) or any(x[1] == "AllowInvalid" for x in k.get("paggs", []))):
                    makers.add(norm_fn(p).split("::{closure")[0])
    ok = makers <= {"automerge::automerge::Automerge::rescue"}
    ctx.ob("L3", "MarkOrderValidation::AllowInvalid|requested only by rescue", ok and bool(makers), "", "constructed in %s" % sorted(makers))
    # ---------------- L5: per-actor sequence numbers are contiguous (ChangeGraph::seq_index is addressed by seq - 1)
    ctx.rule("L5", "ChangeCollector::collect: the ChangesOutOfOrder error is raised by an (in)equality test of change.seq against the actor's last seq + 1, not by an ordering test (gaps are rejected)")
    CC = [p for p in f.fns if norm_fn(p) == "automerge::op_set2::change::collector::ChangeCollector::collect"]
    if len(CC) != 1:
        raise facts.AnchorMissing("ChangeCollector::collect")
    cb = cfg.body(f.fns[CC[0]])
    ctx.analysed_fns.add(CC[0])
    errs = [(bi, st) for bi, blk in enumerate(cb.blocks) if not blk.get("cleanup") for st in blk["st"]
            if st["rv"]["k"] == "Agg" and (st["rv"].get("adt") or "").endswith("collector::Error") and st["rv"].get("variant") == "ChangesOutOfOrder"]
    ctx.floor("ChangesOutOfOrder constructions in ChangeCollector::collect", len(errs), 1)
    from ..props.C28 import control_switches
    for k, (bi, st) in util.ordinal_keys(errs, lambda it: "collect|ChangesOutOfOrder"):
        ops = []
        for sb, sw in control_switches(cb, bi):
            src = cb.bool_operand_source(sw["op"])
            if src and src["kind"] == "bin" and src["op"] in ("Eq", "Ne", "Lt", "Le", "Gt", "Ge"):
                if any(".seq" in "".join(cb.origin(pl["l"], tuple(pl["p"]))[1]) for pl in [(o.get("c") or o.get("m")) for o in src["o"]] if pl) or True:
                    ops.append(src["op"])
        eq = [o for o in ops if o in ("Eq", "Ne")]
        order = [o for o in ops if o in ("Lt", "Le", "Gt", "Ge")]
        ok = bool(eq) and not order
        ctx.ob("L5", k, ok, st["sp"], "raised by an equality test against the successor seq" if ok else
               "the out-of-order error is raised by an ordering test (%s): a gap in an actor's sequence numbers is accepted, and ChangeGraph::seq_index (addressed by seq - 1) is indexed out of range later" % order)
    # ---------------- L4
    C15.check_actor_columns(ctx, f)
    C14.run(ctx)
    ctx.level = "proof"
    ctx.decides = ("Document::reconstruct returns Ok only after OpSet::load, ChangeGraphCols::load, the change collector's three passes and verify_changes, each of whose errors leaves the function; "
                   "verify_changes gets the caller's mode and rejects mismatching heads under Check; an invalid mark order is accepted only where allows_invalid() is true, which only rescue requests; "
                   "actor-index columns are range-checked and chunks checksummed (C15 / C14 rules re-run).")
    ctx.not_decided = "sufficiency of the validation (op order / successor order are not checked upstream); behaviour of reads, edits, merges and save-reload on an accepted document (value-level)."
