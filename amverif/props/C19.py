"""C19 Identifiers and sync state serialize losslessly — rule R5 (codec agreement: wire grammar + field identity).

Decides: for each encode/decode pair the *wire grammar* agrees — every token sequence the writer can
emit (raw bytes, LEB128 integers, counted repetitions, with helper functions and closures inlined)
is one the reader consumes on a non-error path (the reader may accept more: legacy formats) — and
for the pairs that carry several integers the k-th integer written comes from the field that the
k-th integer read is stored into (field identity, by provenance); and for every pair the set of fields of `self`
the encoder reads equals the set of fields the decoder fills from the parsed input (a persisted field must be the one restored).
Pairs: ExId::{to_bytes, try_from}, Cursor::{to_bytes, try_from(&[u8])}, BloomFilter::{to_bytes, parse},
chunk::Header::{write, parse}, sync::State::{encode, parse}, sync::Message::{encode, parse}.
Resolution of a decoded id against a replica with different actor numbering is decided under C30.
Not decided: value-level equality after a round trip (e.g. that LEB128 encodes the number it was given).
"""
from .. import cfg, util, facts, wire
from ..util import norm_fn, callee

PAIRS = [
    ("ExId", "automerge::exid::ExId::to_bytes", "<automerge::exid::ExId as core::convert::TryFrom<&'a [u8]>>::try_from"),
    ("Cursor", "automerge::cursor::Cursor::to_bytes", "<automerge::cursor::Cursor as core::convert::TryFrom<&'a [u8]>>::try_from"),
    ("BloomFilter", "automerge::sync::bloom::BloomFilter::to_bytes", "automerge::sync::bloom::BloomFilter::parse"),
    ("chunk::Header", "automerge::storage::chunk::Header::write", "automerge::storage::chunk::Header::parse"),
    ("sync::State", "automerge::sync::state::State::encode", "automerge::sync::state::State::parse"),
    ("sync::Message", "automerge::sync::Message::encode", "automerge::sync::Message::parse"),
]
LEB_W = ("leb128::write::unsigned", "leb128::write::signed")
LEB_R = ("automerge::storage::parse::leb128::leb128_u64", "automerge::storage::parse::leb128::leb128_u32", "automerge::storage::parse::leb128::leb128_i64")
INPUT = "automerge::storage::parse::Input"
# (name, writer, reader, aggregate built by the reader, variant, {writer-side field key: reader-side field name})
FIELDS = [
    ("ExId", PAIRS[0][1], PAIRS[0][2], "automerge::exid::ExId", "Id", None),
    ("Cursor", PAIRS[1][1], PAIRS[1][2], "automerge::cursor::OpCursor", "OpCursor", None),
    ("BloomFilter", PAIRS[2][1], PAIRS[2][2], "automerge::sync::bloom::BloomFilter", "BloomFilter", None),
]


def ordered(b, blocks):
    """order blocks by dominance (a before b when a dominates b)"""
    out = list(blocks)
    out.sort(key=lambda x: sum(1 for y in blocks if y != x and b.block_dominates(y, x)))
    return out


def field_of_place(pr):
    """last field / variant-field component of a projection, e.g. ('*','@Id','.2') -> '2' ; ('*','.num_probes') -> 'num_probes'"""
    fs = [e[1:] for e in pr if e.startswith(".")]
    return fs[-1] if fs else None


def writer_int_fields(b, variant=None):
    """ordered list of sets of self-fields feeding each LEB128 write"""
    sites = [(bi, t) for bi, t in b.calls() if norm_fn(t.get("fn")) in LEB_W]
    out = []
    for bi in ordered(b, [s[0] for s in sites]):
        t = b.blocks[bi]["t"]
        pv = b.provenance(t["args"][1], through_calls=True)
        fs = set()
        for l, pr in pv.places:
            o = b.origin(l, pr)
            if o[0] == 1:
                f = field_of_place([e for e in o[1] if e not in ("*", "&")])
                if f is not None:
                    fs.add(f)
        out.append(fs)
    return out


def reader_int_fields(b, adt, variant):
    sites = [bi for bi, t in b.calls() if norm_fn(t.get("fn")) in LEB_R]
    sites = ordered(b, sites)
    aggs = [s for blk in b.blocks for s in blk["st"] if s["rv"]["k"] == "Agg" and s["rv"].get("adt") == adt and s["rv"].get("variant") == variant]
    out = [set() for _ in sites]
    for s in aggs:
        rv = s["rv"]
        for fname, op in zip(rv["fields"], rv["o"]):
            pv = b.provenance(op, through_calls=True, skip_arg_ty=lambda ty: util.base_ty(ty) == INPUT)
            for (c, cb) in pv.calls:
                if cb in sites:
                    out[sites.index(cb)].add(fname)
    return out, len(aggs)


def run(ctx):
    ctx.level = "proof"
    ctx.decides = ("for ExId, Cursor, BloomFilter, chunk Header, sync State and sync Message: every token sequence (RAW / LEBU / LEBI / counted LOOP, helpers and closures inlined) "
                   "the encoder can emit is consumed by the decoder on a non-error path; for ExId, Cursor and BloomFilter the k-th integer written comes from the field the k-th integer read is stored into.")
    ctx.not_decided = "value-level round-trip equality; Display/FromStr text forms; correctness of LEB128 itself. Resolution against differently numbered actors is C30."
    ctx.rule("R5-grammar", "writer token sequences ⊆ reader token sequences (normalised; look-ahead reads and zero-iteration artefacts removed)")
    ctx.rule("R5-payload", "the set of self fields the encoder reads equals the set of fields the decoder fills from parsed input (derived fields listed)")
    ctx.rule("R5-field", "field identity: per integer position, the field written is among the fields the value read at that position is stored into")
    ctx.rule("R5-mask", "bit preservation: every flag bit passed to MessageFlags::set / contains anywhere in the crate survives the masks applied by MessageFlags::encode and MessageFlags::parse_bytes (constant-folded u8 masks)")
    f = ctx.facts()
    check_flag_masks(ctx, f)
    for name, w, r in PAIRS:
        for p in (w, r):
            if p not in f.fns:
                raise facts.AnchorMissing(p)
            ctx.analysed_fns.add(p)
        try:
            ws = wire.Abstractor(f, "w").seqs(w)
            ra = wire.Abstractor(f, "r")
            rs = ra.seqs(r)
        except wire.TooManyPaths as e:
            ctx.ob("R5-grammar", "%s|grammar" % name, False, f.fns[w]["sp"], "too many paths to enumerate in %s" % e)
            continue
        ws_nonempty = {s for s in ws if s}
        ctx.ob("R5-grammar", "%s|writer emits something" % name, bool(ws_nonempty), f.fns[w]["sp"], "%d sequence(s)" % len(ws), nontrivial=False)
        for k, s in util.ordinal_keys(sorted(ws, key=str), lambda s: "%s|writer sequence accepted" % name):
            ok = s in rs
            ctx.ob("R5-grammar", k, ok, f.fns[w]["sp"], "%s" % (s,) if ok else "writer can emit %s but the reader only accepts %s" % (s, sorted(rs, key=str)))
        ctx.samples.append({"pair": name, "writer": [list(map(str, s)) for s in sorted(ws, key=str)], "reader_only": [list(map(str, s)) for s in sorted(rs - ws, key=str)]})
    # ---- payload fields: what the encoder reads from self is what the decoder fills from the input
    for name, w, r in PAIRS:
        W, R, naggs, selfty = payload_fields(f, w, r)
        ctx.floor("%s: constructions of %s in the reader" % (name, selfty.split("::")[-1]), naggs, 1)
        extra = R - W - DERIVED.get(name, set())
        ok = bool(W) and W <= R and not extra
        ctx.ob("R5-payload", "%s|fields encoded == fields decoded" % name, ok, f.fns[w]["sp"],
               "both: %s" % sorted(W) if ok else "the encoder reads %s of self but the decoder fills %s from the input: written-not-read %s, read-not-written %s" % (sorted(W), sorted(R), sorted(W - R), sorted(extra)))
    # ---- field identity
    for name, w, r, adt, variant, _ in FIELDS:
        wb, rb = ctx.body(w), ctx.body(r)
        wf = writer_int_fields(wb)
        rf, naggs = reader_int_fields(rb, adt, variant)
        ctx.floor("%s: integers written" % name, len(wf), 2)
        ctx.floor("%s: %s::%s constructions in the reader" % (name, adt.split("::")[-1], variant), naggs, 1)
        # reader may have extra (legacy) integer reads; align on the writer's count from the first read of the current format:
        # compare as multisets position by position over the longest common alignment of counts
        if len(rf) < len(wf):
            ctx.ob("R5-field", "%s|integer count" % name, False, rb.rec["sp"], "writer writes %d integers, reader reads %d" % (len(wf), len(rf)))
            continue
        # find an offset at which all positions agree
        hit = None
        for off in range(0, len(rf) - len(wf) + 1):
            if all(a and norm_fields(a) <= norm_fields(b_) for a, b_ in zip(wf, rf[off:off + len(wf)])):
                hit = off
                break
        ctx.ob("R5-field", "%s|k-th integer written and read belong to the same field" % name, hit is not None, rb.rec["sp"],
               "write-side fields %s, read-side fields %s" % ([sorted(x) for x in wf], [sorted(x) for x in rf]))


# fields the reader computes from the input rather than reads verbatim (not written by the encoder)
DERIVED = {"chunk::Header": {"hash", "header_size"}}


def payload_fields(f, w, r):
    """(fields of self the writer reads, fields of the same type the reader fills from parsed input)"""
    wb, rb = cfg.body(f.fns[w]), cfg.body(f.fns[r])
    W = set()

    def note(pl):
        if pl is None:
            return
        o = wb.origin(pl["l"], tuple(pl["p"]))
        if o[0] == 1:
            fl = [e for e in o[1] if e.startswith(".")]
            if fl:
                W.add(fl[0][1:])
    for blk in wb.blocks:
        if blk.get("cleanup"):
            continue
        for st in blk["st"]:
            rv = st["rv"]
            if "p" in rv:
                note(rv["p"])
            for o in rv.get("o", ()):
                note(util.op_place(o))
        t = blk["t"]
        if t["k"] == "call":
            for a in t["args"]:
                note(util.op_place(a))
    selfty = util.base_ty(wb.local_ty(1))
    R, naggs = set(), 0
    a = f.adts.get(selfty)
    for blk in rb.blocks:
        if blk.get("cleanup"):
            continue
        for st in blk["st"]:
            rv = st["rv"]
            if rv["k"] == "Agg" and rv.get("adt") == selfty and a:
                var = [v for v in a["variants"] if v["name"] == rv["variant"]]
                if not var:
                    continue
                naggs += 1
                for i, o in enumerate(rv.get("o", [])):
                    pv = rb.provenance(o, through_calls=True)
                    if pv.params or any("parse" in norm_fn(c) for c in pv.callees()):
                        R.add(var[0]["fields"][i]["name"])
    return W, R, naggs, selfty


def norm_fields(s):
    """tuple-variant fields are '0','1','2' on both sides; struct fields by name. `bits`/len-carrying reads are ignored."""
    return frozenset(x for x in s)



MF = "automerge::sync::MessageFlags"


def const_u8(b, op, depth=0):
    """constant-fold an operand to an int when it is a literal / named constant or Not / BitAnd / BitOr / BitXor of such"""
    if "k" in op:
        v = op["k"].get("v")
        try:
            return int(v) & 0xFF if v is not None else None
        except ValueError:
            return None
    pl = op.get("c") or op.get("m")
    if pl is None or pl["p"] or depth > 8:
        return None
    d = b.single_def(pl["l"])
    if d is None or d[1] == "t":
        return None
    rv = d[2]["rv"]
    if rv["k"] in ("Use", "Cast"):
        return const_u8(b, rv["o"][0], depth + 1)
    if rv["k"] == "Un" and rv["op"] == "Not":
        v = const_u8(b, rv["o"][0], depth + 1)
        return None if v is None else (~v) & 0xFF
    if rv["k"] == "Bin" and rv["op"] in ("BitAnd", "BitOr", "BitXor"):
        x, y = const_u8(b, rv["o"][0], depth + 1), const_u8(b, rv["o"][1], depth + 1)
        if x is None or y is None:
            return None
        return {"BitAnd": x & y, "BitOr": x | y, "BitXor": x ^ y}[rv["op"]]
    return None


def kept_bits(b, op, acc=None, depth=0):
    """over-approximation of the bit positions at which a non-constant input can pass unchanged into `op` (0xFF when unknown);
    `acc` is an accumulator place (local, proj tuple) whose old value does not count as input"""
    if const_u8(b, op) is not None:
        return 0
    pl = op.get("c") or op.get("m")
    if pl is None:
        return 0xFF
    if acc is not None and (pl["l"], tuple(pl["p"])) == acc:
        return 0
    if pl["p"] or depth > 12:
        return 0xFF
    d = b.single_def(pl["l"])
    if d is None or d[1] == "t":
        return 0xFF
    return kept_bits_rv(b, d[2]["rv"], acc, depth + 1)


def kept_bits_rv(b, rv, acc=None, depth=0):
    if rv["k"] in ("Use", "Cast"):
        return kept_bits(b, rv["o"][0], acc, depth)
    if rv["k"] == "Bin" and rv["op"] == "BitAnd":
        x, y = rv["o"]
        cx, cy = const_u8(b, x), const_u8(b, y)
        if cy is not None:
            return kept_bits(b, x, acc, depth) & cy
        if cx is not None:
            return kept_bits(b, y, acc, depth) & cx
        return kept_bits(b, x, acc, depth) | kept_bits(b, y, acc, depth)
    if rv["k"] == "Bin" and rv["op"] in ("BitOr", "BitXor"):
        return kept_bits(b, rv["o"][0], acc, depth) | kept_bits(b, rv["o"][1], acc, depth)
    return 0xFF


def check_flag_masks(ctx, f):
    # the flag bits in use: constants handed to set() / contains()
    used = {}
    for p, r in sorted(f.fns.items()):
        if r["ckey"] != ("automerge", "lib"):
            continue
        for bi, t in f.calls(r):
            if callee(t) in (MF + "::set", MF + "::contains") and len(t["args"]) == 2:
                v = const_u8(cfg.body(r), t["args"][1])
                if v is not None:
                    used.setdefault(v, []).append(t["sp"])
    ctx.floor("distinct constant flags passed to MessageFlags::set / contains", len(used), 3)
    need = 0
    for v in used:
        need |= v
    pb = ctx.body(MF + "::parse_bytes")
    stores = [(bi, st) for bi, blk in enumerate(pb.blocks) for st in blk["st"] if st["d"]["p"] == [".0"] and util.base_ty(pb.local_ty(st["d"]["l"])) == MF and st["rv"]["k"] != "Use"]
    ctx.floor("stores into MessageFlags.0 in parse_bytes", len(stores), 1)
    kept = 0
    for bi, st in stores:
        kept |= kept_bits_rv(pb, st["rv"], acc=(st["d"]["l"], (".0",)))
    ok = kept & need == need
    ctx.ob("R5-mask", "MessageFlags::parse_bytes|flag bits in use survive the mask", ok, pb.rec["sp"], "kept 0x%02x covers flags in use 0x%02x" % (kept, need) if ok else
           "parse_bytes keeps only bits 0x%02x of a bitfield byte but flags 0x%02x are set / tested in the crate (%s): a message carrying such a flag decodes to a different value" %
           (kept, need, ", ".join("0x%02x at %s" % (v, used[v][0]) for v in sorted(used) if v & ~kept)))
    eb = ctx.body(MF + "::encode")
    pushes = [(bi, t) for bi, t in eb.calls() if (norm_fn(t.get("fn")) or "").endswith("Vec::push") and eb.provenance(t["args"][1]).depends_on_param(1)]
    ctx.floor("pushes of the flag byte in MessageFlags::encode", len(pushes), 1)
    kept = 0
    for bi, t in pushes:
        kept |= kept_bits(eb, t["args"][1])
    ok = kept & need == need
    ctx.ob("R5-mask", "MessageFlags::encode|flag bits in use are written", ok, eb.rec["sp"], "written 0x%02x covers flags in use 0x%02x" % (kept, need) if ok else
           "encode writes only bits 0x%02x of the flags but 0x%02x are in use" % (kept, need))
