"""C39 Strings decoded from untrusted bytes are always valid UTF-8 — rule R6 (validated-bytes discipline).

Decides: (U1) the workspace contains exactly one unchecked byte->str conversion
(`<String as RleValue>::unpack`); (U2) hexane's validating load path (RleLoadIter, rle_validate_encoding,
RleDecoder::try_next_segment) decodes values only with the checking `try_unpack` and never reaches
`unpack`; (U3) a trusting RleDecoder is constructed inside hexane only by the reviewed set of
functions, so external bytes reach one only through the four public trusting constructors;
(U4) outside hexane every call of a trusting constructor whose value type carries `String` is over
a literal empty slice or is dominated by a validating `Column::load` of the same bytes whose error
exits; (U5) slabs/columns are built without validation only by hexane's own encoders.
Not decided: that application-level values (e.g. `ScalarValue::Str`) decoded through the checked
conversions are what was written.
"""
import re
from .. import cfg, util, rules, facts, callgraph
from ..util import callee, decl, norm_fn

UNPACK_DECL = "hexane::RleValue::unpack"
TRY_UNPACK_DECL = "hexane::RleValue::try_unpack"
STRING_UNPACK = "<alloc::string::String as hexane::RleValue>::unpack"
TRUSTING = {"hexane::decoder", "hexane::decoder_in", "hexane::leb128::decoder", "hexane::bijou::decoder", "hexane::delta::decoder::DeltaDecoder::new"}
VALIDATING_LOAD = re.compile(r"^hexane::(column::Column|prefix::PrefixColumn|delta::DeltaColumn)::(load|load_with|load_iter)$")
RLE_NEW = "hexane::rle::decoder::RleDecoder::new"
RLE_NEW_ALLOWED = {
    "<hexane::rle::RleEncoding<T, C> as hexane::encoding::ColumnEncoding>::decoder": "the public trusting constructor (callers checked by U4) and slab iterators over validated/self-encoded slabs",
    "<hexane::rle::RleEncoding<T, C> as hexane::encoding::ColumnEncoding>::state_at": "positions a decoder inside an existing slab of a Column",
    "hexane::encoder::RleEncoder::walk_runs": "re-reads bytes the encoder itself produced",
    "hexane::rle::load::RleLoadIter::new": "the validating loader: pulls segments with try_next_segment only (U2)",
    "hexane::rle::load::rle_validate_encoding": "validation pass: try_next_segment only (U2)",
    "hexane::rle::splice::find_partition_inner": "walks an existing slab during splice",
}
FROM_SLABS_ALLOWED_PREFIX = ("hexane::encoder::",)


def unchecked_conversions(f):
    out = []
    for p, r in f.fns.items():
        for bi, blk in enumerate(r["blocks"]):
            t = blk["t"]
            if t["k"] == "call":
                c = t.get("fn") or ""
                if "from_utf8_unchecked" in c or c in ("core::str::from_raw_parts", "core::str::from_raw_parts_mut"):
                    out.append((p, c, t["sp"]))
            for s in blk["st"]:
                rv = s["rv"]
                is_str = lambda ty: "str" in re.split(r"[^A-Za-z_]", ty) or "alloc::string::String" in ty
                # a transmute *into* a str-carrying type from a type that is not already one (Box<str>/NonNull<str> derefs are not conversions)
                if rv["k"] == "Cast" and rv.get("ck") == "Transmute" and is_str(rv["ty"]) and not is_str(rv.get("from", "")) and "mac" not in s:
                    out.append((p, "transmute to %s" % rv["ty"], s["sp"]))
    return out


def run(ctx):
    ctx.level = "proof"
    ctx.decides = ("exactly one unchecked str conversion exists; hexane's validating load path cannot reach RleValue::unpack and decodes with try_unpack; trusting "
                   "RleDecoders are constructed only by the reviewed functions; outside hexane every String-typed trusting decoder is over a literal empty slice or "
                   "dominated by a validating Column::load of the same bytes; Column::from_slabs is called only by encoders.")
    ctx.not_decided = "value-level fidelity of decoded strings; memory safety of other unsafe code (none in automerge/hexane besides this conversion is asserted by U1)."
    ctx.rule("U1", "inventory of unchecked byte->str conversions (from_utf8_unchecked, str::from_raw_parts, transmute to str/String) in all four crates == {<String as RleValue>::unpack}")
    ctx.rule("U2", "call-graph closure of the validating load path contains no RleValue::unpack; try_next_segment calls try_unpack")
    ctx.rule("U3", "callers of RleDecoder::new are the reviewed set")
    ctx.rule("U4", "must-validate-before-trust for String-typed trusting decoders outside hexane")
    ctx.rule("U5", "Column::from_slabs (skips validation) is called only from hexane::encoder")
    f = ctx.facts()
    cg = callgraph.get(f)
    # ---- U1
    un = unchecked_conversions(f)
    for (p, c, sp) in un:
        ctx.ob("U1", "%s|%s" % (norm_fn(p), c.split("::")[-1]), p == STRING_UNPACK, sp, "unchecked conversion allowed only in <String as RleValue>::unpack")
    ctx.floor("unchecked byte->str conversions found", len(un), 1)
    checked = 0
    for p, r in f.fns.items():
        for bi, t in f.calls(r):
            if (t.get("fn") or "") in ("core::str::from_utf8", "alloc::string::String::from_utf8", "core::str::converts::from_utf8"):
                checked += 1
    ctx.floor("checked from_utf8 call sites", checked, 8)
    ctx.note("checked from_utf8 call sites in the four crates: %d" % checked)
    # ---- U2
    roots = [p for p in f.fns if norm_fn(p) in ("hexane::rle::load::RleLoadIter::try_next_run", "hexane::rle::load::RleLoadIter::finalize", "hexane::rle::load::rle_validate_encoding")]
    ctx.floor("validating load entry functions", len(roots), 3)
    unpack_impls = {p for p, r in f.fns.items() if r.get("trait_item") == UNPACK_DECL} | {UNPACK_DECL}
    for rp in sorted(roots):
        ctx.analysed_fns.add(rp)
        reach = cg.reach([rp])
        hit = reach & unpack_impls
        path = cg.path(rp, unpack_impls) if hit else None
        ctx.ob("U2", "%s|never reaches unpack" % norm_fn(rp), not hit, f.fns[rp]["sp"], "%d functions reachable, none is RleValue::unpack" % len(reach) if not hit else "validating path reaches the unchecked decoder via %s" % path)
    tns = [p for p in f.fns if norm_fn(p) == "hexane::rle::decoder::RleDecoder::try_next_segment"]
    if len(tns) != 1:
        raise facts.AnchorMissing("RleDecoder::try_next_segment")
    tb = ctx.body(tns[0])
    reach = cg.reach([tns[0]])
    calls_try = any(norm_fn(t.get("fn")) == TRY_UNPACK_DECL for p in reach if p in f.fns for _, t in f.calls(f.fns[p]))
    ctx.ob("U2", "try_next_segment|decodes with try_unpack", calls_try and not (reach & unpack_impls), tb.rec["sp"], "values on the validating path go through RleValue::try_unpack")
    # Column::load is wired to the validating iterator: RleEncoding's ColumnEncoding::load_iter builds an RleLoadIter
    li = [p for p, r in f.fns.items() if r.get("trait_item") == "hexane::encoding::ColumnEncoding::load_iter" and "RleEncoding" in p]
    ctx.floor("RleEncoding::load_iter implementations", len(li), 1)
    for lp in li:
        lb = ctx.body(lp)
        ok = any(norm_fn(t.get("fn")) == "hexane::rle::load::RleLoadIter::new" for _, t in lb.calls())
        ctx.ob("U2", "RleEncoding::load_iter|builds the validating RleLoadIter", ok, lb.rec["sp"], "Column::load -> load_iter -> RleLoadIter::new")
    for lp in [p for p in f.fns if norm_fn(p) in ("hexane::column::Column::load", "hexane::column::Column::load_with")]:
        lb = ctx.body(lp)
        ok = any(norm_fn(t.get("fn")) == "hexane::column::Column::load_iter" for _, t in lb.calls())
        ctx.ob("U2", "%s|goes through load_iter" % norm_fn(lp), ok, lb.rec["sp"], "")
    for lp in [p for p in f.fns if norm_fn(p) == "hexane::column::Column::load_iter"]:
        lb = ctx.body(lp)
        ok = any(norm_fn(t.get("fn")) == "hexane::encoding::ColumnEncoding::load_iter" for _, t in lb.calls())
        ctx.ob("U2", "Column::load_iter|uses the encoding's load_iter", ok, lb.rec["sp"], "")
    # ---- U3
    callers = set()
    for c, cs in cg.inn.items():
        if norm_fn(c) == RLE_NEW:
            callers |= {norm_fn(x) for x in cs}
    ctx.floor("callers of RleDecoder::new", len(callers), 4)
    for c in sorted(callers):
        ok = c in RLE_NEW_ALLOWED
        ctx.ob("U3", "RleDecoder::new|caller %s" % c, ok, "", RLE_NEW_ALLOWED.get(c, "unreviewed constructor of a trusting decoder"), via=("table:" + RLE_NEW_ALLOWED[c]) if ok else None)
    # unpack callers stay inside hexane
    ucallers = set()
    for c, cs in cg.inn.items():
        if c == UNPACK_DECL or c in unpack_impls:
            ucallers |= set(cs)
    outside = sorted(x for x in ucallers if x in f.fns and f.fns[x]["ckey"][0] != "hexane")
    ctx.ob("U3", "RleValue::unpack|called only inside hexane", not outside, "", "callers outside hexane: %s" % outside)
    # ---- U4
    sites = []
    for p, r in sorted(f.fns.items()):
        if r["ckey"][0] == "hexane":
            continue
        b = None
        for bi, t in f.calls(r):
            tys = [g for g in t.get("ga", []) if not g.startswith("'")]
            # String-typed, or generic over the value type (a type parameter can be instantiated with a string type)
            if norm_fn(t.get("fn")) in TRUSTING and ("String" in " ".join(tys) or (tys and re.fullmatch(r"[A-Z][A-Za-z0-9]*", tys[0]))):
                b = b or cfg.body(r)
                sites.append((p, b, bi, t))
    ctx.floor("String-typed (or value-generic) trusting decoder sites outside hexane", len(sites), 4)
    for k, (p, b, bi, t) in util.ordinal_keys(sites, lambda s: "%s|%s" % (norm_fn(s[0]), norm_fn(s[3]["fn"]).split("::")[-1])):
        ctx.analysed_fns.add(p)
        arg = t["args"][0]
        if literal_empty(b, arg):
            ctx.ob("U4", k, True, t["sp"], "over a literal empty slice", nontrivial=False)
            continue
        ok, why = dominated_by_validation(b, bi, t)
        ctx.ob("U4", k, ok, t["sp"], why)
    # wrappers: functions outside hexane that *return* a String-typed trusting decoder built from a parameter must validate inside (checked above);
    # ---- U5
    fs_callers = set()
    for c, cs in cg.inn.items():
        if norm_fn(c) == "hexane::column::Column::from_slabs":
            fs_callers |= {norm_fn(x) for x in cs}
    ctx.floor("callers of Column::from_slabs", len(fs_callers), 1)
    for c in sorted(fs_callers):
        ctx.ob("U5", "Column::from_slabs|caller %s" % c, ("hexane::encoder::" in c), "", "only the encoders may build a column from unvalidated slabs")


def literal_empty(b, arg):
    """operand is (a reborrow / unsize of) a promoted constant such as `&[]`"""
    pv = b.provenance(arg, through_calls=False)
    if pv.params or pv.calls:
        return False
    return bool(pv.consts) and all(ty and ("[u8; 0]" in ty) for ty, _ in pv.consts)


def dominated_by_validation(b, bi, t):
    """a validating load over the same bytes, same value type, whose Err exits, dominates block bi"""
    arg_o = b.operand_origin(t["args"][0])
    def first_ty(ga):
        tys = [g for g in (ga or []) if not g.startswith("'")]
        return tys[0] if tys else None
    want_ty = first_ty(t["ga"])
    for vb, vt in b.calls():
        c = norm_fn(vt.get("fn"))
        if not c or not VALIDATING_LOAD.match(c):
            continue
        if first_ty(vt.get("ga")) is None or first_ty(vt.get("ga")) != want_ty:
            continue
        if b.operand_origin(vt["args"][0]) != arg_o:
            continue
        if not b.block_dominates(vb, bi):
            continue
        # the result is branched on and only the Ok/Continue edge leads here
        res = vt["dst"]["l"]
        for sb, sw in b.switches():
            src = b.bool_operand_source(sw["op"])
            if not src or src["kind"] != "discr":
                continue
            pv = b.provenance(src["origin"][0])
            if (vt.get("res") or vt.get("fn"), vb) not in pv.calls:
                continue
            ok_edges = [(sb, tb) for v, tb in sw["targets"] if (src["vars"] or {}).get(v) in ("Continue", "Ok")]
            if ok_edges and b.edges_dominate(ok_edges, bi):
                return True, "dominated by %s of the same bytes (error edge exits)" % c.split("::")[-2:]
        return False, "validating load present but its error is not branched on before the trusting decoder"
    return False, "trusting decoder over non-literal bytes with no dominating validating load of the same bytes and type"
