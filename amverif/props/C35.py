"""C35 Hexane encodings round-trip and reject bad data safely — the "never panics while loading" clause (R7b over hexane's
validating loaders + R6 validate-before-track + C39's who-may-trust rules).

Decides:
 (R7b-hx) the load closure — everything reached through resolved calls (closures included; the fallible decode vocabulary
          try_unpack / try_read_* / try_next_* / validate / finalize / cut_slab / accumulate_run followed through all hexane
          impls) from Column / PrefixColumn / DeltaColumn ::load(_with) and RawColumn::load — contains no panic-capable construct
          (bounds / division asserts, slice indexing, split_at, macro panics, Option::unwrap) that is not discharged by a local
          pattern or reviewed in tables/hexane_load_sites.tsv;
 (R6-track) in the run-length loader every segment is validated before it is accounted: `RleSegment::validate_after` (which rejects
          nulls in non-nullable columns, non-canonical runs, ...) dominates each `CutState::track`, and its error leaves;
 (U1–U5)  the trusting decode path (`unpack`, streaming decoders) is reachable only where C39 allows it (re-run here).
Not decided: that values survive save -> load (round-trip equality), cross-type loading, debug-only arithmetic overflow
(`(-n) as usize`, `slab.len += count`, the length sum), memory / time amplification of huge run counts (C17).
"""
import re
from .. import cfg, util, rules, facts
from ..util import norm_fn, callee
from . import C15, C39

ROOT = re.compile(r"^hexane::(column::Column|prefix::PrefixColumn|delta::DeltaColumn)::(load|load_with)$|^hexane::raw::RawColumn::(load|load_with_max_segments)$")
FOLLOW = re.compile(r"::(try_unpack|try_read_unsigned|try_read_signed|try_next|try_next_segment|try_next_run|validate|validate_after|load_iter|finalize|finalize_with|completed_slab_len|slabs_completed|attribute|cut_slab|new|next_slab|accumulate_run|try_accumulate_run|step|decoder|load_with|load|track|copy_from)$")
HX = ("hexane", "lib")


def closure(f):
    roots = [p for p, r in f.fns.items() if r["ckey"] == HX and ROOT.match(norm_fn(p))]
    by_name = {}
    for p, r in f.fns.items():
        if r["ckey"] == HX and r.get("trait_item"):
            by_name.setdefault(norm_fn(p).split("::")[-1], []).append(p)
    seen, work = set(), list(roots)
    while work:
        p = work.pop()
        if p in seen or p not in f.fns or f.fns[p]["ckey"] != HX:
            continue
        seen.add(p)
        for c in f.closures_of(p):
            work.append(c["path"])
        for bi, t in f.calls(f.fns[p]):
            tgt = t.get("res")
            if tgt:
                work.append(tgt)
            elif t.get("fn") in f.fns:
                work.append(t["fn"])
            elif t.get("fn") and t["fn"].startswith("hexane::") and FOLLOW.search(norm_fn(t["fn"])):
                work.extend(by_name.get(norm_fn(t["fn"]).split("::")[-1], []))
    return roots, seen


def run(ctx):
    ctx.level = "other"
    ctx.decides = ("hexane's validating load closure contains no undischarged panic-capable construct; every run-length segment is validated (error leaves) before it is accounted; "
                   "the trusting decode path is reachable only where C39's rules allow.")
    ctx.not_decided = "round-trip equality of values and cross-type loading; debug-only arithmetic overflow on adversarial run counts; resource amplification by huge run counts (C17)."
    ctx.rule("R7b-hx", "inventory of panic-capable constructs in the resolved-call closure of hexane's load entry points, with local discharge patterns and reviewed rows")
    ctx.rule("R6-track", "must-pass-through: validate_after (error edge exits) dominates every CutState::track")
    f = ctx.facts()
    roots, fns = closure(f)
    ctx.floor("hexane load entry points", len(roots), 8)
    ctx.floor("functions in the load closure", len(fns), 80)
    table = ctx.table("hexane_load_sites.tsv")
    n = nauto = 0
    for p in sorted(fns):
        b = cfg.body(f.fns[p])
        cons = C15.constructs(f, p)
        if cons:
            ctx.analysed_fns.add(p)
        for k, (bi, kind, detail, sp, t) in util.ordinal_keys(cons, lambda c: "%s|%s%s" % (norm_fn(p), c[1], ("(" + c[2] + ")") if c[2] else "")):
            n += 1
            why = C15.discharge(f, b, bi, kind, t)
            if why:
                nauto += 1
                ctx.ob("R7b-hx", k, True, sp, why, nontrivial=kind != "BoundsCheck")
            elif ("R7b-hx|" + k) in table:
                ctx.ob("R7b-hx", k, True, sp, "reviewed: " + table["R7b-hx|" + k], via="table:" + table["R7b-hx|" + k])
            else:
                ctx.ob("R7b-hx", k, False, sp, "%s %s on the path that validates untrusted column bytes is neither discharged by a local pattern nor reviewed" % (kind, detail))
    # negation of a decoded signed value overflows for i64::MIN (checked in builds with overflow checks: present in the dev facts only)
    n_neg = 0
    for p in sorted(fns):
        negs = [(bi, blk["t"]) for bi, blk in enumerate(f.fns[p]["blocks"]) if blk["t"]["k"] == "assert" and (blk["t"].get("msg") or "") == "OverflowNeg" and not blk.get("cleanup")]
        for k, (bi, t) in util.ordinal_keys(negs, lambda it: "%s|OverflowNeg" % norm_fn(p)):
            n_neg += 1
            if ("R7b-hx|" + k) in table:
                ctx.ob("R7b-hx", k, True, t["sp"], "reviewed: " + table["R7b-hx|" + k], via="table:" + table["R7b-hx|" + k])
            else:
                ctx.ob("R7b-hx", k, False, t["sp"], "negation of a signed value on the validating path: overflows (panics in builds with overflow checks) when the wire value is i64::MIN")
    if ctx.config == "dev":
        ctx.floor("signed negations in the load closure (dev facts)", n_neg, 3)
    ctx.floor("panic-capable constructs in the load closure", n, 25)
    ctx.note("R7b-hx: %d constructs in %d functions, %d discharged by a local pattern" % (n, len(fns), nauto))
    # ---------------- validate before track
    TRACK = "hexane::rle::load::CutState::track"
    VAL = "hexane::rle::decoder::RleSegment::validate_after"
    n_track = 0
    for p in sorted(fns):
        r = f.fns[p]
        b = None
        for bi, t in f.calls(r):
            if norm_fn(t.get("res") or t.get("fn")) == TRACK:
                b = b or cfg.body(r)
                n_track += 1
                vals = [(vb, vt) for vb, vt in b.calls() if norm_fn(vt.get("res") or vt.get("fn")) == VAL]
                ok = False
                for vb, vt in vals:
                    if not b.block_dominates(vb, bi):
                        continue
                    # its result is branched on and only the Ok / Continue edge reaches the track call
                    for sb, sw in b.switches():
                        src = b.bool_operand_source(sw["op"])
                        if not src or src["kind"] != "discr":
                            continue
                        pv = b.provenance(src["origin"][0])
                        if (vt.get("res") or vt.get("fn"), vb) not in pv.calls:
                            continue
                        good = [(sb, tb) for v, tb in sw["targets"] if (src["vars"] or {}).get(v) in ("Continue", "Ok")]
                        if good and b.edges_dominate(good, bi):
                            ok = True
                ctx.ob("R6-track", "%s|track|%d" % (norm_fn(p), n_track), ok, t["sp"], "validated first (error leaves)" if ok else
                       "a segment is accounted without validate_after having succeeded: nulls in a non-nullable column reach get_null() / non-canonical runs reach the slab bookkeeping")
    ctx.floor("CutState::track call sites", n_track, 2)
    # ---------------- the pull path and the drain path of each loader validate alike
    ctx.rule("R5-sibling-load", "try_next_run (pull path) and finalize (drain path) of a loader use the same validation vocabulary (read_count / try_next_segment / validate_after / checked_add / checked_mul / track)")
    VOCAB = re.compile(r"(::read_count|::try_read_unsigned|::try_read_signed|::try_next_segment|::validate_after|::checked_add|::checked_mul|::checked_sub|::track)$")
    n_pairs = 0
    for ty in ("hexane::bool::BoolLoadIter", "hexane::rle::load::RleLoadIter"):
        pa = [p for p in f.fns if norm_fn(p) == ty + "::try_next_run"]
        pb = [p for p in f.fns if norm_fn(p) == ty + "::finalize"]
        if len(pa) != 1 or len(pb) != 1:
            raise facts.AnchorMissing(ty + "::{try_next_run, finalize}")
        n_pairs += 1
        va = {norm_fn(t.get("res") or t.get("fn")).split("::")[-1] for _, t in f.calls(f.fns[pa[0]]) if VOCAB.search(norm_fn(t.get("res") or t.get("fn")) or "")}
        vb = {norm_fn(t.get("res") or t.get("fn")).split("::")[-1] for _, t in f.calls(f.fns[pb[0]]) if VOCAB.search(norm_fn(t.get("res") or t.get("fn")) or "")}
        ctx.analysed_fns.update([pa[0], pb[0]])
        ctx.ob("R5-sibling-load", "%s|pull and drain paths validate alike" % ty.split("::")[-1], va == vb and bool(va), f.fns[pb[0]]["sp"],
               "both use %s" % sorted(va) if va == vb else "try_next_run uses %s but finalize uses %s: what the drain path reads is validated differently (only in pull %s, only in drain %s)" % (sorted(va), sorted(vb), sorted(va - vb), sorted(vb - va)))
    ctx.floor("loader pull/drain pairs", n_pairs, 2)
    # ---------------- who may trust
    C39.run(ctx)
    ctx.level = "other"
    ctx.decides = ("hexane's validating load closure contains no undischarged panic-capable construct; every run-length segment is validated (error leaves) before it is accounted; "
                   "the trusting decode path is reachable only where C39's rules allow (U1-U5 re-run).")
    ctx.not_decided = "round-trip equality of values and cross-type loading; debug-only arithmetic overflow on adversarial run counts; resource amplification by huge run counts (C17)."
