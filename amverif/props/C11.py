"""C11 Save/load round-trips a document exactly — rule R5 (codec agreement: column sets and field identity), thin.

Decides: (ops) the set of column specs written by Columns::export_column equals the set accepted by
Columns::validate and the set read by Columns::load, and for each spec the field of `Columns` it is
saved from is the field it is loaded into (so writer and reader also agree on the column's codec,
since a field has one type); (change graph) likewise for ChangeGraph::encode / validate /
ChangeGraphCols::load over the nine change-metadata specs, with field identity where the written
bytes are traceable to a field. A column written but never read, read from the wrong spec, or
loaded into another field breaks the round trip of every document that uses it.
Not decided: everything value-level in C11 (equality of heads, bytes, historical states, idempotent re-save).
"""
from .. import cfg, util, facts
from ..util import norm_fn, callee

COLS = "automerge::op_set2::columns::Columns"
CG = "automerge::change_graph::ChangeGraph"
SPEC_TY = "automerge::storage::columns::column_specification::ColumnSpec"


def const_spec(op):
    k = util.op_const(op)
    if k and k.get("ty") == SPEC_TY and "v" in k:
        return k["v"], (k.get("def") or "").split("::")[-1]
    return None


def specs_in_calls(b, pred, argidx_fn=None):
    """{spec value: (name, call block)} for calls satisfying pred whose arguments contain a ColumnSpec constant"""
    out = {}
    for bi, t in b.calls():
        if not pred(t):
            continue
        ops = list(t["args"])
        # closure-call tuples: look one definition back
        for a in t["args"]:
            pl = util.op_place(a)
            if pl and not pl["p"]:
                d = b.single_def(pl["l"])
                if d and d[1] != "t" and d[2]["rv"]["k"] == "Agg":
                    ops += d[2]["rv"]["o"]
        for o in ops:
            cs = const_spec(o)
            if cs:
                out[cs[0]] = (cs[1], bi)
    return out


def switch_values_on_spec(b):
    """numeric spec values matched by the function (pattern constants are lowered to integers)"""
    vals = set()
    for sb, sw in b.switches():
        if sw["ty"] != "u32":
            continue
        src = b.bool_operand_source(sw["op"])
        pl = util.op_place(sw["op"])
        ok = False
        if pl is not None:
            o = b.origin(pl["l"], tuple(pl["p"]))
            root_ty = b.local_ty(o[0])
            if SPEC_TY in root_ty or (".0" in o[1] and "ColumnSpec" in root_ty) or any(SPEC_TY in l["ty"] for l in b.locals if l["ty"] == SPEC_TY):
                ok = True
        if ok:
            vals |= {v for v, _ in sw["targets"]}
    return vals


def self_fields(b, pv, param=1):
    fs = set()
    for l, pr in pv.places:
        o = b.origin(l, pr)
        if o[0] == param:
            for e in o[1]:
                if e.startswith(".") and not e[1:].isdigit():
                    fs.add(e[1:])
                    break
    return fs


def agg_field_sources(b, adt):
    """for the (last) aggregate of `adt` in b: {field: set of call blocks in the provenance of its operand}"""
    out = {}
    for blk in b.blocks:
        for s in blk["st"]:
            rv = s["rv"]
            if rv["k"] == "Agg" and rv.get("adt") == adt:
                for fname, op in zip(rv["fields"], rv["o"]):
                    pv = b.provenance(op, through_calls=True)
                    out.setdefault(fname, set()).update(cb for _, cb in pv.calls)
    return out


def run(ctx):
    ctx.level = "proof"
    ctx.decides = ("op columns: spec sets of export_column / validate / load are equal (16) and each spec is saved from and loaded into the same Columns field; "
                   "change-graph columns: spec sets of encode / validate / load are equal (9) and, where traceable, each spec's bytes come from and go to the same ChangeGraph field.")
    ctx.not_decided = "all value-level clauses of C11: equal heads, change bytes, historical states, orphans, byte-identical re-save."
    ctx.rule("R5-colset", "writer / validator / reader agree on the set of column specifications")
    ctx.rule("R5-colfield", "field identity per column specification")
    f = ctx.facts()
    # ------------------------------------------------ op columns
    ex = ctx.body(COLS + "::export_column")
    va = ctx.body(COLS + "::validate")
    closures = [cfg.body(r) for r in f.closures_of(COLS + "::validate")]
    ld = ctx.body(COLS + "::load")
    # export: switch arms -> field saved
    E = {}
    sw = [(sb, t) for sb, t in ex.switches() if t["ty"] == "u32"]
    if len(sw) != 1:
        raise facts.AnchorMissing("match on the column spec in export_column")
    sb, t = sw[0]
    for v, tb in t["targets"]:
        # first call in the arm whose receiver is a field of self
        fld = None
        seen, st = set(), [tb]
        while st and fld is None:
            x = st.pop()
            if x in seen:
                continue
            seen.add(x)
            tt = ex.blocks[x]["t"]
            if tt["k"] == "call" and tt["args"]:
                o = ex.operand_origin(tt["args"][0])
                if o and o[0] == 1:
                    fs = [e[1:] for e in o[1] if e.startswith(".")]
                    if fs:
                        fld = fs[0]
                        break
            st.extend(ex.succ[x])
        E[v] = fld
    ctx.floor("specs written by export_column", len(E), 16)
    V = set()
    for vb in [va] + closures:
        V |= switch_values_on_spec(vb)
    # load: data_for(SPEC) -> loader -> Columns field
    L = {}
    spec_calls = specs_in_calls(ld, lambda t: True)
    fieldsrc = agg_field_sources(ld, COLS)
    loaders = [(bi, t) for bi, t in ld.calls() if (norm_fn(t.get("fn")) or "").startswith("hexane::") and (norm_fn(t.get("fn")) or "").split("::")[-1] in ("load", "load_with")]
    for lb, lt in loaders:
        pv = ld.provenance(lt["args"][0], through_calls=False, follow=cfg.TRANSPARENT)
        src = [v for v, (name, cb) in spec_calls.items() if cb in {c for _, c in pv.calls}]
        flds = [fn_ for fn_, blocks in fieldsrc.items() if lb in blocks]
        # the field that takes this loader's result *directly*
        direct = []
        for blk in ld.blocks:
            for s in blk["st"]:
                rv = s["rv"]
                if rv["k"] == "Agg" and rv.get("adt") == COLS:
                    for fname, op in zip(rv["fields"], rv["o"]):
                        p2 = ld.provenance(op, through_calls=False, follow=cfg.TRANSPARENT)
                        if lb in {c for _, c in p2.calls}:
                            direct.append(fname)
        for v in src:
            L[v] = direct[0] if len(direct) == 1 else None
    ctx.floor("specs read by Columns::load", len(L), 16)
    ctx.ob("R5-colset", "op columns|export == validate", set(E) == V, ex.rec["sp"], "export %s validate %s" % (sorted(map(int, E)), sorted(map(int, V))))
    ctx.ob("R5-colset", "op columns|export == load", set(E) == set(L), ld.rec["sp"], "only exported %s, only loaded %s" % (sorted(set(E) - set(L)), sorted(set(L) - set(E))))
    names = {v: n for v, (n, _) in spec_calls.items()}
    for v in sorted(E, key=int):
        ok = E[v] is not None and E[v] == L.get(v)
        ctx.ob("R5-colfield", "op columns|%s" % names.get(v, v), ok, ld.rec["sp"], "saved from Columns.%s, loaded into Columns.%s" % (E[v], L.get(v)))
    # ------------------------------------------------ change graph columns
    en = ctx.body(CG + "::encode")
    W = specs_in_calls(en, lambda t: callee(t) == "automerge::storage::columns::raw_column::RawColumn::new")
    ctx.floor("specs written by ChangeGraph::encode", len(W), 9)
    gv = ctx.body(CG + "::validate")
    GV = set()
    for vb in [gv] + [cfg.body(r) for r in f.closures_of(CG + "::validate")]:
        GV |= switch_values_on_spec(vb)
    gl = ctx.body("automerge::change_graph::ChangeGraphCols::load")
    R = specs_in_calls(gl, lambda t: (callee(t) or "").endswith("RawColumns::bytes"))
    ctx.floor("specs read by ChangeGraphCols::load", len(R), 9)
    ctx.ob("R5-colset", "change graph|encode == validate", set(W) == GV, en.rec["sp"], "encode %s validate %s" % (sorted(map(int, W)), sorted(map(int, GV))))
    ctx.ob("R5-colset", "change graph|encode == load", set(W) == set(R), gl.rec["sp"], "only written %s, only read %s" % (sorted(set(W) - set(R)), sorted(set(R) - set(W))))
    rsrc = agg_field_sources(gl, CG)
    for v in sorted(W, key=int):
        name, wb = W[v]
        wt = en.blocks[wb]["t"]
        wf = self_fields(en, en.provenance(wt["args"][1], through_calls=True))
        if v not in R:
            continue
        rb_ = R[v][1]
        rf = {fname for fname, blocks in rsrc.items() if rb_ in blocks}
        if not wf:
            ctx.ob("R5-colfield", "change graph|%s" % name, True, wt["sp"], "written bytes not traceable to a single field (side effect on the buffer); set membership only", nontrivial=False)
            continue
        ok = bool(wf & rf)
        ctx.ob("R5-colfield", "change graph|%s" % name, ok, wt["sp"], "written from %s, read into %s" % (sorted(wf), sorted(rf)))
    # ---- the column metadata written for a (de)compressed block describes exactly the bytes appended to the data buffer:
    # in both Direction::process implementations the data buffer is written by RawColumns::{compress, uncompress} only, and the
    # metadata written is that call's result
    ctx.rule("R5-colmeta", "sibling agreement of Direction::process (Compressing / Decompressing): `out` is mutated only by RawColumns::compress / uncompress; the metadata written is its result")
    n_proc = 0
    for p, r in sorted(f.fns.items()):
        np_ = norm_fn(p)
        if r["ckey"] != ("automerge", "lib") or not np_.endswith("as automerge::storage::document::compression::Direction>::process"):
            continue
        n_proc += 1
        b = cfg.body(r)
        ctx.analysed_fns.add(p)
        out_param = [i for i in range(1, b.argc + 1) if b.local_ty(i).startswith("&mut ") and "Vec<u8>" in b.local_ty(i)][:1]     # process(self, cols, input, out, meta_out)
        writers_, bad = [], []
        for bi, t in b.calls():
            for a, ty in zip(t.get("args", []), t.get("argtys", [])):
                if ty.startswith("&mut ") and "Vec<u8>" in ty:
                    o = b.operand_origin(a)
                    if o and out_param and o[0] == out_param[0]:
                        tgt = norm_fn(t.get("res") or t.get("fn")) or ""
                        if tgt.endswith(("RawColumns::compress", "RawColumns::uncompress")):
                            writers_.append((bi, t))
                        else:
                            bad.append("%s at %s" % (tgt.split("::")[-1], t["sp"]))
        ok = len(writers_) == 1 and not bad
        ctx.ob("R5-colmeta", "%s|data buffer written only by the column (de)compressor" % np_.split(" as ")[0].split("::")[-1], ok, r["sp"],
               "one writer: %s" % norm_fn(writers_[0][1].get("res") or writers_[0][1].get("fn")).split("::")[-1] if ok else
               "the data buffer is also changed by %s: the metadata (flags and lengths from the compressor) no longer describes the bytes written" % bad)
        if writers_:
            wr = [(bi, t) for bi, t in b.calls() if (norm_fn(t.get("res") or t.get("fn")) or "").endswith("RawColumns::write")]
            okm = False
            for bi, t in wr:
                pv = b.provenance(t["args"][0], through_calls=True)
                okm = okm or any((c, cb) == (writers_[0][1].get("res") or writers_[0][1].get("fn"), writers_[0][0]) for c, cb in pv.calls)
            ctx.ob("R5-colmeta", "%s|metadata written is the compressor's result" % np_.split(" as ")[0].split("::")[-1], okm, r["sp"], "")
    ctx.floor("Direction::process implementations", n_proc, 2)
