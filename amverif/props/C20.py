"""C20 Two-peer sync converges and goes quiet — the bookkeeping that quiescence and progress rest on (thin).

Convergence within a bounded number of rounds is liveness over message schedules (not decided). Two clauses it needs are in the
shape of `generate_sync_message` / `receive_sync_message_inner`:
 (Y1) a peer goes quiet only after it has told the other side its current heads: every explicit `None` of generate_sync_message
      is edge-dominated by the true edges of `last_sent_heads == our_heads` and of `have_responded`;
 (Y2) sending is recorded: the `Some(message)` built by MessageBuilder::build is dominated by `have_responded = true`,
      `last_sent_heads.clone_from(our heads)`, `sent_hashes.extend(builder.hashes())` and `in_flight = true`; the message's heads
      derive from get_heads() (or are the empty vector of the reset fallback), its need from missing_deps_from(their heads);
 (Y3) receiving re-opens the window and records what the peer said: `in_flight = false` dominates every return of
      receive_sync_message_inner, and every `Ok` is dominated by the stores of their_have / their_heads / their_need taken from the
      message; `sent_hashes.clear()` happens only on the true edge of `flags.contains(SYNC_RESET)`.
Not decided: that the exchange terminates and ends with equal heads (liveness); the Bloom-filter arithmetic (C23); what is sent (C22).
"""
from .. import cfg, util, facts
from ..util import norm_fn, callee

GEN = "<automerge::automerge::Automerge as automerge::sync::SyncDoc>::generate_sync_message"
RCV = "automerge::sync::<impl automerge::automerge::Automerge>::receive_sync_message_inner"
STATE = "automerge::sync::state::State"


def state_param(b):
    ps = [i for i in range(1, b.argc + 1) if util.base_ty(b.local_ty(i)) == STATE]
    if len(ps) != 1:
        raise facts.AnchorMissing("sync State parameter")
    return ps[0]


def field_stores(b, sp, field):
    """(block, statement) of stores into sync_state.<field>"""
    out = []
    for bi, blk in enumerate(b.blocks):
        if blk.get("cleanup"):
            continue
        for st in blk["st"]:
            if "*" in st["d"]["p"] or st["d"]["l"] == sp:
                o = b.origin(st["d"]["l"], tuple(st["d"]["p"]))
                if o[0] == sp and [e for e in o[1] if e.startswith(".")] == [field]:
                    out.append((bi, st))
    return out


def field_calls(b, sp, field, names):
    out = []
    for bi, t in b.calls():
        if (norm_fn(t.get("fn")) or "").split("::")[-1] in names and t.get("args"):
            o = b.operand_origin(t["args"][0])
            if o and o[0] == sp and [e for e in o[1] if e.startswith(".")] == [field]:
                out.append((bi, t))
    return out


def const_bool(st, want):
    k = util.op_const(st["rv"]["o"][0]) if st["rv"]["k"] == "Use" else None
    return k is not None and k.get("ty") == "bool" and k.get("v") == ("1" if want else "0")


def run(ctx):
    ctx.level = "proof"
    ctx.decides = ("generate_sync_message returns None only behind last_sent_heads == our heads and have_responded; a built message is preceded by have_responded = true, last_sent_heads := our heads, "
                   "sent_hashes += the builder's hashes and in_flight = true, and carries get_heads() / missing_deps_from(their heads); receive_sync_message_inner clears in_flight before anything "
                   "else, stores their have / heads / need from the message before Ok, and clears sent_hashes only on SYNC_RESET.")
    ctx.not_decided = "termination of the exchange and equality of heads at the end (liveness over schedules); what hashes are selected for sending (C22 / C23)."
    ctx.rule("Y1", "edge dominance: every explicit None of generate_sync_message is behind last_sent_heads == our_heads (true) and have_responded (true)")
    ctx.rule("Y2", "must-pass-through + provenance: MessageBuilder::build is dominated by the four bookkeeping updates; heads / need operands derive from get_heads / missing_deps_from")
    ctx.rule("Y3", "receive_sync_message_inner: in_flight = false dominates every return; their_* stored from the message before Ok; sent_hashes.clear() only under SYNC_RESET")
    f = ctx.facts()
    if GEN not in f.fns:
        raise facts.AnchorMissing(GEN)
    g = ctx.body(GEN)
    ctx.analysed_fns.update([GEN, RCV])
    sp = state_param(g)
    # ---------------- Y1
    def eq_of(field):
        """PartialEq::eq between sync_state.<field> and a value derived from get_heads()"""
        def pred(t):
            if not (norm_fn(t.get("fn")) or "").endswith("PartialEq::eq"):
                return False
            fl, heads = set(), False
            for a in t["args"]:
                pv = g.provenance(a, through_calls=True)
                heads = heads or any(norm_fn(c) == "automerge::automerge::Automerge::get_heads" for c in pv.callees())
                for l, pr in pv.places:
                    o = g.origin(l, pr)
                    if o[0] == sp:
                        fl |= {e for e in o[1] if e.startswith(".")}
            return fl == {field} and heads
        return pred

    def fld(*names):
        return lambda o: o[0] == sp and [e for e in o[1] if e.startswith(".")] in [[n] for n in names]
    n_atoms = lambda pred: sum(1 for _, t in g.calls() if pred(t))
    ctx.floor("comparisons last_sent_heads == our_heads", n_atoms(eq_of(".last_sent_heads")), 1)
    ctx.floor("comparisons their_heads == our_heads", n_atoms(eq_of(".their_heads")), 1)
    unchanged = cfg.cond_edges(g, atom_call=eq_of(".last_sent_heads"))
    responded = cfg.cond_edges(g, atom_place=fld(".have_responded"))
    reasons = cfg.cond_edges(g, atom_call=eq_of(".their_heads"), atom_place=fld(".read_only", ".in_flight"))
    nones = [(bi, st) for bi, blk in enumerate(g.blocks) if not blk.get("cleanup") for st in blk["st"]
             if st["d"]["l"] == 0 and not st["d"]["p"] and st["rv"]["k"] == "Agg" and st["rv"].get("adt") == "core::option::Option" and st["rv"].get("variant") == "None"]
    ctx.floor("explicit None returns of generate_sync_message", len(nones), 1)
    for k, (bi, st) in util.ordinal_keys(nones, lambda it: "generate_sync_message|None"):
        okr = bool(reasons) and g.edges_dominate(reasons, bi)
        ctx.ob("Y1", k + "|reason", okr, st["sp"], "their heads are ours, we are read-only, or a message is in flight" if okr else
               "generate_sync_message can go quiet for a reason other than `their heads == our heads`, read-only or an unanswered message: with heads that differ nobody speaks again")
    for k, (bi, st) in util.ordinal_keys(nones, lambda it: "generate_sync_message|None"):
        a_, b_ = bool(unchanged) and g.edges_dominate(unchanged, bi), bool(responded) and g.edges_dominate(responded, bi)
        ok = a_ and b_
        ctx.ob("Y1", k, ok, st["sp"], "quiet only after the current heads were sent" if ok else
               "generate_sync_message can return None although the peer has not been told our current heads (last_sent_heads == our_heads: %s, have_responded: %s): the other side never learns it is behind" % (a_, b_))
    # ---------------- Y2
    builds = [(bi, t) for bi, t in g.calls() if (callee(t) or "").endswith("MessageBuilder::build")]
    ctx.floor("MessageBuilder::build calls", len(builds), 1)
    for k, (bi, t) in util.ordinal_keys(builds, lambda it: "generate_sync_message|build"):
        hr = [sb for sb, st in field_stores(g, sp, ".have_responded") if const_bool(st, True)]
        ok = any(g.block_dominates(x, bi) for x in hr)
        ctx.ob("Y2", k + "|have_responded = true", ok, t["sp"], "recorded before the message is built" if ok else "a message is built without have_responded being set")
        ls = field_calls(g, sp, ".last_sent_heads", ("clone_from",)) + [(sb, st) for sb, st in field_stores(g, sp, ".last_sent_heads")]
        ok = any(g.block_dominates(x, bi) for x, _ in ls)
        ctx.ob("Y2", k + "|last_sent_heads := our heads", ok, t["sp"], "recorded" if ok else "a message is built without last_sent_heads being updated: the peer keeps re-sending, or goes quiet on stale heads")
        ex = field_calls(g, sp, ".sent_hashes", ("extend", "insert", "append"))
        okx = False
        for x, xt in ex:
            pv = g.provenance(xt["args"][1], through_calls=True) if len(xt["args"]) > 1 else None
            if g.block_dominates(x, bi) and pv and any((norm_fn(c) or "").endswith("MessageBuilder::hashes") for c in pv.callees()):
                okx = True
        ctx.ob("Y2", k + "|sent_hashes += builder.hashes()", okx, t["sp"], "recorded" if okx else "the hashes put into the message are not added to sent_hashes: they are sent again on every round")
        pv = g.provenance(t["args"][0], through_calls=True)
        cs = {norm_fn(c) for c in pv.callees()}
        for what, need in (("heads from get_heads()", "automerge::automerge::Automerge::get_heads"), ("need from missing_deps_from", "automerge::automerge::Automerge::missing_deps_from")):
            has = any(c == need or c.endswith("::" + need) or (need == "make_bloom_filter" and need in c) for c in cs)
            ctx.ob("Y2", k + "|" + what, has, t["sp"], "in the message's provenance" if has else "the message is not built from %s" % need.split("::")[-1])
    infl = [(sb, st) for sb, st in field_stores(g, sp, ".in_flight") if const_bool(st, True)]
    somes = [(bi, st) for bi, blk in enumerate(g.blocks) if not blk.get("cleanup") for st in blk["st"]
             if st["d"]["l"] == 0 and not st["d"]["p"] and st["rv"]["k"] == "Agg" and st["rv"].get("adt") == "core::option::Option" and st["rv"].get("variant") == "Some"]
    for k, (bi, st) in util.ordinal_keys(somes, lambda it: "generate_sync_message|Some"):
        pv = g.provenance(st["rv"]["o"][0], through_calls=True)
        if not any((norm_fn(c) or "").endswith("MessageBuilder::build") for c in pv.callees()):
            continue            # the reset message: nothing was sent from the builder
        ok = any(g.block_dominates(x, bi) or x == bi for x, _ in infl)
        ctx.ob("Y2", k + "|in_flight = true", ok, st["sp"], "the window is closed when a message goes out" if ok else "a message is returned without in_flight being set: the same changes are generated again before the peer answered")
    # ---------------- Y3
    r = ctx.body(RCV)
    rp = state_param(r)
    clr = [(sb, st) for sb, st in field_stores(r, rp, ".in_flight") if const_bool(st, False)]
    ctx.floor("in_flight = false in receive_sync_message_inner", len(clr), 1)
    rets = r.returns()
    ok = bool(clr) and all(any(r.block_dominates(x, rb) for x, _ in clr) for rb in rets)
    ctx.ob("Y3", "receive_sync_message_inner|in_flight cleared before every return", ok, r.rec["sp"], "dominates %d return(s)" % len(rets) if ok else "a received message does not re-open the sending window on every path: the peer stays quiet with changes to send")
    oks = [bi for bi, blk in enumerate(r.blocks) if not blk.get("cleanup") for st in blk["st"] if st["d"]["l"] == 0 and not st["d"]["p"] and util.is_ok_agg(st["rv"])]
    ctx.floor("Ok returns of receive_sync_message_inner", len(oks), 1)
    msg_p = [i for i in range(1, r.argc + 1) if util.base_ty(r.local_ty(i)) == "automerge::sync::Message"]
    for fld, mfld in ((".their_have", ".have"), (".their_heads", ".heads"), (".their_need", ".need")):
        sts = field_stores(r, rp, fld)
        good = []
        for sb, st in sts:
            pv = r.provenance(st["rv"]["o"][0], through_calls=True) if st["rv"].get("o") else None
            if pv and msg_p and any(i == msg_p[0] and mfld in proj for i, proj in pv.params) or (pv and any(mfld in "".join(pr) and r.origin(l, pr)[0] == msg_p[0] for l, pr in pv.places)):
                good.append(sb)
        ok = bool(good) and all(any(r.block_dominates(x, o) for x in good) for o in oks)
        ctx.ob("Y3", "receive_sync_message_inner|%s stored from the message before Ok" % fld[1:], ok, r.rec["sp"], "recorded" if ok else
               "Ok is reachable without %s being taken from the received message: the next generate_sync_message answers an older message" % fld[1:])
    clears = field_calls(r, rp, ".sent_hashes", ("clear",))
    reset_edges = []
    for sb, sw in r.switches():
        src = r.bool_operand_source(sw["op"])
        if src and src["kind"] == "call" and (norm_fn(src["callee"]) or "").endswith("MessageFlags::contains"):
            from .C19 import const_u8
            v = const_u8(r, src["t"]["args"][1])
            if v == 1:           # MessageFlags::SYNC_RESET
                zero = [tb for val, tb in sw["targets"] if val == "0"]
                reset_edges += [(sb, zero[0])] if src["negated"] and zero else ([] if src["negated"] else [(sb, sw["otherwise"])])
    ctx.floor("sent_hashes.clear() in receive_sync_message_inner", len(clears), 1)
    for k, (bi, t) in util.ordinal_keys(clears, lambda it: "receive_sync_message_inner|sent_hashes.clear()"):
        ok = bool(reset_edges) and r.edges_dominate(reset_edges, bi)
        ctx.ob("Y3", k, ok, t["sp"], "only on SYNC_RESET" if ok else "the record of what was sent is cleared without the peer asking for a reset: everything is sent again")
