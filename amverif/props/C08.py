"""C08 diff between any two heads transforms one state into the other — direction and fast-path guards (thin).

That the patches of diff(H1, H2) *are* the difference is value-level (not decided). Two things it needs are in the shape of the code:
 (D1) direction: `clock_range(before, after)` builds `ClockRange::Diff(clock_at(before), clock_at(after))` in that order; every caller
      (Automerge::diff, diff_obj, AutoCommit::diff_inner) hands its before / after heads on in that order and targets the patch log at
      the *after* heads; `diff_incremental` diffs from the diff cursor to the current heads and then advances the cursor;
 (D2) the fast paths of `AutoCommit::diff_inner` answer only what was asked: the cached patches are returned only on the true edges of
      `cached range == range`, `cached object == object` and `cached recursive == recursive`; the incremental log is used only on the
      true edges of `after == heads`, `before == diff_cursor` and `patch_log.is_active()`; the current-state walk only on
      `before.is_empty()` and `after == heads`; the cache is filled with the range / object / recursive flag of this call.
Not decided: that DiffIter::log and make_patches compute the right patches between two clocks (C09's who-must-log covers the
incremental log); conflict flags, counters, text content of the patches.
"""
from .. import cfg, util, facts
from ..util import norm_fn, callee

AM = "automerge::automerge::Automerge"
AC = "automerge::autocommit::AutoCommit"
CR = AM + "::clock_range"


def heads_params(b):
    return [i for i in range(1, b.argc + 1) if "ChangeHash" in b.local_ty(i)]


def true_edges(b, sb, sw, src):
    zero = [tb for v, tb in sw["targets"] if v == "0"]
    return [(sb, zero[0])] if src["negated"] and zero else ([] if src["negated"] else [(sb, sw["otherwise"])])


def run(ctx):
    ctx.level = "proof"
    ctx.decides = ("clock_range builds ClockRange::Diff(clock_at(before), clock_at(after)) in that order and every caller passes before / after in that order and targets the log at the after heads; diff_incremental diffs cursor -> heads "
                   "and then advances the cursor; AutoCommit::diff_inner returns cached patches, the incremental log or the current-state walk only behind the equality tests that make them the answer, and caches under the key of this call.")
    ctx.not_decided = "that DiffIter::log / make_patches compute the patches between two clocks correctly (conflict flags, counters, text content)."
    ctx.rule("D1", "positional provenance: before -> first, after -> second operand of ClockRange::Diff and of every clock_range call; PatchLog.heads := after; diff_incremental: diff(cursor, heads) then update_diff_cursor")
    ctx.rule("D3", "sibling agreement of MapDiff::next and ListDiff::next: the remembered lower-id value (last_visible) is returned for a key / element only on the true edge of `diff.is_del()` of the element's final op")
    ctx.rule("D4", "MapDiffItem::log / ListDiffItem::log: for an unchanged winner the conflict patch does not depend on the increment test (an op can be incremented and newly conflicted between the two heads)")
    ctx.rule("D2", "edge dominance of the three fast paths of AutoCommit::diff_inner by their guards; the cache key stored is this call's")
    f = ctx.facts()
    # ---------------- D1: clock_range itself
    b = ctx.body(CR)
    ctx.analysed_fns.add(CR)
    hp = heads_params(b)
    if len(hp) != 2:
        raise facts.AnchorMissing("clock_range parameters")
    aggs = [(bi, st) for bi, blk in enumerate(b.blocks) for st in blk["st"] if st["rv"]["k"] == "Agg" and (st["rv"].get("adt") or "").endswith("clock::ClockRange") and st["rv"].get("variant") == "Diff"]
    ctx.floor("ClockRange::Diff constructions in clock_range", len(aggs), 1)
    for bi, st in aggs:
        o = st["rv"]["o"]
        p0 = b.provenance(o[0], through_calls=True)
        p1 = b.provenance(o[1], through_calls=True)
        ok = p0.depends_on_param(hp[0]) and not p0.depends_on_param(hp[1]) and p1.depends_on_param(hp[1]) and not p1.depends_on_param(hp[0])
        ctx.ob("D1", "clock_range|Diff(before, after)", ok, st["sp"], "first clock from `before`, second from `after`" if ok else "the two clocks of the range are swapped or mixed: diff(H1, H2) describes the move from H2 to H1")
    # callers
    n_call = 0
    for p, r in sorted(f.fns.items()):
        if r["ckey"] != ("automerge", "lib"):
            continue
        sites = [(bi, t) for bi, t in f.calls(r) if callee(t) == CR]
        if not sites:
            continue
        cb = cfg.body(r)
        ctx.analysed_fns.add(p)
        for k, (bi, t) in util.ordinal_keys(sites, lambda it: "%s|clock_range" % norm_fn(p).split("::")[-1]):
            n_call += 1
            hps = heads_params(cb)
            a1, a2 = cb.provenance(t["args"][1], through_calls=True), cb.provenance(t["args"][2], through_calls=True)
            cs1 = {norm_fn(c).split("::")[-1] for c in a1.callees()}
            cs2 = {norm_fn(c).split("::")[-1] for c in a2.callees()}
            if len(hps) >= 2:
                ok = a1.depends_on_param(hps[0]) and not a1.depends_on_param(hps[1]) and a2.depends_on_param(hps[1]) and not a2.depends_on_param(hps[0])
                # through an OpRange built from (before, after): accessors before() / after()
                if not ok and "before" in cs1 and "after" in cs2 and "after" not in cs1 and "before" not in cs2:
                    ok = True
            elif len(hps) == 1:
                # patch_to(after): moves the session's view from where it is (get_heads()) to `after`
                ok = a2.depends_on_param(hps[0]) and not a1.depends_on_param(hps[0]) and "get_heads" in cs1
            else:
                ok = "before" in cs1 and "after" in cs2
            ctx.ob("D1", k + "|before, after in order", ok, t["sp"], "handed on in order" if ok else "before / after heads reach clock_range in the wrong positions")
            lo = [cb.operand_origin(tt["args"][3]) for _, tt in cb.calls() if (callee(tt) or "").endswith("DiffIter::log") and len(tt.get("args", [])) > 3]
            if any(o and o[0] == 1 and ".patch_log" in o[1] for o in lo):
                continue        # logged into the session's own patch log, which is not targeted at heads
            # the log is targeted at the after heads
            heads_st = [(hb, st) for hb, blk in enumerate(cb.blocks) if not blk.get("cleanup") for st in blk["st"] if st["d"]["p"] and st["d"]["p"][-1] == ".heads" and "PatchLog" in cb.local_ty(cb.origin(st["d"]["l"], tuple(st["d"]["p"]))[0])]
            good = False
            for hb, st in heads_st:
                pv = cb.provenance(st["rv"]["o"][0], through_calls=True) if st["rv"].get("o") else None
                if pv is None:
                    continue
                cs = {norm_fn(c).split("::")[-1] for c in pv.callees()}
                if (len(hps) >= 2 and pv.depends_on_param(hps[1]) and not pv.depends_on_param(hps[0])) or ("after" in cs and "before" not in cs):
                    good = True
            ctx.ob("D1", k + "|patch log targeted at the after heads", good, t["sp"], "patch_log.heads = Some(after)" if good else "the patch log of this diff is not targeted at the after heads")
    ctx.floor("clock_range call sites", n_call, 3)
    # diff_incremental
    di = ctx.body(AC + "::diff_incremental")
    ctx.analysed_fns.add(AC + "::diff_incremental")
    diffs = [(bi, t) for bi, t in di.calls() if callee(t) == AC + "::diff"]
    upd = [bi for bi, t in di.calls() if callee(t) == AC + "::update_diff_cursor"]
    ctx.floor("diff calls in diff_incremental", len(diffs), 1)
    for bi, t in diffs:
        a1 = {norm_fn(c).split("::")[-1] for c in di.provenance(t["args"][1], through_calls=True).callees()}
        a2 = {norm_fn(c).split("::")[-1] for c in di.provenance(t["args"][2], through_calls=True).callees()}
        ok = "diff_cursor" in a1 and "get_heads" in a2 and "get_heads" not in a1 and "diff_cursor" not in a2
        ctx.ob("D1", "diff_incremental|diff(cursor, heads)", ok, t["sp"], "from the cursor to the current heads" if ok else "diff_incremental does not diff from the diff cursor to the current heads")
        ok2 = any(di.block_dominates(bi, u) and u != bi for u in upd)
        ctx.ob("D1", "diff_incremental|cursor advanced after the diff", ok2, t["sp"], "update_diff_cursor follows" if ok2 else "the cursor is not advanced after the diff (or is advanced before it): the next call repeats or skips patches")
    # ---------------- D2
    d = ctx.body(AC + "::diff_inner")
    ctx.analysed_fns.add(AC + "::diff_inner")

    def names_of(t):
        names = set()
        for a in t.get("args", []):
            pv = d.provenance(a, through_calls=True)
            names |= {norm_fn(c).split("::")[-1] for c in pv.callees()}
            for l, pr in pv.places:
                o = d.origin(l, pr)
                names |= {e for e in o[1] if e.startswith(".") or e.startswith("@")}
        return names

    def call_pred(last, *must, forbid=()):
        def pred(t):
            if (norm_fn(t.get("fn")) or "").split("::")[-1] != last:
                return False
            n = names_of(t)
            return all(any(m == x or m in x for x in n) for m in must) and not any(any(m == x for x in n) for m in forbid)
        return pred
    eq_calls = [t for _, t in d.calls() if (norm_fn(t.get("fn")) or "").split("::")[-1] == "eq" and d.local_ty(t["dst"]["l"]) == "bool"]
    cache_ret = [(bi, t) for bi, t in d.calls() if (norm_fn(t.get("fn")) or "").endswith("Clone::clone") and any(".diff_cache" in "".join(d.origin(l, pr)[1]) for l, pr in d.provenance(t["args"][0], through_calls=False).places)]
    ctx.floor("returns of the cached patches", len(cache_ret), 1)
    # the three comparisons against the cached key: each involves the cache's payload
    cache_eqs = [t for t in eq_calls if any(".diff_cache" in x or "@Some" in x for x in names_of(t))]
    plain_eq = []
    for sb, sw in d.switches():
        src = d.bool_operand_source(sw["op"])
        if src and src["kind"] == "bin" and src["op"] == "Eq":
            plain_eq.append((sb, sw, src))
    for k, (bi, t) in util.ordinal_keys(cache_ret, lambda it: "diff_inner|cached patches"):
        n_dom = 0
        for ct in cache_eqs:
            es = cfg.cond_edges(d, atom_call=lambda t_, ct=ct: t_ is ct)
            if es and d.edges_dominate(es, bi):
                n_dom += 1
        for sb, sw, src in plain_eq:                 # `*rec == recursive` is a plain bool comparison
            es = true_edges(d, sb, sw, src)
            if es and d.edges_dominate(es, bi):
                n_dom += 1
        ok = n_dom >= 3
        ctx.ob("D2", k, ok, t["sp"], "behind %d equality tests (range, object, recursive)" % n_dom if ok else
               "the cached patches are returned behind only %d equality test(s): a diff of another range, object or depth gets the cached answer" % n_dom)
    mk = [(bi, t) for bi, t in d.calls() if (callee(t) or "").endswith("PatchLog::make_patches")]
    ctx.floor("make_patches calls in diff_inner", len(mk), 3)
    e_after = cfg.cond_edges(d, atom_call=call_pred("eq", "after", "get_heads"))
    e_before = cfg.cond_edges(d, atom_call=call_pred("eq", "before", ".diff_cursor"))
    e_active = cfg.cond_edges(d, atom_call=lambda t: (callee(t) or "").endswith("PatchLog::is_active"))
    e_empty = cfg.cond_edges(d, atom_call=call_pred("is_empty", "before"))
    for k, (bi, t) in util.ordinal_keys(mk, lambda it: "diff_inner|make_patches"):
        o = d.operand_origin(t["args"][0])
        own_log = bool(o) and o[0] == 1 and ".patch_log" in o[1]
        if own_log:
            okc = [bool(e) and d.edges_dominate(e, bi) for e in (e_after, e_before, e_active)]
            ctx.ob("D2", k + "|incremental log", all(okc), t["sp"], "only when after == heads, before == diff_cursor and the log is active" if all(okc) else
                   "the session's incremental patch log answers a diff it was not kept for (after == heads: %s, before == diff_cursor: %s, active: %s)" % tuple(okc))
            # the log follows what the session shows: it answers only when `after` is the session's heads (the isolated heads, if any)
            # and those are the document's heads
            def eq_full(full):
                def pred(t_):
                    if (norm_fn(t_.get("fn")) or "").split("::")[-1] != "eq":
                        return False
                    cs_ = set()
                    for a_ in t_.get("args", []):
                        cs_ |= {norm_fn(c) for c in d.provenance(a_, through_calls=False).callees()}
                    return full in cs_
                return pred
            e_sess = cfg.cond_edges(d, atom_call=eq_full("automerge::autocommit::AutoCommit::get_heads"))
            e_doc = cfg.cond_edges(d, atom_call=eq_full("automerge::automerge::Automerge::get_heads"))
            oks = [bool(e) and d.edges_dominate(e, bi) for e in (e_sess, e_doc)]
            ctx.ob("D2", k + "|incremental log|session view", all(oks), t["sp"], "only when the heads asked for are the session's and the document's" if all(oks) else
                   "the incremental patch log, which follows the session's (isolated) view, answers for heads compared with %s only: under isolation diff(before, after) returns the log of the isolated view" %
                   ("the document's heads" if oks[1] else "the session's heads" if oks[0] else "neither the session's nor the document's heads"))
        else:
            walk = [(wb, wt) for wb, wt in d.calls() if (callee(wt) or "").endswith("Automerge::log_current_state") and d.block_dominates(wb, bi)]
            if walk:
                ok = bool(e_empty) and d.edges_dominate(e_empty, bi) and bool(e_after) and d.edges_dominate(e_after, bi)
                ctx.ob("D2", k + "|current-state walk", ok, t["sp"], "only when before is empty and after == heads" if ok else
                       "the walk over the current state answers a diff whose before heads are not empty or whose after heads are not the current ones")
            else:
                ctx.ob("D2", k + "|general path", True, t["sp"], "clocked diff (direction checked under D1)", nontrivial=False)
    # the cache is filled with this call's key
    st_cache = [(bi, st) for bi, blk in enumerate(d.blocks) if not blk.get("cleanup") for st in blk["st"] if st["d"]["p"] and st["d"]["p"][-1] == ".diff_cache" and d.origin(st["d"]["l"], tuple(st["d"]["p"]))[0] == 1]
    ctx.floor("stores into diff_cache in diff_inner", len(st_cache), 1)
    for k, (bi, st) in util.ordinal_keys(st_cache, lambda it: "diff_inner|cache filled"):
        pv = d.provenance(st["rv"]["o"][0], through_calls=True)
        cs = {norm_fn(c).split("::")[-1] for c in pv.callees()}
        hps = heads_params(d)
        ok = all(pv.depends_on_param(h) for h in hps) and "make_patches" in cs
        ctx.ob("D2", k, ok, st["sp"], "keyed by this call's before / after heads; holds the patches just made" if ok else "the diff cache is filled under a key that is not this call's range")
    check_diff_siblings(ctx, f)
    check_same_arm(ctx, f)
    check_cursor_update(ctx, f)


def check_diff_siblings(ctx, f):
    """a conflicted register's diff: the final (highest-id) op decides; an earlier visible value is the answer only when the final op was deleted"""
    n = 0
    for name in ("automerge::iter::map_range::MapDiff", "automerge::iter::list_range::ListDiff"):
        cand = [p for p in f.fns if p.startswith("<%s<" % name) and p.endswith(" as core::iter::traits::iterator::Iterator>::next")]
        if len(cand) != 1:
            raise facts.AnchorMissing(name + "::next")
        b = cfg.body(f.fns[cand[0]])
        ctx.analysed_fns.add(cand[0])
        del_true = cfg.cond_edges(b, atom_call=lambda t: (callee(t) or "").endswith("iter::tools::Diff::is_del") or (norm_fn(t.get("fn")) or "").endswith("Diff::is_del"))
        # the stand-in: an Option<Item> local that is taken / matched and whose payload is returned
        takes = [(bi, t) for bi, t in b.calls() if (norm_fn(t.get("fn")) or "").endswith("Option::<T>::take") or (norm_fn(t.get("fn")) or "").endswith("Option::take")]
        item_ty = b.local_ty(0)
        rets = []
        for bi, blk in enumerate(b.blocks):
            if blk.get("cleanup"):
                continue
            for st in blk["st"]:
                if st["d"]["l"] == 0 and not st["d"]["p"] and st["rv"]["k"] == "Agg" and st["rv"].get("variant") == "Some":
                    pv = b.provenance(st["rv"]["o"][0], through_calls=False)
                    # does the returned item come out of an Option<Item> local (the stand-in) rather than from diff_item(..)?
                    from_call = any((norm_fn(c) or "").endswith("::diff_item") for c in pv.callees())
                    from_opt = any("@Some" in "".join(pr) for _, pr in pv.places) or any((norm_fn(c) or "").endswith("::take") for c in pv.callees())
                    if from_opt:
                        rets.append((bi, st))
        for k, (bi, st) in util.ordinal_keys(rets, lambda it: "%s::next|stand-in returned" % name.split("::")[-1]):
            n += 1
            ok = bool(del_true) and b.edges_dominate(del_true, bi)
            ctx.ob("D3", k, ok, st["sp"], "only when the final op of the register is deleted" if ok else
                   "the remembered lower-id value is returned although the register's final op may still be visible: the diff reports a losing value as the new value")
    ctx.floor("returns of the remembered value in MapDiff / ListDiff", n, 2)


def check_same_arm(ctx, f):
    from . import C28
    n = 0
    for tail, flag in (("iter::map_range::MapDiffItem::log", "flag_conflict_map"), ("iter::list_range::ListDiffItem::log", "flag_conflict_seq")):
        P = [p for p in f.fns if norm_fn(p) == "automerge::" + tail]
        if len(P) != 1:
            raise facts.AnchorMissing(tail)
        b = cfg.body(f.fns[P[0]])
        ctx.analysed_fns.add(P[0])
        flags = [(bi, t) for bi, t in b.calls() if (callee(t) or "").endswith("PatchLog::" + flag) or (callee(t) or "").endswith("PatchLog::flag_conflict")]
        incs = [bi for bi, t in b.calls() if (callee(t) or "").split("::")[-1] in ("increment_map", "increment_seq", "increment")]
        ctx.floor("increment patches in %s" % tail.split("::")[-2], len(incs), 1)
        for k, (bi, t) in util.ordinal_keys(flags, lambda it, tl=tail: "%s|conflict patch of an unchanged winner" % tl.split("::")[-2]):
            n += 1
            bad = []
            for sb, sw in C28.control_switches_transitive(b, bi):
                src = b.bool_operand_source(sw["op"])
                if src and src["kind"] == "bin" and src["op"] in ("Ne", "Eq", "Gt", "Lt"):
                    os_ = [b.operand_origin(o) for o in src["o"]]
                    if any(o and ".inc" in o[1] for o in os_) or any(b.local_name(o[0]) == "inc" for o in os_ if o):
                        bad.append(util.where(b, sb))
            ctx.ob("D4", k, not bad, t["sp"], "independent of the increment test" if not bad else
                   "the conflict patch is only logged when the op was not incremented (%s): a counter incremented and newly conflicted between the two heads loses its conflict flag in the diff" % bad)
    ctx.floor("conflict patches for unchanged winners in the diff items", n, 2)


def check_cursor_update(ctx, f):
    """D5: update_diff_cursor always truncates the delivered log and moves the cursor (also at empty heads)"""
    ctx.rule("D5", "AutoCommit::update_diff_cursor: PatchLog::truncate and the store to self.diff_cursor are not control dependent on anything but the transaction-closing prologue (no emptiness test on the heads)")
    from . import C28
    P = [p for p in f.fns if norm_fn(p) == "automerge::autocommit::AutoCommit::update_diff_cursor"]
    if len(P) != 1:
        raise facts.AnchorMissing("AutoCommit::update_diff_cursor")
    b = cfg.body(f.fns[P[0]])
    ctx.analysed_fns.add(P[0])
    steps = [(bi, "truncate", t["sp"]) for bi, t in b.calls() if (callee(t) or "").endswith("PatchLog::truncate")]
    steps += [(bi, "cursor", st["sp"]) for bi, blk in enumerate(b.blocks) if not blk.get("cleanup") for st in blk["st"] if st["d"]["p"] and st["d"]["p"][-1] == ".diff_cursor"]
    ctx.floor("truncate / cursor stores in update_diff_cursor", len(steps), 2)
    for bi, what, sp in steps:
        bad = []
        for sb, sw in C28.control_switches_transitive(b, bi):
            src = b.bool_operand_source(sw["op"])
            if src and src["kind"] == "call" and (norm_fn(src["callee"]) or "").split("::")[-1] in ("is_empty", "is_some", "is_none") or (src and src["kind"] == "bin"):
                bad.append(util.where(b, sb))
        ctx.ob("D5", "update_diff_cursor|%s unconditional" % what, not bad, sp, "always" if not bad else
               "the delivered patches are kept / the cursor stays behind under a test (%s): after the session was at empty heads diff_incremental() hands out patches the consumer already applied" % bad)
