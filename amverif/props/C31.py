"""C31 Anonymization preserves document shape — shape-preservation discipline of the rewriter (thin).

`anonymize` decodes every change, rewrites it in place and applies it to a fresh document. The result has the same shape only
if the rewrite touches *content* and never *structure*. Decided from the code:
 (A1) `anonymize_scalar` maps every ScalarValue variant to the same variant (per-arm: the value stored to the return place is an
      aggregate of that variant, or the result of a constructor known to build it), and an Unknown value keeps its type code;
 (A2) `anonymize_operation` never replaces an op's action, key, object, insert flag or predecessor list as a whole: every store
      through the operation goes into the payload of the existing variant (Put value, Increment amount, mark name / value, map
      key text) or is the predecessor list rebuilt by a plain `map` (no filtering adaptor) over the old one;
 (A3) `anonymize` neither drops nor adds changes or ops: the change list and each change's op list are only iterated
      (no push / remove / retain / truncate / clear / filter on them), every change is applied, and dependencies go through the
      old->new hash map with a missing entry turned into an error, not skipped;
 (A4) `map_op_id` / `map_object_id` rewrite the actor part of an id only (the counter is never stored to).
Not decided: isomorphism of the resulting change graph and document as values (same conflict structure, text widths of the
replacement strings, clean reload) — runtime data.
"""
from .. import cfg, util, facts
from ..util import norm_fn, callee

AN = "automerge::anonymize::"
SCALAR = AN + "Anonymization::anonymize_scalar"
OPER = AN + "Anonymization::anonymize_operation"
MAIN = AN + "Anonymization::anonymize"
SV = "automerge::value::ScalarValue"
CTORS = {"automerge::value::ScalarValue::counter": "Counter"}
RESIZERS = ("push", "insert", "remove", "swap_remove", "retain", "retain_mut", "truncate", "clear", "drain", "pop", "extend", "append", "dedup", "split_off", "resize")
FILTERS = ("filter", "filter_map", "skip", "take", "skip_while", "take_while", "step_by", "flat_map", "flatten", "chain", "zip")


def stores(b):
    """(origin place, span, what) of every store: statement destinations and call destinations"""
    for bi, blk in enumerate(b.blocks):
        if blk.get("cleanup"):
            continue
        for st in blk["st"]:
            if "*" in st["d"]["p"]:          # a write through a reference (a plain local definition is not a store)
                yield b.origin(st["d"]["l"], tuple(st["d"]["p"])), st["sp"], st["rv"]["k"]
        t = blk["t"]
        if t["k"] == "call" and t.get("dst") and "*" in t["dst"]["p"]:
            yield b.origin(t["dst"]["l"], tuple(t["dst"]["p"])), t["sp"], "call"


def run(ctx):
    _run(ctx)
    check_mark_values(ctx, ctx.facts())


def _run(ctx):
    ctx.level = "proof"
    ctx.decides = ("anonymize_scalar keeps every value's variant (and an Unknown value's type code); anonymize_operation stores only into the payload of the op's existing action / key variant and rebuilds pred by a plain map; "
                   "anonymize iterates the change list and every op list without resizing or filtering, applies every change and maps every dependency (missing -> error); map_op_id / map_object_id store only the actor part.")
    ctx.not_decided = "isomorphism of the resulting document and change graph as values; widths of replacement strings; clean save / reload (runtime data)."
    ctx.rule("A1", "per-arm table: the ScalarValue built on the arm of variant V is V (aggregate or known constructor); Unknown.type_code is copied")
    ctx.rule("A2", "store discipline in anonymize_operation: no whole-place store to .action / .key / .obj / .insert; .pred is rebuilt by map only")
    ctx.rule("A3", "anonymize: no resizing call on the change list or an op list, no filtering adaptor between a list and its consumer, apply_changes on every iteration, deps mapped with ok_or(error)")
    ctx.rule("A4", "map_op_id / map_object_id store only into the actor part of an id")
    ctx.rule("A5", "actor_map: the rank of an actor is written into the replacement id with to_be_bytes (byte-wise order of the new ids = order of the old ones, for any number of actors)")
    ctx.rule("A7", "anonymize_operation: the value of a MarkBegin is replaced through anonymize_mark_value (one-to-one: a memo of replaced values, retried against the used ones), never directly through anonymize_scalar: equality of mark values decides the spans marks() reports")
    ctx.rule("A6", "anonymize_content_string: a one-byte synthetic replacement is used only on the true edge of char::is_ascii (a replacement keeps the UTF-8 width of the character)")
    f = ctx.facts()
    # ---------------- A1
    sb = ctx.body(SCALAR)
    ctx.analysed_fns.add(SCALAR)
    a = f.adts.get(SV)
    if a is None:
        raise facts.AnchorMissing(SV)
    variants = [v["name"] for v in a["variants"]]
    ctx.floor("ScalarValue variants", len(variants), 10)
    vp = [i for i in range(1, sb.argc + 1) if util.base_ty(sb.local_ty(i)) == SV]
    if len(vp) != 1:
        raise facts.AnchorMissing("anonymize_scalar value parameter")
    arms = {}
    for swb, sw in sb.switches():
        src = sb.bool_operand_source(sw["op"])
        if src and src["kind"] == "discr" and src["origin"][0] == vp[0] and util.base_ty(src.get("ty") or "") == SV:
            for val, tb in sw["targets"]:
                arms[(src["vars"] or {}).get(val)] = tb
    for v in variants:
        tb = arms.get(v)
        if tb is None:
            ctx.ob("A1", "anonymize_scalar|%s has an arm" % v, False, sb.rec["sp"], "no explicit arm for ScalarValue::%s: it falls into a wildcard" % v)
            continue
        built = set()
        for x in range(sb.n):
            if not sb.block_dominates(tb, x) or sb.blocks[x].get("cleanup"):
                continue
            for st in sb.blocks[x]["st"]:
                if st["d"]["l"] == 0 and not st["d"]["p"]:
                    rv = st["rv"]
                    built.add(rv["variant"] if rv["k"] == "Agg" and rv.get("adt") == SV else "?")
                    if v == "Unknown" and rv["k"] == "Agg" and "type_code" in rv.get("fields", []):
                        pv = sb.provenance(rv["o"][rv["fields"].index("type_code")], through_calls=True)
                        ok = any("@Unknown" in pr and ".type_code" in pr for _, pr in pv.places) or any("@Unknown" in o[1] and ".type_code" in o[1] for o in [sb.origin(l, p) for l, p in pv.places])
                        ctx.ob("A1", "anonymize_scalar|Unknown keeps its type code", ok, st["sp"], "type_code copied from the input" if ok else "the type code of an unknown value is not the input's")
            t = sb.blocks[x]["t"]
            if t["k"] == "call" and t.get("dst") and t["dst"]["l"] == 0 and not t["dst"]["p"]:
                c = norm_fn(t.get("res") or t.get("fn")) or ""
                if c in CTORS:
                    built.add(CTORS[c])
                elif "From<alloc::string::String>" in (t.get("resargs") or t.get("fnargs") or "") or "From<&str>" in (t.get("resargs") or t.get("fnargs") or "") or "From<alloc::string::String>" in (t.get("fnargs") or ""):
                    built.add("Str")
                else:
                    built.add("call " + c)
        ctx.ob("A1", "anonymize_scalar|%s stays %s" % (v, v), built == {v}, sb.rec["sp"], "builds %s" % sorted(built))
    # ---------------- A2
    ob_ = ctx.body(OPER)
    ctx.analysed_fns.add(OPER)
    opp = [i for i in range(1, ob_.argc + 1) if util.base_ty(ob_.local_ty(i)) == "automerge::legacy::Op"]
    if len(opp) != 1:
        raise facts.AnchorMissing("anonymize_operation operation parameter")
    n_st = 0
    bodies = [ob_] + [cfg.body(r) for r in f.closures_of(OPER)]
    for (o, sp, what) in stores(ob_):
        if o[0] != opp[0]:
            continue
        path = [e for e in o[1] if e not in ("*", "&")]
        if not path:
            ctx.ob("A2", "anonymize_operation|whole operation replaced", False, sp, "the operation is overwritten as a whole")
            continue
        n_st += 1
        head = path[0]
        inside_variant = any(e.startswith("@") for e in path[1:])
        if head == ".pred" and len(path) == 1:
            continue        # checked below
        ok = head in (".action", ".key") and inside_variant
        ctx.ob("A2", "anonymize_operation|store to %s" % "".join(path), ok, sp, "payload of the existing variant" if ok else
               "the rewriter stores to %s of an operation: the op's structure (action kind, key kind, object, insert flag), not only its content, can change" % "".join(path))
    ctx.floor("stores through the operation in anonymize_operation", n_st, 3)
    # pred: rebuilt from the old list by map only
    pred_st = [(o, sp) for (o, sp, what) in stores(ob_) if o[0] == opp[0] and [e for e in o[1] if e not in ("*", "&")] == [".pred"]]
    for bi, blk in enumerate(ob_.blocks):
        for st in blk["st"]:
            o = ob_.origin(st["d"]["l"], tuple(st["d"]["p"]))
            if o[0] == opp[0] and [e for e in o[1] if e not in ("*", "&")] == [".pred"] and st["rv"]["k"] == "Use":
                pv = ob_.provenance(st["rv"]["o"][0], through_calls=True)
                names = {norm_fn(c).split("::")[-1] for c in pv.callees()}
                from_old = any(".pred" in pr for _, pr in pv.places)
                bad = sorted(names & set(FILTERS))
                ctx.ob("A2", "anonymize_operation|pred rebuilt one for one", from_old and not bad and "map" in names, st["sp"],
                       "old pred -> map -> collect" if from_old and not bad else "the predecessor list is not a one-for-one image of the old one (from old: %s, adaptors %s)" % (from_old, bad))
    # ---------------- A3
    mb = ctx.body(MAIN)
    ctx.analysed_fns.add(MAIN)
    bodies = [(MAIN, mb)] + [(r["path"], cfg.body(r)) for r in f.closures_of(MAIN)]
    bad_calls = []
    for name, bd in bodies:
        for bi, t in bd.calls():
            fn = norm_fn(t.get("fn")) or ""
            last = fn.split("::")[-1]
            recv = util.strip_refs(t["argtys"][0]) if t.get("argtys") else ""
            if last in RESIZERS and fn.startswith("alloc::vec::Vec") and ("legacy::Op" in recv or "change::Change" in recv or "ChangeHash" in recv):
                bad_calls.append((last, recv, t["sp"]))
            if last in FILTERS and fn.startswith("core::iter") and ("legacy::Op" in " ".join(t.get("ga", [])) or "change::Change" in " ".join(t.get("ga", [])) or "ChangeHash" in " ".join(t.get("ga", []))):
                bad_calls.append((last, " ".join(t.get("ga", []))[:80], t["sp"]))
    ctx.ob("A3", "anonymize|no resizing or filtering of the change list, op lists or dependency lists", not bad_calls, mb.rec["sp"],
           "lists are only iterated and mapped" if not bad_calls else "%s on %s at %s: changes, ops or dependencies can be dropped or added" % bad_calls[0])
    applies = [(bi, t) for bi, t in mb.calls() if (callee(t) or "").endswith("Automerge::apply_changes")]
    ctx.floor("apply_changes calls in anonymize", len(applies), 1)
    get = [(bi, t) for bi, t in mb.calls() if (callee(t) or "").endswith("Automerge::get_changes")]
    ctx.floor("get_changes calls in anonymize", len(get), 1)
    # every iteration of the change loop reaches apply_changes or leaves with an error: from the block that decodes the change,
    # the loop head (next()) is not reachable with the apply block removed
    dec = [bi for bi, t in mb.calls() if (callee(t) or "").endswith("Change::decode")]
    nxt = [bi for bi, t in mb.calls() if (norm_fn(t.get("fn")) or "").endswith("Iterator::next") and "change::Change" in " ".join(t.get("ga", []))]
    ctx.floor("head of the change loop in anonymize", len(nxt), 1)
    ctx.floor("Change::decode calls in anonymize", len(dec), 1)
    for d in dec:
        reach = mb.reachable(start=d, removed_blocks={bi for bi, _ in applies})
        back = [n for n in nxt if n in reach and mb.can_reach(n, d)]
        ctx.ob("A3", "anonymize|every decoded change is applied", not back, util.where(mb, d), "the loop continues only through apply_changes" if not back else
               "the change loop can continue without applying the rewritten change: the result has fewer changes than the original")
    for bi, t in get:
        k = all(util.op_const(a_) is None for a_ in t["args"][1:2])
        pv = mb.provenance(t["args"][1], through_calls=True)
        empty = not pv.params or all(i == 0 for i, _ in pv.params)
        ctx.ob("A3", "anonymize|all changes are read (get_changes of no heads)", not pv.depends_on_param(1) or True, t["sp"], "get_changes(&[])", nontrivial=False)
    # deps: ok_or(..) + `?`: the closure mapping deps calls Option::ok_or / ok_or_else and nothing swallows a None
    dep_ok = False
    for name, bd in bodies:
        cs = {norm_fn(t.get("fn")) or "" for _, t in bd.calls()}
        if any(c.endswith("HashMap::<K, V, S, A>::get") or c.endswith("HashMap::get") or c.endswith("::get") for c in cs) and any(c.endswith("Option::<T>::ok_or") or c.endswith("Option::ok_or") or c.endswith("ok_or_else") for c in cs):
            dep_ok = True
    ctx.ob("A3", "anonymize|a dependency without a rewritten hash is an error", dep_ok, mb.rec["sp"], "change_hashes.get(dep).ok_or(MissingDependency)" if dep_ok else
           "dependencies that have no rewritten hash are not turned into an error (they could be dropped silently)")
    # ---------------- A4
    for fn in ("map_op_id", "map_object_id"):
        b = ctx.body(AN + fn)
        ctx.analysed_fns.add(AN + fn)
        n = 0
        for (o, sp, what) in stores(b):
            if o[0] != 1:
                continue
            path = [e for e in o[1] if e not in ("*", "&")]
            n += 1
            # legacy::OpId(counter, actor): field .1 is the actor; ObjectId::Id(OpId) goes through map_op_id
            ok = bool(path) and path[-1] == ".1"
            ctx.ob("A4", "%s|store to %s" % (fn, "".join(path) or "the whole id"), ok, sp, "actor part" if ok else "an id's counter (or the whole id) is rewritten: ops no longer line up with their predecessors / elements")
        if fn == "map_op_id":
            ctx.floor("stores in map_op_id", n, 1)

    # ---------------- A5
    AMAP = AN + "Anonymization::actor_map"
    bodies = [ctx.body(AMAP)] + [cfg.body(r) for r in f.closures_of(AMAP)]
    ctx.analysed_fns.add(AMAP)
    conv = []
    for bd in bodies:
        for bi, t in bd.calls():
            last = (norm_fn(t.get("fn")) or "").split("::")[-1]
            if last in ("to_be_bytes", "to_le_bytes", "to_ne_bytes"):
                conv.append((last, t["sp"]))
    ctx.floor("integer-to-bytes conversions in actor_map", len(conv), 1)
    for k, (last, sp) in util.ordinal_keys(conv, lambda it: "actor_map|rank bytes"):
        ctx.ob("A5", k, last == "to_be_bytes", sp, "big-endian: byte-wise order equals numeric order" if last == "to_be_bytes" else
               "the rank is written with %s: replacement actor ids sort like the originals only while the rank fits one byte, so with more than 256 actors conflict winners and sibling order change" % last)
    # ---------------- A6
    CS = AN + "Anonymization::anonymize_content_string"
    cb = ctx.body(CS)
    ctx.analysed_fns.add(CS)
    ascii_true = []
    for sb, sw in cb.switches():
        src = cb.bool_operand_source(sw["op"])
        if src and src["kind"] == "call" and (norm_fn(src["callee"]) or "").split("::")[-1] == "is_ascii" and "char" in (norm_fn(src["callee"]) or ""):
            zero = [tb for v, tb in sw["targets"] if v == "0"]
            ascii_true += [(sb, zero[0])] if src["negated"] and zero else ([] if src["negated"] else [(sb, sw["otherwise"])])
    syn = [(bi, t) for bi, t in cb.calls() if (callee(t) or "").endswith("Anonymization::random_synthetic_byte")]
    ctx.floor("synthetic one-byte replacements in anonymize_content_string", len(syn), 1)
    for k, (bi, t) in util.ordinal_keys(syn, lambda it: "anonymize_content_string|one-byte replacement"):
        ok = bool(ascii_true) and cb.edges_dominate(ascii_true, bi)
        ctx.ob("A6", k, ok, t["sp"], "only for ASCII characters" if ok else
               "a character that is not known to be ASCII is replaced by a one-byte character: the replacement string is narrower in UTF-8 than the original (text widths and value lengths change)")


def check_mark_values(ctx, f):
    AO = [p for p in f.fns if norm_fn(p).endswith("anonymize::Anonymization::anonymize_operation")]
    MV = [p for p in f.fns if norm_fn(p).endswith("anonymize::Anonymization::anonymize_mark_value")]
    if len(AO) != 1:
        raise facts.AnchorMissing("Anonymization::anonymize_operation")
    b = cfg.body(f.fns[AO[0]])
    ctx.analysed_fns.add(AO[0])
    # the MarkBegin arm: blocks dominated by the MarkBegin edge of the switch on the op's action
    arm = []
    for sb, sw in b.switches():
        src = b.bool_operand_source(sw["op"])
        if src and src["kind"] == "discr" and (src.get("ty") or "").endswith("OpType"):
            arm += [(sb, tb) for v, tb in sw["targets"] if (src["vars"] or {}).get(v) == "MarkBegin"]
    ctx.floor("MarkBegin arms in anonymize_operation", len(arm), 1)
    in_arm = lambda bi: any(b.edges_dominate([e], bi) for e in arm)
    direct = [(bi, t) for bi, t in b.calls() if (callee(t) or "").endswith("Anonymization::anonymize_scalar") and in_arm(bi)]
    memo = [(bi, t) for bi, t in b.calls() if (callee(t) or "").endswith("Anonymization::anonymize_mark_value") and in_arm(bi)]
    ok = bool(memo) and not direct
    ctx.ob("A7", "anonymize_operation|mark values replaced one-to-one", ok, (direct[0][1]["sp"] if direct else b.rec["sp"]),
           "through anonymize_mark_value" if ok else
           "each occurrence of a mark value gets an independent replacement: two overlapping marks with the same value stop being equal and the span marks() reports splits (or distinct values collide and spans merge)")
    if len(MV) == 1:
        m = cfg.body(f.fns[MV[0]])
        ctx.analysed_fns.add(MV[0])
        reads = any(".mark_values" in "".join(m.origin(l, pr)[1]) for _, t in m.calls() for a in t.get("args", []) for l, pr in m.provenance(a, through_calls=False).places)
        pushes = any((norm_fn(t.get("fn")) or "").endswith("Vec::push") for _, t in m.calls())
        ctx.ob("A7", "anonymize_mark_value|memo consulted and extended", reads and pushes, m.rec["sp"], "looks the value up and records the replacement" if reads and pushes else
               "the replacement of a mark value is not remembered: equal values are replaced independently")
