"""C17 Untrusted input cannot exhaust memory or time — rule R8 (wire integer -> size), partial.

Decides (the structural half of the property: which wire-controlled numbers can size an allocation or bound a loop):
 (R8-alloc) no allocation size (Vec/String/HashMap::with_capacity, vec![x; n], reserve, resize, repeat_n) is derived from a
            wire-controlled number — an integer read by the LEB128 parsers, a field of a struct filled from them (computed
            per run: BloomFilter, chunk Header, OpCursor, ExId, Change, ...), or a value yielded by a hexane decoder — unless
            it first passes a sanitiser: `min`, the length of something already in memory (`len`), `take_n`/`split` (bounded by the
            input present) or a fallible `try_reserve`. Interprocedural through "parameter reaches a sink" summaries.
 (R8-loop)  no `a..n` loop bound is such a number, except where every iteration consumes input or fails (reviewed rows).
 (R8-strategy) the change collector's up-front strategy (VecEncoder: one slot per op *claimed* by the change metadata) is chosen only
            under the build constant CAN_OOM (wasm: a refused reservation is reported as OutOfMemory) or when the claimed size is below
            the size of the progressive encoder; every other path uses the progressive encoder, whose memory follows the ops present.
 (R8-mat)   run-length amplification inventory: every materialisation (`to_vec`, `collect`) of a hexane column / decoder over
            wire bytes in the parse layer is listed; each is reviewed or a known finding (a run header of a few bytes
            announces up to 2^63 values, so the materialised length is not bounded by the input size).
Not decided: the polynomial bound itself, the cost of the merge / index algorithms, memory of the sequence tree.
"""
import re
from .. import cfg, util, facts
from ..util import norm_fn, callee
from . import C15

SINK = re.compile(r"^(alloc::vec::Vec::(with_capacity|reserve|reserve_exact|resize)|alloc::vec::from_elem|core::iter::sources::repeat_n::repeat_n|alloc::string::String::with_capacity|std::collections::hash::(map::HashMap|set::HashSet)::with_capacity|alloc::collections::vec_deque::VecDeque::with_capacity)$")
SRC_CALL = re.compile(r"^(automerge::storage::parse::(leb128_u32|leb128_u64|leb128_i64|leb128_i32|nonzero_leb128_u64)|automerge::storage::parse::leb128::\w+|leb128::read::(unsigned|signed))$")
SANITISER = re.compile(r"(^core::cmp::(Ord::)?min$|^core::cmp::Ord::clamp$|::len$|::is_empty$|^automerge::storage::parse::(take_n|Input::take_n|Input::split)$|::count$|::size_hint$|^automerge::sync::bloom::bits_capacity$)")


def size_arg_index(fn):
    if fn.endswith("from_elem") or fn.endswith("repeat_n") or fn.endswith("::reserve") or fn.endswith("reserve_exact") or fn.endswith("::resize"):
        return 1
    return 0


def stop(rec):
    n = norm_fn(rec.get("res") or rec.get("fn")) or ""
    n2 = norm_fn(rec.get("fn")) or ""
    return bool(SANITISER.search(n) or SANITISER.search(n2))


def decoder_next(b, t):
    """Iterator::next on a hexane decoder / column iterator: yields wire values"""
    n = norm_fn(t.get("fn")) or ""
    if n != "core::iter::traits::iterator::Iterator::next":
        return False
    ty = (t.get("ga") or [""])[0]
    return "hexane::" in ty and ("Decoder" in ty or "decoder" in ty)


class Taint:
    def __init__(self, f):
        self.f = f
        self.fields = self.tainted_fields()
        self.sink_params = {}
        self.summarise()

    def tainted_fields(self):
        """(adt, field name) of integer fields filled from a wire number: an integer read by the LEB parsers, a value yielded by a
        column decoder, or (fixpoint) another such field. Only aggregates of automerge's own types are considered."""
        f = self.f
        out = {}
        bodies = {}
        intty = re.compile(r"^(u8|u16|u32|u64|usize|i32|i64|core::num::nonzero::NonZero<u64>|core::num::nonzero::NonZero<usize>)$")
        cands = []
        for p, r in f.fns.items():
            if r["ckey"] != ("automerge", "lib"):
                continue
            for bi, blk in enumerate(r["blocks"]):
                for si, st in enumerate(blk["st"]):
                    rv = st["rv"]
                    if rv["k"] == "Agg" and rv.get("ak") == "adt" and rv["adt"].startswith("automerge::"):
                        a = f.adts.get(rv["adt"])
                        var = [v for v in (a or {}).get("variants", []) if v["name"] == rv["variant"]]
                        if var and any(intty.match(fl["ty"]) for fl in var[0]["fields"]):
                            cands.append((p, rv, var[0]))
        for rounds in range(4):
            changed = False
            for p, rv, var in cands:
                b = bodies.get(p)
                if b is None:
                    b = bodies[p] = cfg.body(f.fns[p])
                for i, o in enumerate(rv.get("o", [])):
                    if i >= len(var["fields"]) or not intty.match(var["fields"][i]["ty"]):
                        continue
                    key = (rv["adt"], var["fields"][i]["name"])
                    if key in out or util.op_const(o) is not None:
                        continue
                    pv = b.provenance(o, through_calls=True, stop=stop)
                    hit = None
                    for c, cb in pv.calls | pv.decls:
                        if SRC_CALL.match(norm_fn(c) or ""):
                            hit = "parsed by %s" % norm_fn(c).split("::")[-1]
                        elif decoder_next(b, b.blocks[cb]["t"]):
                            hit = "yielded by a column decoder"
                    if hit is None:
                        for l, pr in pv.places:
                            ty = util.base_ty(util.strip_refs(b.local_ty(l)))
                            flds = [e[1:] for e in pr if e.startswith(".")]
                            if flds and (ty, flds[0]) in out:
                                hit = "copied from %s.%s" % (ty.split("::")[-1], flds[0])
                    if hit:
                        out[key] = "%s (%s)" % (norm_fn(p), hit)
                        changed = True
            if not changed:
                break
        return out

    def sources(self, b, op):
        """why is this operand wire-controlled? list of reasons ([] = it is not); also returns the params it derives from"""
        pv = b.provenance(op, through_calls=True, stop=stop)
        why = []
        for c, cb in pv.calls | pv.decls:
            if SRC_CALL.match(norm_fn(c) or ""):
                why.append("integer parsed by %s" % norm_fn(c).split("::")[-1])
            t = b.blocks[cb]["t"]
            if decoder_next(b, t):
                why.append("value yielded by a decoder over column bytes (%s)" % (t["ga"][0].split("<")[0].split("::")[-1]))
            tgt = t.get("res") or t.get("fn")
            if tgt in self.ret_tainted:
                why.append("result of %s (wire-controlled)" % norm_fn(tgt).split("::")[-1])
        for l, pr in pv.places:
            ty = util.base_ty(util.strip_refs(b.local_ty(l)))
            flds = [e[1:] for e in pr if e.startswith(".")]
            if flds and (ty, flds[0]) in self.fields:
                why.append("field %s.%s filled from the wire in %s" % (ty.split("::")[-1], flds[0], self.fields[(ty, flds[0])].split("::")[-1]))
        params = {i for i, _ in pv.params}
        return sorted(set(why)), params

    ret_tainted = set()

    def summarise(self):
        """parameters that reach an allocation sink unsanitised (fixpoint over direct calls)"""
        f = self.f
        sinks = {}
        bodies = {}
        for p, r in f.fns.items():
            if r["ckey"][0] not in ("automerge",) or r["ckey"][1] != "lib":
                continue
            for bi, t in f.calls(r):
                fn = norm_fn(t.get("fn")) or ""
                if SINK.match(fn):
                    sinks.setdefault(p, []).append((bi, t, size_arg_index(fn)))
        self.sinks = sinks
        changed = True
        sp = {}
        upv = {}        # closure path -> indexes of captured variables that reach an allocation sink inside the closure
        rounds = 0
        while changed and rounds < 6:
            changed = False
            rounds += 1
            for p, r in f.fns.items():
                if r["ckey"] != ("automerge", "lib"):
                    continue
                cand = list(sinks.get(p, []))
                for bi, t in f.calls(r):
                    tgt = t.get("res") or t.get("fn")
                    if tgt in sp:
                        for i in sp[tgt]:
                            if i - 1 < len(t["args"]):
                                cand.append((bi, t, i - 1))
                # a closure built here whose captured variable reaches a sink inside the closure body: the captured operand is a sink operand
                ops = [t["args"][ai] for bi, t, ai in cand if ai < len(t["args"]) and util.op_const(t["args"][ai]) is None]
                if upv:
                    for blk in r["blocks"]:
                        for st in blk["st"]:
                            rv = st["rv"]
                            if rv["k"] == "Agg" and rv.get("ak") == "closure" and rv.get("closure") in upv:
                                for k_ in upv[rv["closure"]]:
                                    if k_ < len(rv["o"]) and util.op_const(rv["o"][k_]) is None:
                                        ops.append(rv["o"][k_])
                if not ops:
                    continue
                b = bodies.get(p) or cfg.body(r)
                bodies[p] = b
                cur = sp.get(p, set())
                new = set(cur)
                for o in ops:
                    pv = b.provenance(o, through_calls=True, stop=stop)
                    new |= {i for i, proj in pv.params if not proj or proj in ("*",)}
                    if "{closure#" in p:
                        for i, proj in pv.params:
                            m = re.match(r"^\*?\.(\d+)\*?$", proj or "")
                            if i == 1 and m and int(m.group(1)) not in upv.get(p, set()):
                                upv.setdefault(p, set()).add(int(m.group(1)))
                                changed = True
                if new != cur:
                    sp[p] = new
                    changed = True
        self.sink_params = sp
        self.sink_upvars = upv


def run(ctx):
    ctx.level = "other"
    ctx.decides = ("no allocation size and no range-loop bound in automerge derives from a wire-controlled number (LEB-parsed integer, struct field filled from one, value yielded by a column decoder) "
                   "without passing min / len / take_n / try_reserve; every materialisation of a run-length column over wire bytes in the parse layer is inventoried (reviewed or a known finding).")
    ctx.not_decided = "the polynomial bound as such; cost of merge, indexing and sequence-tree operations; memory held by validly large documents."
    ctx.rule("R8-alloc", "taint: wire integer / wire-filled field / decoder value -> allocation size, interprocedural via parameter summaries; sanitisers min, len, take_n, try_reserve")
    ctx.rule("R8-loop", "taint: the same sources -> end of a Range that is iterated")
    ctx.rule("R8-strategy", "who-may-call VecEncoder::{new,try_new} + edge dominance by the CAN_OOM constant / the size comparison")
    ctx.rule("R8-visit", "worklist discipline: a push / extend onto a Vec / VecDeque that is popped in the same loop is edge-dominated by a visited-set guard (set.insert(..) == true, or set.contains(..) == false), or reviewed (c17_sizes.tsv)")
    ctx.rule("R8-mat", "inventory of to_vec / collect over hexane columns and decoders built from wire bytes in the parse layer")
    f = ctx.facts()
    T = Taint(f)
    ctx.floor("struct fields filled from wire integers", len(T.fields), 8)
    ctx.note("wire-filled integer fields: %s" % sorted("%s.%s" % (a.split("::")[-1], n) for a, n in T.fields))
    table = ctx.table("c17_sizes.tsv")
    n_sinks = 0
    for p, r in sorted(f.fns.items()):
        if r["ckey"] != ("automerge", "lib"):
            continue
        cand = [(bi, t, ai, norm_fn(t["fn"]).split("::")[-1]) for bi, t, ai in T.sinks.get(p, [])]
        for bi, t in f.calls(r):
            tgt = t.get("res") or t.get("fn")
            for i in T.sink_params.get(tgt, ()):
                if i - 1 < len(t["args"]):
                    cand.append((bi, t, i - 1, "%s(arg %d sizes an allocation)" % (norm_fn(tgt).split("::")[-1], i)))
        if not cand:
            continue
        b = cfg.body(r)
        ctx.analysed_fns.add(p)
        for k, (bi, t, ai, what) in util.ordinal_keys(cand, lambda c: "%s|%s" % (norm_fn(p), c[3])):
            n_sinks += 1
            if ai >= len(t["args"]) or util.op_const(t["args"][ai]) is not None:
                ctx.ob("R8-alloc", k, True, t["sp"], "constant size", nontrivial=False)
                continue
            why, _ = T.sources(b, t["args"][ai])
            if not why:
                ctx.ob("R8-alloc", k, True, t["sp"], "size not wire-controlled (or sanitised by min / len / take_n)", nontrivial=False)
            elif ("R8-alloc|" + k) in table:
                ctx.ob("R8-alloc", k, True, t["sp"], "reviewed: " + table["R8-alloc|" + k], via="table:" + table["R8-alloc|" + k])
            else:
                ctx.ob("R8-alloc", k, False, t["sp"], "allocation sized by a wire-controlled number: %s" % "; ".join(why))
    ctx.floor("allocation-size sites examined", n_sinks, 60)
    # ---------------- loops
    n_loops = 0
    for p, r in sorted(f.fns.items()):
        if r["ckey"] != ("automerge", "lib"):
            continue
        b = None
        for bi, blk in enumerate(r["blocks"]):
            if blk.get("cleanup"):
                continue
            for st in blk["st"]:
                rv = st["rv"]
                if rv["k"] == "Agg" and rv.get("adt") in ("core::ops::range::Range", "core::ops::range::RangeInclusive") and len(rv.get("o", [])) >= 2:
                    b = b or cfg.body(r)
                    # iterated? the range local flows into into_iter / next
                    dl = st["d"]["l"]
                    iterated = any(norm_fn(t.get("fn")) in ("core::iter::traits::collect::IntoIterator::into_iter", "core::iter::traits::iterator::Iterator::next") and
                                   (b.operand_origin(t["args"][0]) or (None,))[0] == dl for _, t in b.calls())
                    if not iterated:
                        continue
                    n_loops += 1
                    if util.op_const(rv["o"][1]) is not None:
                        continue
                    why, _ = T.sources(b, rv["o"][1])
                    if not why:
                        continue
                    k = "%s|range loop" % norm_fn(p)
                    kk = [x for x in ctx.obs if x["key"].startswith("R8-loop|" + k)]
                    k = "%s|%d" % (k, len(kk))
                    if ("R8-loop|" + k) in table:
                        ctx.ob("R8-loop", k, True, st["sp"], "reviewed: " + table["R8-loop|" + k], via="table:" + table["R8-loop|" + k])
                    else:
                        ctx.ob("R8-loop", k, False, st["sp"], "loop bound is a wire-controlled number: %s" % "; ".join(why))
    ctx.floor("iterated integer ranges examined", n_loops, 25)
    # ---------------- materialisations in the parse layer
    MAT = re.compile(r"(::to_vec$|^core::iter::traits::iterator::Iterator::collect$)")
    COLSRC = re.compile(r"^hexane::(column::Column|delta::DeltaColumn|prefix::PrefixColumn)::(load|load_with)$|^hexane::(decoder|decoder_in)$|^hexane::delta::decoder::DeltaDecoder::new$")
    n_mat = 0
    for p, r in sorted(f.fns.items()):
        if r["ckey"] != ("automerge", "lib") or not C15.in_layer(norm_fn(p)):
            continue
        b = None
        sites = []
        for bi, t in f.calls(r):
            n = norm_fn(t.get("fn")) or ""
            if MAT.search(n) and t["args"]:
                b = b or cfg.body(r)
                pv = b.provenance(t["args"][0], through_calls=True)
                srcs = sorted({norm_fn(c).split("::")[-2] + "::" + norm_fn(c).split("::")[-1] for c in pv.callees() if COLSRC.match(norm_fn(c) or "")})
                if srcs:
                    sites.append((bi, t, srcs))
        for k, (bi, t, srcs) in util.ordinal_keys(sites, lambda s_: "%s|%s of %s" % (norm_fn(p), norm_fn(s_[1]["fn"]).split("::")[-1], ",".join(s_[2]))):
            n_mat += 1
            if ("R8-mat|" + k) in table:
                ctx.ob("R8-mat", k, True, t["sp"], "reviewed: " + table["R8-mat|" + k], via="table:" + table["R8-mat|" + k])
            else:
                ctx.ob("R8-mat", k, False, t["sp"], "a run-length column over wire bytes is materialised element by element: its length is announced by run headers, not bounded by the input size")
    ctx.floor("column materialisations in the parse layer", n_mat, 4)
    # ---------------- the up-front encoder strategy
    VE = "automerge::op_set2::change::collector::VecEncoder::"
    n_ve = 0
    for p, r in sorted(f.fns.items()):
        if r["ckey"] != ("automerge", "lib"):
            continue
        sites = [(bi, t) for bi, t in f.calls(r) if norm_fn(t.get("res") or t.get("fn")) in (VE + "new", VE + "try_new")]
        if not sites:
            continue
        b = cfg.body(r)
        ctx.analysed_fns.add(p)
        const_edges, size_edges = [], []
        for sb, sw in b.switches():
            pl = util.op_place(sw["op"])
            d = b.single_def(pl["l"]) if pl is not None and not pl["p"] else None
            if d and d[1] != "t" and d[2]["rv"]["k"] == "Use":
                k = util.op_const(d[2]["rv"]["o"][0])
                if k is not None and (k.get("def") or "").endswith("::CAN_OOM"):
                    # the edge taken when the constant is true (non-zero)
                    zero = [tb for v, tb in sw["targets"] if v == "0"]
                    nonzero = [tb for v, tb in sw["targets"] if v != "0"] or ([sw["otherwise"]] if zero else [])
                    const_edges += [(sb, tb) for tb in nonzero]
            src = b.bool_operand_source(sw["op"])
            if src and src["kind"] == "bin" and src["op"] in ("Gt", "Ge", "Lt", "Le"):
                provs = [b.provenance(o, through_calls=True) for o in src["o"]]
                sizes = [any(norm_fn(c) == "core::mem::size_of" for c in pv.callees()) for pv in provs]
                if all(sizes):
                    # `claimed bytes > size_of::<ProgressiveEncoder>()` : the false edge is the small case
                    truth = False if src["op"] in ("Gt", "Ge") else True
                    operand_value = (not truth) if src["negated"] else truth
                    from .. import rules as _r
                    size_edges.append(_r.bool_switch_edge(b, sb, operand_value))
        for k, (bi, t) in util.ordinal_keys(sites, lambda it: "%s|%s" % (norm_fn(p), norm_fn(it[1].get("res") or it[1].get("fn")).split("::")[-1])):
            n_ve += 1
            ok = (bool(const_edges) and b.edges_dominate(const_edges, bi)) or (bool(size_edges) and b.edges_dominate(size_edges, bi))
            ctx.ob("R8-strategy", k, ok, t["sp"], "only under CAN_OOM or when the claimed size is below the progressive encoder's" if ok else
                   "the one-slot-per-claimed-op encoder is chosen without the CAN_OOM constant or the size comparison: memory follows the op count the metadata claims, not the ops present")
    ctx.floor("VecEncoder constructor call sites", n_ve, 2)

    check_worklists(ctx, f, table)


def check_worklists(ctx, f, table):
    """a graph walk without a visited set visits every *path*: exponential on the braided histories two peers produce by merging both ways"""
    n = 0
    for p, r in sorted(f.fns.items()):
        if r["ckey"] != ("automerge", "lib"):
            continue
        b = cfg.body(r)
        pops = {}
        for bi, t in b.calls():
            fn = norm_fn(t.get("fn")) or ""
            if fn.split("::")[-1] in ("pop", "pop_front", "pop_back") and ("Vec" in fn or "VecDeque" in fn):
                o = b.operand_origin(t["args"][0])
                if o:
                    pops.setdefault((o[0], tuple(x for x in o[1] if x not in ("&", "*"))), []).append(bi)
        if not pops:
            continue
        sites = []
        for bi, t in b.calls():
            fn = norm_fn(t.get("fn")) or ""
            recv = (t.get("argtys") or [""])[0]
            if fn.split("::")[-1] in ("push", "push_back", "push_front", "extend", "append") and ("Vec" in fn or "VecDeque" in fn or "Vec<" in recv or "VecDeque<" in recv):
                o = b.operand_origin(t["args"][0])
                if not o:
                    continue
                key = (o[0], tuple(x for x in o[1] if x not in ("&", "*")))
                if key in pops and any(b.can_reach(pb, bi) and b.can_reach(bi, pb) for pb in pops[key]):
                    sites.append((bi, t))
        if not sites:
            continue
        ctx.analysed_fns.add(p)
        guards = []
        for sb, sw in b.switches():
            src = b.bool_operand_source(sw["op"])
            if src and src["kind"] == "call":
                c = norm_fn(src["callee"]) or ""
                last = c.split("::")[-1]
                if not (("Set" in c or "set::" in c) and last in ("insert", "contains")):
                    continue
                zero = [tb for v, tb in sw["targets"] if v == "0"]
                te = [(sb, zero[0])] if src["negated"] and zero else ([] if src["negated"] else [(sb, sw["otherwise"])])
                fe = [(sb, sw["otherwise"])] if src["negated"] else ([(sb, zero[0])] if zero else [])
                guards.append((last, te if last == "insert" else fe, src))
        for k, (bi, t) in util.ordinal_keys(sites, lambda it: "%s|%s onto the worklist" % (norm_fn(p), (norm_fn(it[1].get("fn")) or "?").split("::")[-1])):
            n += 1
            ok = any(es and b.edges_dominate(es, bi) for _, es, _s in guards)
            # visited-on-push (the item inserted into the set is the item pushed, not the item popped): the walk is only correct if the
            # seeds of the worklist are in the set too — a seed that is also reachable from another seed is otherwise visited twice
            for last, es, src in guards:
                if last != "insert" or not (es and b.edges_dominate(es, bi)):
                    continue
                it = src["t"]
                pvi = b.provenance(it["args"][1], through_calls=True)
                from_pop = any((norm_fn(c) or "").split("::")[-1] in ("pop", "pop_front", "pop_back") for c in pvi.callees())
                pushed = b.provenance(t["args"][1], through_calls=False).locals & b.provenance(it["args"][1], through_calls=False).locals
                if from_pop and not pushed:
                    continue            # visited-on-pop
                so = b.operand_origin(it["args"][0])
                wo = b.operand_origin(t["args"][0])
                if not so or not wo:
                    continue
                seeds_ok = False
                for (db, si, rec) in b.defs().get(wo[0], []):
                    if any(b.can_reach(pb, db) for pb in pops.get((wo[0], tuple(x for x in wo[1] if x not in ("&", "*"))), [])):
                        continue        # a definition inside the loop
                    ops_ = rec["args"] if si == "t" else rec["rv"].get("o", [])
                    for o_ in ops_:
                        if so[0] in b.provenance(o_, through_calls=True).locals:
                            seeds_ok = True
                if not seeds_ok:
                    # the explicit form: the seed vector is filled by pushes that are themselves behind `S.insert(..) == true`
                    wkey = (wo[0], tuple(x for x in wo[1] if x not in ("&", "*")))
                    seedvecs = {wo[0]}
                    for (db, si, rec) in b.defs().get(wo[0], []):
                        if si != "t":
                            seedvecs |= {l for l in b.provenance(rec["rv"]["o"][0], through_calls=False).locals} if rec["rv"].get("o") else set()
                    s_guards = [es for last2, es, src2 in guards if last2 == "insert" and (b.operand_origin(src2["t"]["args"][0]) or (None,))[0] == so[0]]
                    for pb_, pt in b.calls():
                        pfn = norm_fn(pt.get("fn")) or ""
                        if pfn.split("::")[-1] in ("push", "push_back") and pb_ != bi:
                            po = b.operand_origin(pt["args"][0])
                            if po and po[0] in seedvecs and not any(b.can_reach(x, pb_) and b.can_reach(pb_, x) for x in pops.get(wkey, [])):
                                if any(es and b.edges_dominate(es, pb_) for es in s_guards):
                                    seeds_ok = True
                ctx.ob("R8-visit", k + "|seeds are in the visited set", seeds_ok, t["sp"], "the worklist is initialised from / filtered through the visited set" if seeds_ok else
                       "the worklist is seeded without entering the seeds into the visited set: a seed that is an ancestor of another seed is visited (and collected) twice")
            if not ok and ("R8-visit|" + k) in table:
                ctx.ob("R8-visit", k, True, t["sp"], "reviewed: " + table["R8-visit|" + k], via="table:" + table["R8-visit|" + k])
            else:
                ctx.ob("R8-visit", k, ok, t["sp"], "behind a visited-set guard" if ok else
                       "items are pushed onto a worklist that is popped in the same loop without a visited-set guard (insert(..) == true / contains(..) == false): the walk follows every path of the graph, exponential on histories with many merges")
    ctx.floor("pushes onto popped worklists", n, 8)
