"""C26 Cursors track their element — which index a cursor may resolve to, by case (thin).

`get_cursor_position_for` returns `Ok(n)` from a handful of places. The property fixes, case by case, what `n` may be; the
structural part is which value is returned under which test:
 (Q1) a Start cursor resolves to the constant 0, an End cursor to `length_for(obj, clock)` of the same object and clock;
 (Q2) on the `MoveCursor::After` arm the result is the `index` field of the element found for the cursor's op id — and nothing
      computed from it;
 (Q3) on the `MoveCursor::Before` arm an `index` field of a found element is returned only on the true edge of that element's
      `visible` flag, of `index == 0`, or of "the element now at that index is still the cursor's element" (a deleted element's own
      index is *not* the answer: the walk continues to its predecessor), and the constant 0 only when the walk ran off the
      front (`None`);
 (Q4) every lookup in the two cursor functions uses the caller's clock (no literal None) and the object resolved from the
      caller's object id; the cursor's op id is resolved by `op_cursor_to_opid`;
 (Q5) `get_cursor_for` builds the cursor from the *last* op found at the requested index (the visible winner of that element),
      hands the caller's MoveCursor on unchanged, and maps Start / End positions to the Start / End cursors.
Not decided: that `seek_list_opid` / `seek_ops_by_index` compute the right index for an op id (index arithmetic over tombstones),
hence `get_cursor_position(get_cursor(i)) == i` as a value.
"""
from .. import cfg, util, facts
from ..util import norm_fn, callee

AM = "automerge::automerge::Automerge"
POS = AM + "::get_cursor_position_for"
GET = AM + "::get_cursor_for"
SEEK = "automerge::op_set2::op_set::OpSet::seek_list_opid"
FOUND = "automerge::op_set2::op_set::FoundOpId"


def ok_returns(b):
    for bi, blk in enumerate(b.blocks):
        if blk.get("cleanup"):
            continue
        for st in blk["st"]:
            if st["d"]["l"] == 0 and not st["d"]["p"] and util.is_ok_agg(st["rv"]):
                yield bi, st


def variant_edges(b, pred, variant):
    out = []
    for sb, sw in b.switches():
        src = b.bool_operand_source(sw["op"])
        if src and src["kind"] == "discr" and pred(src):
            vs = src.get("vars") or {}
            hit = [(sb, tb) for v, tb in sw["targets"] if vs.get(v) == variant]
            out += hit if hit else ([(sb, sw["otherwise"])] if variant in vs.values() else [])
    return out


def bool_true_edges(b, sb, sw, negated=False):
    zero = [tb for v, tb in sw["targets"] if v == "0"]
    if negated:
        return [(sb, zero[0])] if zero else []
    return [(sb, sw["otherwise"])]


def run(ctx):
    ctx.level = "proof"
    ctx.decides = ("get_cursor_position_for: Start -> 0, End -> length_for(obj, clock); After -> the found element's index itself; Before -> an element's index only behind its visible flag (or index == 0), 0 only when the walk ends; "
                   "all lookups use the caller's clock and object; get_cursor_for takes the last op at the requested index, keeps the caller's MoveCursor and maps Start / End to themselves.")
    ctx.not_decided = "that seek_list_opid / seek_ops_by_index compute the right index (arithmetic over tombstones); get_cursor_position(get_cursor(i)) == i as a value; cursors after merges."
    ctx.rule("Q1", "per-arm result: Cursor::Start -> const 0; Cursor::End -> length_for(obj parameter, clock parameter)")
    ctx.rule("Q2", "MoveCursor::After arm: the Ok payload is the .index field of the FoundOpId found for the cursor's op id")
    ctx.rule("Q3", "MoveCursor::Before arm: Ok(.index of F) is edge-dominated by F.visible == true or F.index == 0; Ok(0) by the None arm of the walk's lookup")
    ctx.rule("Q4", "provenance: clock and object arguments of every lookup derive from the parameters; the op id from op_cursor_to_opid")
    ctx.rule("Q6", "sibling agreement of seek_list_opid's indexed and walking paths: `visible` is op-level visibility in both (index.visible, never index.top; membership by op id, not whole-op equality), and the walking path answers Some whenever the op is in the object")
    ctx.rule("Q5", "get_cursor_for: OpCursor::new(id of found.ops.last(), .., move_cursor parameter); Start -> Cursor::Start, End -> Cursor::End")
    f = ctx.facts()
    b = ctx.body(POS)
    ctx.analysed_fns.update([POS, GET])
    cur_p = [i for i in range(1, b.argc + 1) if util.base_ty(b.local_ty(i)) == "automerge::cursor::Cursor"]
    clk_p = [i for i in range(1, b.argc + 1) if "automerge::clock::Clock" in b.local_ty(i)]
    obj_p = [i for i in range(1, b.argc + 1) if util.base_ty(b.local_ty(i)) == "automerge::exid::ExId"]
    if len(cur_p) != 1 or len(clk_p) != 1 or len(obj_p) != 1:
        raise facts.AnchorMissing("get_cursor_position_for parameters")
    is_cursor = lambda s: util.base_ty(s.get("ty") or "") == "automerge::cursor::Cursor" and s["origin"][0] == cur_p[0]
    is_move = lambda s: util.base_ty(s.get("ty") or "") == "automerge::cursor::MoveCursor"
    start_e, end_e, op_e = (variant_edges(b, is_cursor, v) for v in ("Start", "End", "Op"))
    after_e, before_e = variant_edges(b, is_move, "After"), variant_edges(b, is_move, "Before")
    ctx.floor("arms of the cursor match", len(start_e) + len(end_e) + len(op_e), 3)
    ctx.floor("arms of the MoveCursor match", len(after_e) + len(before_e), 2)
    oks = list(ok_returns(b))
    ctx.floor("Ok returns of get_cursor_position_for", len(oks), 6)
    # switches on the visible flag / index == 0 of a found element, keyed by the element's local
    vis_edges, zero_edges = {}, {}
    for sb, sw in b.switches():
        src = b.bool_operand_source(sw["op"])
        if not src:
            continue
        if src["kind"] == "place" and src["origin"][1] and src["origin"][1][-1] == ".visible" and FOUND in b.local_ty(src["origin"][0]):
            vis_edges.setdefault((src["origin"][0], tuple(src["origin"][1][:-1])), []).extend(bool_true_edges(b, sb, sw, src["negated"]))
        if src["kind"] == "bin" and src["op"] == "Eq":
            k = [util.op_const(o) for o in src["o"]]
            pl = [o.get("c") or o.get("m") for o in src["o"] if util.op_const(o) is None]
            if any(c is not None and c.get("v") == "0" for c in k) and pl and pl[0]:
                o = b.origin(pl[0]["l"], tuple(pl[0]["p"]))
                if o[1] and o[1][-1] == ".index" and FOUND in b.local_ty(o[0]):
                    zero_edges.setdefault((o[0], tuple(o[1][:-1])), []).extend(bool_true_edges(b, sb, sw, src["negated"]))
    # "the element now at F.index is still the cursor's element": a bool computed from seek_ops_by_index(.., F.index, ..) and a comparison
    # of elemid_or_key (through Option::is_some_and / map + ==)
    present_edges = {}
    present_false = []
    for sb, sw in b.switches():
        src = b.bool_operand_source(sw["op"])
        if not src or src["kind"] != "call":
            continue
        t = src["t"]
        pv = b.provenance(t["args"][0], through_calls=True) if t.get("args") else None
        if pv is None or not any((norm_fn(c) or "").endswith("OpSet::seek_ops_by_index") for c in pv.callees()):
            continue
        cmp_elem = False
        for cl in b.provenance(t["args"][1], through_calls=False).closures if len(t["args"]) > 1 else ():
            r = f.fns.get(cl)
            if r is not None:
                names = [(norm_fn(tt.get("fn")) or "").split("::")[-1] for _, tt in f.calls(r)]
                cmp_elem = names.count("elemid_or_key") >= 2 and ("eq" in names or "ne" in names)
        if not cmp_elem:
            continue
        for l, pr in pv.places:
            o = b.origin(l, pr)
            if o[1] and o[1][-1] == ".index" and FOUND in b.local_ty(o[0]):
                present_edges.setdefault((o[0], tuple(o[1][:-1])), []).extend(bool_true_edges(b, sb, sw, src["negated"]))
                present_false.extend(bool_true_edges(b, sb, sw, not src["negated"]))
    none_walk = []
    for sb, sw in b.switches():
        src = b.bool_operand_source(sw["op"])
        if src and src["kind"] == "discr" and (src.get("ty") or "").startswith("core::option::Option<" + FOUND):
            d = b.single_def(src["origin"][0])
            if d and d[1] == "t" and callee(d[2]) == SEEK:
                vs = src.get("vars") or {}
                none_walk += [(sb, tb) for v, tb in sw["targets"] if vs.get(v) == "None"] or [(sb, sw["otherwise"])]
    n_idx = 0
    for k, (bi, st) in util.ordinal_keys(oks, lambda it: "get_cursor_position_for|Ok"):
        payload = st["rv"]["o"][0]
        c = util.op_const(payload)
        if c is None:
            # `let first = 0; Ok(first)`: follow plain copies to a constant
            pl_ = payload.get("c") or payload.get("m")
            depth_ = 0
            while pl_ is not None and not pl_["p"] and depth_ < 6:
                depth_ += 1
                d_ = b.single_def(pl_["l"])
                if d_ is None or d_[1] == "t" or d_[2]["rv"]["k"] != "Use":
                    break
                o_ = d_[2]["rv"]["o"][0]
                if util.op_const(o_) is not None:
                    c = util.op_const(o_)
                    break
                pl_ = o_.get("c") or o_.get("m")
        on = lambda es: bool(es) and b.edges_dominate(es, bi)
        if c is not None:
            ok = c.get("v") == "0" and (on(start_e) or (on(before_e) and on(none_walk)))
            ctx.ob("Q1" if on(start_e) else "Q3", k + "|constant", ok, st["sp"], "0 for a Start cursor / when the Before walk ran off the front" if ok else
                   "a constant position %s is returned outside the Start arm and the end of the Before walk" % c.get("v"))
            continue
        pl = payload.get("c") or payload.get("m")
        o = b.origin(pl["l"], tuple(pl["p"]))
        d = b.single_def(o[0]) if not o[1] else None
        if d and d[1] == "t" and callee(d[2]) == AM + "::length_for":
            t = d[2]
            same = b.provenance(t["args"][1]).depends_on_param(obj_p[0]) and b.provenance(t["args"][2], through_calls=True).depends_on_param(clk_p[0])
            ok = on(end_e) and same
            ctx.ob("Q1", k + "|length", ok, st["sp"], "length_for(obj, clock) for an End cursor" if ok else "the length is returned outside the End arm, or of another object / clock")
            continue
        if o[1] and o[1][-1] == ".index" and FOUND in b.local_ty(o[0]):
            n_idx += 1
            F = (o[0], tuple(o[1][:-1]))
            if on(after_e):
                # the element found for the cursor's own op id
                pvF = b.provenance(F[0], through_calls=True)
                own = any(norm_fn(c_) == AM + "::op_cursor_to_opid" for c_ in pvF.callees())
                ctx.ob("Q2", k + "|After", own, st["sp"], "index of the element found for the cursor's op id" if own else "the After arm returns the index of an element that was not looked up by the cursor's op id")
            else:
                allowed = vis_edges.get(F, []) + zero_edges.get(F, []) + present_edges.get(F, [])
                # the same disjunction held in a bool temporary (`let there = f.visible || <element lookup>; if there { .. }`)

                def present_call(t_, F=F):
                    if not t_.get("args") or len(t_["args"]) < 2:
                        return False
                    pv_ = b.provenance(t_["args"][0], through_calls=True)
                    if not any((norm_fn(c_) or "").endswith("OpSet::seek_ops_by_index") for c_ in pv_.callees()):
                        return False
                    if not any(b.origin(l_, pr_) == (F[0], F[1] + (".index",)) for l_, pr_ in pv_.places):
                        return False
                    for cl_ in b.provenance(t_["args"][1], through_calls=False).closures:
                        r_ = f.fns.get(cl_)
                        if r_ is not None:
                            names_ = [(norm_fn(tt.get("fn")) or "").split("::")[-1] for _, tt in f.calls(r_)]
                            if names_.count("elemid_or_key") >= 2 and ("eq" in names_ or "ne" in names_):
                                return True
                    return False
                allowed = allowed + cfg.cond_edges(b, atom_call=present_call, atom_place=lambda og, F=F: og == (F[0], F[1] + (".visible",)))
                ok = on(before_e) and bool(allowed) and b.edges_dominate(allowed, bi)
                ctx.ob("Q3", k + "|Before", ok, st["sp"], "behind visible == true, index == 0, or `the element at that index is still the cursor's element`" if ok else
                       "on the Before arm the index of an element is returned without that element being visible (or first): a deleted element's own index is not its nearest surviving predecessor")
            continue
        ctx.ob("Q2", k + "|payload", False, st["sp"], "the position returned is computed (not a found element's index, the length or 0): %s" % (o,))
    ctx.floor("element indexes returned by get_cursor_position_for", n_idx, 3)
    # the predecessor walk starts only when the cursor's element is really gone: an element whose value was overwritten by a later put
    # is still visible although the cursor's own op is not
    walk = [(bi, t) for bi, t in b.calls() if callee(t) == SEEK and not any(norm_fn(c_) == AM + "::op_cursor_to_opid" for c_ in b.provenance(t["args"][2], through_calls=True, stop=lambda rec: callee(rec) == SEEK).callees())]
    ctx.floor("predecessor lookups of the Before walk", len(walk), 1)
    for k, (bi, t) in util.ordinal_keys(walk, lambda it: "get_cursor_position_for|Before walk"):
        ok = bool(present_false) and b.edges_dominate(present_false, bi)
        ctx.ob("Q3", k + "|only when the element is gone", ok, t["sp"], "behind `element at that index is still the cursor's element` == false" if ok else
               "the Before walk to the predecessor starts because the cursor's *op* is invisible, without checking that its *element* is gone: a cursor on a value later overwritten by put resolves to the previous element")
    # every predecessor the walk looks up is judged like the cursor's own element: visible op *or* element still showing a value
    for k, (bi, t) in util.ordinal_keys(walk, lambda it: "get_cursor_position_for|Before walk"):
        others = {wb for wb, wt in b.calls() if callee(wt) == SEEK and wb != bi}
        nxt = t.get("target")
        reach = b.reachable(start=nxt, removed_blocks=others | {bi}) if nxt is not None else set()
        ok = any((callee(wt) or "").endswith("OpSet::seek_ops_by_index") and wb in reach for wb, wt in b.calls())
        ctx.ob("Q3", k + "|predecessor judged by its element", ok, t["sp"], "an element lookup follows the predecessor lookup" if ok else
               "the walk accepts a predecessor only if its insert op is visible: an element whose value was overwritten by put is stepped over although it still exists")
    # ---------------- Q4
    n_c = 0
    for fn in (POS, GET):
        bd = ctx.body(fn)
        cp = [i for i in range(1, bd.argc + 1) if "automerge::clock::Clock" in bd.local_ty(i)]
        op_ = [i for i in range(1, bd.argc + 1) if util.base_ty(bd.local_ty(i)) == "automerge::exid::ExId"]
        for k, (bi, t) in util.ordinal_keys([(bi, t) for bi, t in bd.calls() if (callee(t) or "").startswith("automerge::")], lambda it: "%s|%s" % (fn.split("::")[-1], callee(it[1]).split("::")[-1])):
            for i, ty in enumerate(t.get("argtys", [])):
                if "automerge::clock::Clock" in ty and "Option" in ty:
                    n_c += 1
                    pv = bd.provenance(t["args"][i], through_calls=True)
                    lit = any(a == "core::option::Option" and v == "None" for a, v in pv.aggs)
                    ok = pv.depends_on_param(cp[0]) and not lit
                    ctx.ob("Q4", k + "|clock", ok, t["sp"], "the caller's clock" if ok else "this lookup does not use the caller's clock: a cursor resolved at given heads is computed against another state")
                if util.strip_refs(ty) == "automerge::types::ObjId":
                    pv = bd.provenance(t["args"][i], through_calls=True)
                    ok = pv.depends_on_param(op_[0])
                    ctx.ob("Q4", k + "|object", ok, t["sp"], "the caller's object" if ok else "this lookup is made in another object than the one the caller named")
    ctx.floor("clock arguments in the cursor functions", n_c, 5)
    for fn in (POS, GET):
        bd = ctx.body(fn)
        for k, (bi, t) in util.ordinal_keys([(bi, t) for bi, t in bd.calls() if (callee(t) or "").startswith("automerge::op_set2::op_set::OpSet::seek_")], lambda it: "%s|%s takes a clock" % (fn.split("::")[-1], callee(it[1]).split("::")[-1])):
            has = any("automerge::clock::Clock" in ty for ty in t.get("argtys", []))
            ctx.ob("Q4", k, has, t["sp"], "clocked lookup" if has else "a lookup variant without a clock parameter is used: resolving the cursor at given heads reads the current state here")
    seeks = [(bi, t) for bi, t in b.calls() if callee(t) == SEEK]
    ctx.floor("seek_list_opid calls in get_cursor_position_for", len(seeks), 2)
    first = [s for s in seeks if any(norm_fn(c_) == AM + "::op_cursor_to_opid" for c_ in b.provenance(s[1]["args"][2], through_calls=True).callees())]
    ctx.ob("Q4", "get_cursor_position_for|op id resolved by op_cursor_to_opid", bool(first), b.rec["sp"], "%d lookup(s) by the cursor's op id" % len(first))
    # ---------------- Q5
    g = ctx.body(GET)
    pos_p = [i for i in range(1, g.argc + 1) if util.base_ty(g.local_ty(i)) == "automerge::cursor::CursorPosition"]
    mv_p = [i for i in range(1, g.argc + 1) if util.base_ty(g.local_ty(i)) == "automerge::cursor::MoveCursor"]
    if len(pos_p) != 1 or len(mv_p) != 1:
        raise facts.AnchorMissing("get_cursor_for parameters")
    is_pos = lambda s: util.base_ty(s.get("ty") or "") == "automerge::cursor::CursorPosition"
    for v in ("Start", "End"):
        es = variant_edges(g, is_pos, v)
        built = set()
        for bi, blk in enumerate(g.blocks):
            for st in blk["st"]:
                if st["rv"]["k"] == "Agg" and st["rv"].get("adt") == "automerge::cursor::Cursor" and es and g.edges_dominate(es, bi):
                    built.add(st["rv"]["variant"])
        ctx.ob("Q5", "get_cursor_for|CursorPosition::%s" % v, built == {v}, g.rec["sp"], "builds Cursor::%s" % sorted(built))
    news = [(bi, t) for bi, t in g.calls() if callee(t) == "automerge::cursor::OpCursor::new"]
    ctx.floor("OpCursor::new calls in get_cursor_for", len(news), 1)
    for k, (bi, t) in util.ordinal_keys(news, lambda it: "get_cursor_for|OpCursor::new"):
        pv = g.provenance(t["args"][0], through_calls=True)
        cs = {norm_fn(c_) for c_ in pv.callees()}
        by_index = any(c_.endswith("OpSet::seek_ops_by_index") for c_ in cs) and pv.depends_on_param(pos_p[0])
        last = any(c_.split("::")[-1] == "last" for c_ in cs)
        pm = g.provenance(t["args"][2], through_calls=True)
        ok = by_index and last and pm.depends_on_param(mv_p[0]) and not pm.aggs
        ctx.ob("Q5", k, ok, t["sp"], "id of the last op found at the index; the caller's MoveCursor" if ok else
               "the cursor is not built from the last op at the requested index with the caller's MoveCursor (by index %s, last %s, move from parameter %s)" % (by_index, last, pm.depends_on_param(mv_p[0])))

    # ---------------- Q6
    OS = "automerge::op_set2::op_set::OpSet::"
    fb = ctx.body(OS + "seek_list_opid_fast")
    sl = ctx.body(OS + "seek_list_opid_slow")
    ctx.analysed_fns.update([OS + "seek_list_opid_fast", OS + "seek_list_opid_slow"])
    aggs = [(bi, st) for bi, blk in enumerate(fb.blocks) for st in blk["st"] if st["rv"]["k"] == "Agg" and (st["rv"].get("adt") or "") == FOUND]
    ctx.floor("FoundOpId constructions in seek_list_opid_fast", len(aggs), 1)
    for k, (bi, st) in util.ordinal_keys(aggs, lambda it: "seek_list_opid_fast|visible"):
        rv = st["rv"]
        pv = fb.provenance(rv["o"][rv["fields"].index("visible")], through_calls=True)
        flds = {"".join(e for e in fb.origin(l, pr)[1] if e.startswith(".")) for l, pr in pv.places}
        # `a && b` lowers to a bool with two definitions (false / the value of b): `a` reaches it by control, not by data
        from . import C28
        vop = rv["o"][rv["fields"].index("visible")]
        vpl = vop.get("c") or vop.get("m")
        vlocals = set(pv.locals) | ({fb.origin(vpl["l"], ())[0]} if vpl is not None else set())
        for vl in vlocals:
            if fb.local_ty(vl) != "bool":
                continue
            for (db, si, rec) in fb.defs().get(vl, []):
                for sb, sw in C28.control_switches(fb, db):
                    src = fb.bool_operand_source(sw["op"])
                    if src and src["kind"] == "call":
                        for a_ in src["t"].get("args", []):
                            pc = fb.provenance(a_, through_calls=True)
                            flds |= {"".join(e for e in fb.origin(l, pr)[1] if e.startswith(".")) for l, pr in pc.places}
                    elif src and src["kind"] in ("place", "discr"):
                        flds.add("".join(e for e in src["origin"][1] if e.startswith(".")))
                        d_ = fb.single_def(src["origin"][0])
                        if d_ and d_[1] == "t":
                            for a_ in d_[2].get("args", []):
                                pc = fb.provenance(a_, through_calls=True)
                                flds |= {"".join(e for e in fb.origin(l, pr)[1] if e.startswith(".")) for l, pr in pc.places}
        from_top = any(".index.top" in x or ".index.text" in x for x in flds)
        from_vis = any(".index.visible" in x for x in flds)
        ctx.ob("Q6", k, from_vis and not from_top, st["sp"], "from the visible index (op-level), as the walking path" if from_vis and not from_top else
               "the indexed path takes `visible` from the top / text-width index (is the op the winner of its element) while the walking path reports op-level visibility: they disagree on a value that lost to a concurrent put (debug_assert in seek_list_opid; a Before cursor resolves to 0)")
        is_mark_free = any(x.endswith(".action") for x in flds)
        ctx.ob("Q6", k + "|a mark is not an element", is_mark_free, st["sp"], "visible also requires the op not to be a mark (the walking path iterates no_marks())" if is_mark_free else
               "the indexed path can report a mark op as a visible element; the walking path never does: a Before cursor whose insertion parent is a mark op resolves forward (release) or panics (debug)")
    deltas = [(bi, t) for bi, t in fb.calls() if (norm_fn(t.get("fn")) or "").split("::")[-1] == "delta" and len(t.get("args", [])) >= 3]
    ctx.floor("prefix-sum lookups in seek_list_opid_fast", len(deltas), 2)
    for k, (bi, t) in util.ordinal_keys(deltas, lambda it: "seek_list_opid_fast|index measured to the element start"):
        pvd = fb.provenance(t["args"][2], through_calls=False)
        ok = any((norm_fn(c) or "").endswith("OpSet::list_register_at_pos") for c in pvd.callees())
        ctx.ob("Q6", k, ok, t["sp"], "widths of the elements wholly before the op's element" if ok else
               "the index is the width of everything before the op's *position*: the winner of the op's own element, when it sorts before the op, is counted, and a cursor on a deleted conflicting value resolves one element too far (the walking path counts whole elements)")
    nones = [st["sp"] for bi, blk in enumerate(sl.blocks) if not blk.get("cleanup") for st in blk["st"]
             if st["d"]["l"] == 0 and not st["d"]["p"] and st["rv"]["k"] == "Agg" and st["rv"].get("adt") == "core::option::Option" and st["rv"].get("variant") == "None"]
    ctx.ob("Q6", "seek_list_opid_slow|None only when the op is not in the object", not nones, (nones or [sl.rec["sp"]])[0],
           "the only None is the `?` on the op lookup" if not nones else
           "the walking path answers None although the op was found (nothing visible at or after it): the indexed path answers Some(op, length), so a cursor on a deleted tail element is an InvalidCursor at older heads")
    whole = [t["sp"] for bi, t in sl.calls() if (norm_fn(t.get("fn")) or "").endswith("::contains") and "op::Op<" in " ".join(t.get("ga", []))]
    for r in f.closures_of(OS + "seek_list_opid_slow"):
        pass
    ctx.ob("Q6", "seek_list_opid_slow|membership by op id", not whole, (whole or [sl.rec["sp"]])[0], "compares ids" if not whole else
           "membership of the op among the element's visible ops is tested with whole-op equality: ops kept by scope_to_clock are adjusted copies, so at given heads a visible op is reported invisible")
