"""C26 Cursors track their element — which index a cursor may resolve to, by case (thin).

`get_cursor_position_for` returns `Ok(n)` from a handful of places. The property fixes, case by case, what `n` may be; the
structural part is which value is returned under which test:
 (Q1) a Start cursor resolves to the constant 0, an End cursor to `length_for(obj, clock)` of the same object and clock;
 (Q2) on the `MoveCursor::After` arm the result is the `index` field of the element found for the cursor's op id — and nothing
      computed from it;
 (Q3) on the `MoveCursor::Before` arm an `index` field of a found element is returned only on the true edge of that element's
      `visible` flag or of `index == 0` (a deleted element's own index is *not* the answer: the walk continues to its
      predecessor), and the constant 0 only when the walk ran off the front (`None`);
 (Q4) every lookup in the two cursor functions uses the caller's clock (no literal None) and the object resolved from the
      caller's object id; the cursor's op id is resolved by `op_cursor_to_opid`;
 (Q5) `get_cursor_for` builds the cursor from the *last* op found at the requested index (the visible winner of that element),
      hands the caller's MoveCursor on unchanged, and maps Start / End positions to the Start / End cursors.
Not decided: that `seek_list_opid` / `seek_ops_by_index` compute the right index for an op id (index arithmetic over tombstones),
hence `get_cursor_position(get_cursor(i)) == i` as a value.
"""
from .. import cfg, util, facts
from ..util import norm_fn, callee

AM = "automerge::automerge::Automerge"
POS = AM + "::get_cursor_position_for"
GET = AM + "::get_cursor_for"
SEEK = "automerge::op_set2::op_set::OpSet::seek_list_opid"
FOUND = "automerge::op_set2::op_set::FoundOpId"


def ok_returns(b):
    for bi, blk in enumerate(b.blocks):
        if blk.get("cleanup"):
            continue
        for st in blk["st"]:
            if st["d"]["l"] == 0 and not st["d"]["p"] and util.is_ok_agg(st["rv"]):
                yield bi, st


def variant_edges(b, pred, variant):
    out = []
    for sb, sw in b.switches():
        src = b.bool_operand_source(sw["op"])
        if src and src["kind"] == "discr" and pred(src):
            vs = src.get("vars") or {}
            hit = [(sb, tb) for v, tb in sw["targets"] if vs.get(v) == variant]
            out += hit if hit else ([(sb, sw["otherwise"])] if variant in vs.values() else [])
    return out


def bool_true_edges(b, sb, sw, negated=False):
    zero = [tb for v, tb in sw["targets"] if v == "0"]
    if negated:
        return [(sb, zero[0])] if zero else []
    return [(sb, sw["otherwise"])]


def run(ctx):
    ctx.level = "proof"
    ctx.decides = ("get_cursor_position_for: Start -> 0, End -> length_for(obj, clock); After -> the found element's index itself; Before -> an element's index only behind its visible flag (or index == 0), 0 only when the walk ends; "
                   "all lookups use the caller's clock and object; get_cursor_for takes the last op at the requested index, keeps the caller's MoveCursor and maps Start / End to themselves.")
    ctx.not_decided = "that seek_list_opid / seek_ops_by_index compute the right index (arithmetic over tombstones); get_cursor_position(get_cursor(i)) == i as a value; cursors after merges."
    ctx.rule("Q1", "per-arm result: Cursor::Start -> const 0; Cursor::End -> length_for(obj parameter, clock parameter)")
    ctx.rule("Q2", "MoveCursor::After arm: the Ok payload is the .index field of the FoundOpId found for the cursor's op id")
    ctx.rule("Q3", "MoveCursor::Before arm: Ok(.index of F) is edge-dominated by F.visible == true or F.index == 0; Ok(0) by the None arm of the walk's lookup")
    ctx.rule("Q4", "provenance: clock and object arguments of every lookup derive from the parameters; the op id from op_cursor_to_opid")
    ctx.rule("Q5", "get_cursor_for: OpCursor::new(id of found.ops.last(), .., move_cursor parameter); Start -> Cursor::Start, End -> Cursor::End")
    f = ctx.facts()
    b = ctx.body(POS)
    ctx.analysed_fns.update([POS, GET])
    cur_p = [i for i in range(1, b.argc + 1) if util.base_ty(b.local_ty(i)) == "automerge::cursor::Cursor"]
    clk_p = [i for i in range(1, b.argc + 1) if "automerge::clock::Clock" in b.local_ty(i)]
    obj_p = [i for i in range(1, b.argc + 1) if util.base_ty(b.local_ty(i)) == "automerge::exid::ExId"]
    if len(cur_p) != 1 or len(clk_p) != 1 or len(obj_p) != 1:
        raise facts.AnchorMissing("get_cursor_position_for parameters")
    is_cursor = lambda s: util.base_ty(s.get("ty") or "") == "automerge::cursor::Cursor" and s["origin"][0] == cur_p[0]
    is_move = lambda s: util.base_ty(s.get("ty") or "") == "automerge::cursor::MoveCursor"
    start_e, end_e, op_e = (variant_edges(b, is_cursor, v) for v in ("Start", "End", "Op"))
    after_e, before_e = variant_edges(b, is_move, "After"), variant_edges(b, is_move, "Before")
    ctx.floor("arms of the cursor match", len(start_e) + len(end_e) + len(op_e), 3)
    ctx.floor("arms of the MoveCursor match", len(after_e) + len(before_e), 2)
    oks = list(ok_returns(b))
    ctx.floor("Ok returns of get_cursor_position_for", len(oks), 6)
    # switches on the visible flag / index == 0 of a found element, keyed by the element's local
    vis_edges, zero_edges = {}, {}
    for sb, sw in b.switches():
        src = b.bool_operand_source(sw["op"])
        if not src:
            continue
        if src["kind"] == "place" and src["origin"][1] and src["origin"][1][-1] == ".visible" and FOUND in b.local_ty(src["origin"][0]):
            vis_edges.setdefault((src["origin"][0], tuple(src["origin"][1][:-1])), []).extend(bool_true_edges(b, sb, sw, src["negated"]))
        if src["kind"] == "bin" and src["op"] == "Eq":
            k = [util.op_const(o) for o in src["o"]]
            pl = [o.get("c") or o.get("m") for o in src["o"] if util.op_const(o) is None]
            if any(c is not None and c.get("v") == "0" for c in k) and pl and pl[0]:
                o = b.origin(pl[0]["l"], tuple(pl[0]["p"]))
                if o[1] and o[1][-1] == ".index" and FOUND in b.local_ty(o[0]):
                    zero_edges.setdefault((o[0], tuple(o[1][:-1])), []).extend(bool_true_edges(b, sb, sw, src["negated"]))
    none_walk = []
    for sb, sw in b.switches():
        src = b.bool_operand_source(sw["op"])
        if src and src["kind"] == "discr" and (src.get("ty") or "").startswith("core::option::Option<" + FOUND):
            d = b.single_def(src["origin"][0])
            if d and d[1] == "t" and callee(d[2]) == SEEK:
                vs = src.get("vars") or {}
                none_walk += [(sb, tb) for v, tb in sw["targets"] if vs.get(v) == "None"] or [(sb, sw["otherwise"])]
    n_idx = 0
    for k, (bi, st) in util.ordinal_keys(oks, lambda it: "get_cursor_position_for|Ok"):
        payload = st["rv"]["o"][0]
        c = util.op_const(payload)
        on = lambda es: bool(es) and b.edges_dominate(es, bi)
        if c is not None:
            ok = c.get("v") == "0" and (on(start_e) or (on(before_e) and on(none_walk)))
            ctx.ob("Q1" if on(start_e) else "Q3", k + "|constant", ok, st["sp"], "0 for a Start cursor / when the Before walk ran off the front" if ok else
                   "a constant position %s is returned outside the Start arm and the end of the Before walk" % c.get("v"))
            continue
        pl = payload.get("c") or payload.get("m")
        o = b.origin(pl["l"], tuple(pl["p"]))
        d = b.single_def(o[0]) if not o[1] else None
        if d and d[1] == "t" and callee(d[2]) == AM + "::length_for":
            t = d[2]
            same = b.provenance(t["args"][1]).depends_on_param(obj_p[0]) and b.provenance(t["args"][2], through_calls=True).depends_on_param(clk_p[0])
            ok = on(end_e) and same
            ctx.ob("Q1", k + "|length", ok, st["sp"], "length_for(obj, clock) for an End cursor" if ok else "the length is returned outside the End arm, or of another object / clock")
            continue
        if o[1] and o[1][-1] == ".index" and FOUND in b.local_ty(o[0]):
            n_idx += 1
            F = (o[0], tuple(o[1][:-1]))
            if on(after_e):
                # the element found for the cursor's own op id
                pvF = b.provenance(F[0], through_calls=True)
                own = any(norm_fn(c_) == AM + "::op_cursor_to_opid" for c_ in pvF.callees())
                ctx.ob("Q2", k + "|After", own, st["sp"], "index of the element found for the cursor's op id" if own else "the After arm returns the index of an element that was not looked up by the cursor's op id")
            else:
                allowed = vis_edges.get(F, []) + zero_edges.get(F, [])
                ok = on(before_e) and bool(allowed) and b.edges_dominate(allowed, bi)
                ctx.ob("Q3", k + "|Before", ok, st["sp"], "behind visible == true (or index == 0) of the same element" if ok else
                       "on the Before arm the index of an element is returned without that element being visible (or first): a deleted element's own index is not its nearest surviving predecessor")
            continue
        ctx.ob("Q2", k + "|payload", False, st["sp"], "the position returned is computed (not a found element's index, the length or 0): %s" % (o,))
    ctx.floor("element indexes returned by get_cursor_position_for", n_idx, 3)
    # ---------------- Q4
    n_c = 0
    for fn in (POS, GET):
        bd = ctx.body(fn)
        cp = [i for i in range(1, bd.argc + 1) if "automerge::clock::Clock" in bd.local_ty(i)]
        op_ = [i for i in range(1, bd.argc + 1) if util.base_ty(bd.local_ty(i)) == "automerge::exid::ExId"]
        for k, (bi, t) in util.ordinal_keys([(bi, t) for bi, t in bd.calls() if (callee(t) or "").startswith("automerge::")], lambda it: "%s|%s" % (fn.split("::")[-1], callee(it[1]).split("::")[-1])):
            for i, ty in enumerate(t.get("argtys", [])):
                if "automerge::clock::Clock" in ty and "Option" in ty:
                    n_c += 1
                    pv = bd.provenance(t["args"][i], through_calls=True)
                    lit = any(a == "core::option::Option" and v == "None" for a, v in pv.aggs)
                    ok = pv.depends_on_param(cp[0]) and not lit
                    ctx.ob("Q4", k + "|clock", ok, t["sp"], "the caller's clock" if ok else "this lookup does not use the caller's clock: a cursor resolved at given heads is computed against another state")
                if util.strip_refs(ty) == "automerge::types::ObjId":
                    pv = bd.provenance(t["args"][i], through_calls=True)
                    ok = pv.depends_on_param(op_[0])
                    ctx.ob("Q4", k + "|object", ok, t["sp"], "the caller's object" if ok else "this lookup is made in another object than the one the caller named")
    ctx.floor("clock arguments in the cursor functions", n_c, 5)
    for fn in (POS, GET):
        bd = ctx.body(fn)
        for k, (bi, t) in util.ordinal_keys([(bi, t) for bi, t in bd.calls() if (callee(t) or "").startswith("automerge::op_set2::op_set::OpSet::seek_")], lambda it: "%s|%s takes a clock" % (fn.split("::")[-1], callee(it[1]).split("::")[-1])):
            has = any("automerge::clock::Clock" in ty for ty in t.get("argtys", []))
            ctx.ob("Q4", k, has, t["sp"], "clocked lookup" if has else "a lookup variant without a clock parameter is used: resolving the cursor at given heads reads the current state here")
    seeks = [(bi, t) for bi, t in b.calls() if callee(t) == SEEK]
    ctx.floor("seek_list_opid calls in get_cursor_position_for", len(seeks), 2)
    first = [s for s in seeks if any(norm_fn(c_) == AM + "::op_cursor_to_opid" for c_ in b.provenance(s[1]["args"][2], through_calls=True).callees())]
    ctx.ob("Q4", "get_cursor_position_for|op id resolved by op_cursor_to_opid", bool(first), b.rec["sp"], "%d lookup(s) by the cursor's op id" % len(first))
    # ---------------- Q5
    g = ctx.body(GET)
    pos_p = [i for i in range(1, g.argc + 1) if util.base_ty(g.local_ty(i)) == "automerge::cursor::CursorPosition"]
    mv_p = [i for i in range(1, g.argc + 1) if util.base_ty(g.local_ty(i)) == "automerge::cursor::MoveCursor"]
    if len(pos_p) != 1 or len(mv_p) != 1:
        raise facts.AnchorMissing("get_cursor_for parameters")
    is_pos = lambda s: util.base_ty(s.get("ty") or "") == "automerge::cursor::CursorPosition"
    for v in ("Start", "End"):
        es = variant_edges(g, is_pos, v)
        built = set()
        for bi, blk in enumerate(g.blocks):
            for st in blk["st"]:
                if st["rv"]["k"] == "Agg" and st["rv"].get("adt") == "automerge::cursor::Cursor" and es and g.edges_dominate(es, bi):
                    built.add(st["rv"]["variant"])
        ctx.ob("Q5", "get_cursor_for|CursorPosition::%s" % v, built == {v}, g.rec["sp"], "builds Cursor::%s" % sorted(built))
    news = [(bi, t) for bi, t in g.calls() if callee(t) == "automerge::cursor::OpCursor::new"]
    ctx.floor("OpCursor::new calls in get_cursor_for", len(news), 1)
    for k, (bi, t) in util.ordinal_keys(news, lambda it: "get_cursor_for|OpCursor::new"):
        pv = g.provenance(t["args"][0], through_calls=True)
        cs = {norm_fn(c_) for c_ in pv.callees()}
        by_index = any(c_.endswith("OpSet::seek_ops_by_index") for c_ in cs) and pv.depends_on_param(pos_p[0])
        last = any(c_.split("::")[-1] == "last" for c_ in cs)
        pm = g.provenance(t["args"][2], through_calls=True)
        ok = by_index and last and pm.depends_on_param(mv_p[0]) and not pm.aggs
        ctx.ob("Q5", k, ok, t["sp"], "id of the last op found at the index; the caller's MoveCursor" if ok else
               "the cursor is not built from the last op at the requested index with the caller's MoveCursor (by index %s, last %s, move from parameter %s)" % (by_index, last, pm.depends_on_param(mv_p[0])))
