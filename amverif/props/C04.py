"""C04 Change metadata and heads follow causality — rules R13 (heads maintenance) + R9 (provenance of change metadata).

Decides: (R13) `Automerge.deps` and `ChangeGraph.heads` are written only by their constructors and by
update_deps / update_heads; both updaters have the shape "remove every dep of the change, insert the
change's hash" (sibling agreement); update_history runs update_deps and add_change, add_changes runs
update_heads. (R9) TransactionArgs is built with seq = seq_for_actor(actor)+1 (C38), start_op =
change_graph.max_op()+1, deps = heads argument (isolated) or get_heads() plus the actor's previous
change hash (non-isolated); TransactionInner takes these three fields from the args unchanged.
Not decided: that heads equal "applied changes no applied change depends on" for every history
(that needs the graph algorithms to be right), nor start_op being greater than every *applied* op
beyond what max_op() returns.
"""
import re
from .. import cfg, util, rules, facts
from ..util import callee, decl, norm_fn

AM = "automerge::automerge::Automerge"
CG = "automerge::change_graph::ChangeGraph"
TARGS = AM + "::transaction_args"
ALLOWED = {
    (AM, ".deps"): {AM + "::update_deps"},
    (CG, ".heads"): {CG + "::update_heads"},
}
CTOR_OK = {
    (AM, ".deps"): {AM + "::new", AM + "::new_with_encoding", AM + "::from_parts", "<%s as core::clone::Clone>::clone" % AM},
    (CG, ".heads"): {CG + "::new", "<%s as core::clone::Clone>::clone" % CG, "<%s as core::default::Default>::default" % CG, "automerge::change_graph::ChangeGraphCols::load"},
}


def writers(f, owner, field):
    out = {}
    for p, r in f.fns.items():
        if r["ckey"] != ("automerge", "lib"):
            continue
        b = None
        for blk in r["blocks"]:
            for s in blk["st"]:
                d, rv = s["d"], s["rv"]
                kind = None
                if d["p"] and d["p"][-1] == field:
                    b = b or cfg.body(r)
                    if util.base_ty(b.local_ty(b.origin(d["l"], tuple(d["p"]))[0])) == owner:
                        kind = "write"
                if rv["k"] == "Ref" and rv.get("mut") and field in rv["p"]["p"]:
                    b = b or cfg.body(r)
                    o = b.origin(rv["p"]["l"], tuple(rv["p"]["p"]))
                    if util.base_ty(b.local_ty(o[0])) == owner and o[1] and o[1][-1] == field:
                        kind = "mutable borrow"
                if rv["k"] == "Agg" and rv.get("adt") == owner and field[1:] in rv.get("fields", []):
                    kind = "constructor"
                if kind:
                    out.setdefault(norm_fn(p), set()).add(kind)
    return out


def updater_shape(b, f):
    """multiset of (set operation, source of its argument); operations made inside a closure handed to an iterator adaptor
    (`deps.iter().for_each(|d| set.remove(d))`) count, their argument being an item of the adaptor's receiver"""
    out = []
    for site, t, owner, adaptor in cfg.inlined_calls(f, b):
        fn = norm_fn(t.get("fn")) or ""
        if fn.endswith(("BTreeSet::remove", "BTreeSet::insert", "HashSet::remove", "HashSet::insert")):
            if adaptor is None:
                pv = b.provenance(t["args"][1], through_calls=True)
            else:
                pv = b.provenance(adaptor["args"][0], through_calls=True)        # the iterator the closure is applied to
            src = sorted(norm_fn(c).split("::")[-1] for c in pv.callees() if norm_fn(c).startswith("automerge::change::Change::"))
            out.append((fn.split("::")[-1], tuple(src)))
        elif re.search(r"(BTreeSet|HashSet)::(clear|retain|extend|append|split_off|drain|take|replace|pop_first|pop_last|extract_if)$", fn) or \
                (fn == "core::iter::traits::collect::Extend::extend" and t.get("argtys") and ("BTreeSet" in t["argtys"][0] or "HashSet" in t["argtys"][0])):
            # any other way of changing a heads set in an updater is part of its shape (and makes it differ from the sibling)
            out.append((fn.split("::")[-1], ()))
    return sorted(out)


def run(ctx):
    ctx.level = "proof"
    ctx.decides = ("who-may-write Automerge.deps / ChangeGraph.heads; update_deps and update_heads both remove change.deps() and insert change.hash(); update_history calls update_deps and add_change, "
                   "add_changes calls update_heads; TransactionArgs{start_op, deps} provenance; TransactionInner copies seq/start_op/deps from the args.")
    ctx.not_decided = "that the heads set equals the maximal applied changes for every history; seq is decided under C38."
    ctx.rule("R13-writers", "writers of the heads sets are the reviewed constructors and the two updaters")
    ctx.rule("R13-shape", "sibling agreement of update_deps / update_heads: {remove(change.deps()), insert(change.hash())}")
    ctx.rule("R13-chain", "update_history -> update_deps + add_change; add_changes -> update_heads")
    ctx.rule("R9-meta", "provenance of start_op and deps of a locally created change")
    f = ctx.facts()
    for (owner, field), upd in ALLOWED.items():
        w = writers(f, owner, field)
        ctx.floor("writers of %s%s" % (owner.split("::")[-1], field), len(w), 3)
        for p, kinds in sorted(w.items()):
            ok = p in upd or (kinds == {"constructor"} and p in CTOR_OK[(owner, field)])
            ctx.ob("R13-writers", "%s%s|%s" % (owner.split("::")[-1], field, p), ok, "", "%s (%s)" % ("reviewed" if ok else "unreviewed writer of the heads set", ", ".join(sorted(kinds))))
    ud = ctx.body(AM + "::update_deps")
    uh = ctx.body(CG + "::update_heads")
    s1, s2 = updater_shape(ud, f), updater_shape(uh, f)
    want = [("insert", ("hash",)), ("remove", ("deps",))]
    ctx.ob("R13-shape", "update_deps|shape", s1 == want, ud.rec["sp"], "operations %s" % s1)
    ctx.ob("R13-shape", "update_heads|shape", s2 == want, uh.rec["sp"], "operations %s" % s2)
    # insert happens after the removal loop (the new hash must not be removed again): no path insert -> remove
    for name, b in (("update_deps", ud), ("update_heads", uh)):
        ins = [site for site, t, _o, _a in cfg.inlined_calls(f, b) if (norm_fn(t.get("fn")) or "").endswith(("BTreeSet::insert", "HashSet::insert"))]
        rem = [site for site, t, _o, _a in cfg.inlined_calls(f, b) if (norm_fn(t.get("fn")) or "").endswith(("BTreeSet::remove", "HashSet::remove"))]
        ok = bool(ins) and bool(rem) and not any(b.can_reach(i, r) for i in ins for r in rem) and all(any(rt == "return" for rt in [b.blocks[x]["t"]["k"] for x in b.reachable(i)]) for i in ins)
        # insert is unconditional: it post-dominates the entry (every path to return passes it)
        rets = b.returns()
        uncond = all(r_ not in b.reachable(0, removed_blocks=tuple(ins)) for r_ in rets)
        ctx.ob("R13-shape", "%s|insert after the removals, unconditionally" % name, ok and uncond, b.rec["sp"], "")
    hb = ctx.body(AM + "::update_history")
    cs = [callee(t) for _, t in hb.calls()]
    ctx.ob("R13-chain", "update_history|updates deps and graph", AM + "::update_deps" in cs and CG + "::add_change" in cs, hb.rec["sp"], "calls %s" % [c.split("::")[-1] for c in cs if c])
    ab = [p for p in f.fns if norm_fn(p) == CG + "::add_changes"]
    if len(ab) != 1:
        raise facts.AnchorMissing(CG + "::add_changes")
    ab = ctx.body(ab[0])
    ctx.ob("R13-chain", "add_changes|updates heads", any(callee(t) == CG + "::update_heads" for _, t in ab.calls()), ab.rec["sp"], "")
    acb = ctx.body(CG + "::add_change")
    ctx.ob("R13-chain", "add_change|delegates to add_changes", any(callee(t) == CG + "::add_changes" for _, t in acb.calls()), acb.rec["sp"], "")
    # ---------------- TransactionArgs
    tb = ctx.body(TARGS)
    heads_param = [i for i in range(1, tb.argc + 1) if "ChangeHash" in tb.local_ty(i)]
    aggs = [(bi, s) for bi, blk in enumerate(tb.blocks) for s in blk["st"] if s["rv"]["k"] == "Agg" and (s["rv"].get("adt") or "").endswith("::TransactionArgs")]
    ctx.floor("TransactionArgs constructions in transaction_args", len(aggs), 1)
    for bi, s in aggs:
        rv = s["rv"]
        so = rv["o"][rv["fields"].index("start_op")]
        pv = tb.provenance(so, through_calls=True)
        cs = {norm_fn(c) for c in pv.callees()}
        ok = CG + "::max_op" in cs and any(v == "1" for _, v in pv.consts)
        ctx.ob("R9-meta", "transaction_args|start_op = max_op()+1", ok, s["sp"], "sources %s" % sorted(c.split("::")[-1] for c in cs))
        do = rv["o"][rv["fields"].index("deps")]
        pv = tb.provenance(do, through_calls=True)
        cs = {norm_fn(c) for c in pv.callees()}
        ok = AM + "::get_heads" in cs and any(c.endswith(("to_vec", "to_owned", "collect", "from_iter", "clone")) for c in cs) and bool(heads_param) and pv.depends_on_param(heads_param[0])
        ctx.ob("R9-meta", "transaction_args|deps = heads argument or current heads", ok, s["sp"], "sources %s" % sorted(c.split("::")[-1] for c in cs))
    # heads are a set: the dependencies copied from the caller's heads are deduplicated before the change is described
    ctx.rule("R9-dedup", "transaction_args: the dependency list taken from the caller's heads passes through dedup (after a sort) before TransactionArgs is built: a repeated head is one dependency")
    if heads_param:
        copies = [(bi, t) for bi, t in tb.calls() if (norm_fn(t.get("fn")) or "").endswith(("to_vec", "to_owned", "slice::iter")) and t.get("args") and tb.provenance(t["args"][0], through_calls=False).depends_on_param(heads_param[0])]
        dedups = [bi for bi, t in tb.calls() if (norm_fn(t.get("fn")) or "").split("::")[-1] in ("dedup", "dedup_by_key", "dedup_by") or
                  ((norm_fn(t.get("fn")) or "").endswith(("collect", "from_iter")) and ("BTreeSet" in (t.get("fnargs") or "") + " ".join(t.get("ga", [])) or "HashSet" in (t.get("fnargs") or "") + " ".join(t.get("ga", []))))]
        set_form = any((norm_fn(t.get("fn")) or "").endswith(("collect", "from_iter")) for bi, t in tb.calls() if bi in dedups)
        sorts = [bi for bi, t in tb.calls() if (norm_fn(t.get("fn")) or "").split("::")[-1] in ("sort", "sort_unstable", "sort_by", "sort_unstable_by")]
        for k, (bi, t) in util.ordinal_keys(copies, lambda it: "transaction_args|deps copied from the heads argument"):
            nxt = t.get("target")
            reach = tb.reachable(start=nxt, removed_blocks=set(dedups)) if nxt is not None else set()
            built = [b2 for b2, blk in enumerate(tb.blocks) for st in blk["st"] if st["rv"]["k"] == "Agg" and (st["rv"].get("adt") or "").endswith("TransactionArgs")]
            ok = bool(dedups) and not any(b2 in reach for b2 in built) and (set_form or any(tb.can_reach(sb_, db_) for sb_ in sorts for db_ in dedups))
            ctx.ob("R9-dedup", k, ok, t["sp"], "sorted and deduplicated on every path to the construction" if ok else
                   "the caller's heads become the change's dependencies verbatim: isolate(&[h, h]) writes the dependency twice (and hashes it into the change)")
    # isolated transactions depend on exactly the given heads: the current-heads branch is unreachable when heads are given
    if heads_param:
        none_edges = []
        for sb, sw in tb.switches():
            src = tb.bool_operand_source(sw["op"])
            if src and src["kind"] == "discr" and src["origin"][0] == heads_param[0] and not src["origin"][1]:
                vals = src.get("vars") or {}
                hit = [t_ for v, t_ in sw["targets"] if vals.get(v) == "None"]
                some = [t_ for v, t_ in sw["targets"] if vals.get(v) == "Some"]
                if hit:
                    none_edges.append((sb, hit[0]))
                elif some:
                    none_edges.append((sb, sw["otherwise"]))
        cur = [(bi, t) for bi, t in tb.calls() if callee(t) in (AM + "::get_heads", AM + "::get_hash")]
        ctx.floor("current-heads reads in transaction_args", len(cur), 2)
        for k, (bi, t) in util.ordinal_keys(cur, lambda it: "transaction_args|%s only without isolation heads" % callee(it[1]).split("::")[-1]):
            ok = bool(none_edges) and tb.edges_dominate(none_edges, bi)
            ctx.ob("R9-meta", k, ok, t["sp"], "reached only when heads is None" if ok else "the non-isolated dependency computation is reachable although isolation heads were given (the change would also depend on current heads / the actor's previous change)")
    # on load, the graph's max_op derives from a traversal of the whole max_op column, not from a single element
    lb = ctx.body("automerge::change_graph::ChangeGraphCols::load")
    for blk in lb.blocks:
        for s in blk["st"]:
            rv = s["rv"]
            if rv["k"] == "Agg" and rv.get("adt") == CG and "max_op" in rv.get("fields", []):
                pv = lb.provenance(rv["o"][rv["fields"].index("max_op")], through_calls=True)
                cs = {norm_fn(c) for c in pv.callees()}
                trav = any(c.endswith(("::iter", "::into_iter", "IntoIterator::into_iter")) for c in cs)
                single = any(c.endswith(("::last", "::first", "::get", "::pop")) for c in cs)
                ctx.ob("R9-meta", "ChangeGraphCols::load|max_op from the whole max_op column", trav and not single, s["sp"],
                       "derived through a traversal" if trav and not single else "graph max_op is taken from a single stored change (%s): start_op of the next local change may not exceed every applied op" % sorted(c.split("::")[-1] for c in cs)[:6])
    # whenever this is not the actor's first change (seq > 1, non-isolated), the dependency list is checked for the actor's previous
    # change: every path from the `seq > 1` edge to the TransactionArgs construction passes deps.contains(last_hash)
    def seq_gt_1(src):
        if src["kind"] == "bin" and src["op"] in ("Gt", "Ge", "Lt", "Le", "Ne", "Eq"):
            ks = [util.op_const(o) for o in src["o"]]
            other = [o for o, k in zip(src["o"], ks) if k is None]
            if any(k is not None and k.get("v") == "1" for k in ks) and other:
                pv = tb.provenance(other[0], through_calls=True)
                if any(norm_fn(c).endswith("::seq_for_actor") for c in pv.callees()):
                    return True if src["op"] in ("Gt", "Ne") else (False if src["op"] in ("Le", "Eq") else None)
        return None
    seq_edges = rules.guard_edges(tb, seq_gt_1)
    contains = [bi for bi, t in tb.calls() if norm_fn(t.get("fn")) in ("core::slice::<impl [T]>::contains", "alloc::vec::Vec::contains", "core::slice::contains") or (norm_fn(t.get("fn")) or "").endswith("::contains")]
    contains = [bi for bi in contains if any(norm_fn(c).endswith("::get_hash") for c in tb.provenance(tb.blocks[bi]["t"]["args"][1], through_calls=True).callees())]
    ctx.floor("`seq > 1` tests in transaction_args", len(seq_edges), 1)
    ctx.floor("deps.contains(last_hash) tests in transaction_args", len(contains), 1)
    for bi, st in aggs:
        escapes = [e for e in seq_edges if tb.paths_exist_avoiding(e[1], bi, avoid_blocks=contains)]
        ctx.ob("R9-meta", "transaction_args|seq > 1 always reaches deps.contains(previous change)", not escapes, st["sp"],
               "every path from `seq > 1` to the arguments passes the containment test" if not escapes else
               "a local change that is not the actor's first can be created without checking that it depends on the actor's previous change (witness %s)" % tb.witness_path(escapes[0][1], bi, avoid_blocks=contains))
    # the actor's previous change is pushed onto deps (non-isolated), from get_hash(actor_index, seq-1)
    pushes = [(bi, t) for bi, t in tb.calls() if norm_fn(t.get("fn")) == "alloc::vec::Vec::push" and "ChangeHash" in t["argtys"][0]]
    ctx.floor("deps.push in transaction_args", len(pushes), 1)
    for k, (bi, t) in util.ordinal_keys(pushes, lambda it: "transaction_args|deps.push"):
        pv = tb.provenance(t["args"][1], through_calls=True)
        cs = {norm_fn(c) for c in pv.callees()}
        ok = AM + "::get_hash" in cs and CG + "::seq_for_actor" in cs
        ctx.ob("R9-meta", k, ok, t["sp"], "pushes get_hash(actor_index, seq-1)")
    # ---------------- TransactionInner::new copies the fields
    ctors = [(p, s) for p, r in f.fns.items() if norm_fn(p).startswith("automerge::transaction::inner::TransactionInner::") for blk in r["blocks"] for s in blk["st"]
             if s["rv"]["k"] == "Agg" and s["rv"].get("adt") == "automerge::transaction::inner::TransactionInner"]
    ctx.floor("TransactionInner constructions", len(ctors), 1)
    for p, s in ctors:
        b = cfg.body(f.fns[p])
        ctx.analysed_fns.add(p)
        rv = s["rv"]
        for fld in ("seq", "start_op", "deps"):
            op = rv["o"][rv["fields"].index(fld)]
            pv = b.provenance(op, through_calls=False)
            ok = any(("." + fld) in pr for _, pr in pv.places)
            ctx.ob("R9-meta", "%s|TransactionInner.%s from args.%s" % (norm_fn(p).split("::")[-1], fld, fld), ok, s["sp"], "field identity between TransactionArgs and TransactionInner")
