"""C21 Multi-peer sync across disconnects — what a restored or reconnecting session starts from (thin).

That every connected component converges is liveness over topologies and schedules (not decided). The clauses of the property
about *reconnecting* are in the shape of three functions:
 (Z1) `State::parse` (what `State::decode` returns) fills only `shared_heads` from the bytes; every session field
      (last_sent_heads, their_*, sent_hashes, in_flight, have_responded, capabilities, read-only flags, needs_reset) is a constant
      default — a restored state never claims that something is in flight or was already sent; `State::encode` writes that one
      field (C19's payload rule);
 (Z2) `generate_sync_message` answers with `Message::reset(our heads)` — and returns at once — exactly on the false edge of
      "we have every change of their last_sync": a peer whose idea of the shared state we do not know is restarted, not ignored;
 (Z3) `receive_sync_message_inner` forgets what it sent (`last_sent_heads`, `sent_hashes` reset to default) on the true edge of
      `message_heads.is_empty()` (the peer lost its data), and only there and on SYNC_RESET (C20's Y3).
Not decided: convergence of a connected component, absence of permanent waiting (liveness).
"""
from .. import cfg, util, facts
from ..util import norm_fn, callee
from . import C20

PARSE = "automerge::sync::state::State::parse"
SESSION = ["last_sent_heads", "their_heads", "their_need", "their_have", "sent_hashes", "in_flight", "have_responded", "their_capabilities", "read_only", "peer_read_only", "needs_reset"]


def is_default_value(b, op):
    """a constant, a None / empty aggregate, or the result of a nullary constructor (Vec::new, BTreeSet::new, Default::default)"""
    k = util.op_const(op)
    if k is not None:
        return k.get("v") in ("0", None) or k.get("ty") != "bool"
    pv = b.provenance(op, through_calls=True)
    if pv.params:
        return False
    for c, cb in pv.calls:
        t = b.blocks[cb]["t"]
        if t.get("args"):
            # Some(Vec::new()) is built by an aggregate, calls with arguments carry data
            return False
    return not any(norm_fn(c).startswith("automerge::storage::parse") for c in pv.callees())


def run(ctx):
    ctx.level = "proof"
    ctx.decides = ("State::parse fills shared_heads from the input and every session field with a constant default; generate_sync_message returns Message::reset(our heads) exactly when a change of their last_sync is unknown to us; "
                   "receive_sync_message_inner resets last_sent_heads and sent_hashes when the peer's heads are empty; plus C20's bookkeeping rules.")
    ctx.not_decided = "convergence of every connected component and absence of permanent waiting across arbitrary topologies and disconnects (liveness)."
    ctx.rule("Z1", "State::parse: the State aggregate takes shared_heads from the parsed input and each session field from a constant / nullary constructor")
    ctx.rule("Z2", "generate_sync_message: Message::reset is built, from get_heads(), exactly on the false edge of `their last_sync is all known`, and is returned")
    ctx.rule("Z3", "receive_sync_message_inner: last_sent_heads and sent_hashes are reset to default on the true edge of message_heads.is_empty()")
    f = ctx.facts()
    b = ctx.body(PARSE)
    ctx.analysed_fns.add(PARSE)
    aggs = [(bi, st) for bi, blk in enumerate(b.blocks) for st in blk["st"] if st["rv"]["k"] == "Agg" and st["rv"].get("adt") == C20.STATE]
    ctx.floor("State constructions in State::parse", len(aggs), 1)
    for bi, st in aggs:
        rv = st["rv"]
        missing = [x for x in SESSION if x not in rv["fields"]]
        ctx.ob("Z1", "State::parse|all session fields accounted for", not missing, st["sp"], "12 fields" if not missing else "unknown field layout: %s" % missing)
        for fld, o in zip(rv["fields"], rv["o"]):
            if fld == "shared_heads":
                pv = b.provenance(o, through_calls=True)
                ok = any("length_prefixed" in (norm_fn(c) or "") or (norm_fn(c) or "").startswith("automerge::storage::parse") for c in pv.callees())
                ctx.ob("Z1", "State::parse|shared_heads from the input", ok, st["sp"], "parsed" if ok else "shared_heads is not read from the encoded state")
            else:
                ok = is_default_value(b, o)
                ctx.ob("Z1", "State::parse|%s starts from its default" % fld, ok, st["sp"], "constant / empty" if ok else
                       "a restored sync state starts with a non-default %s: it claims knowledge about the previous connection (what was sent, what is in flight, what the peer said) that the new connection does not share" % fld)
    # ---------------- Z2
    g = ctx.body(C20.GEN)
    ctx.analysed_fns.add(C20.GEN)
    resets = [(bi, t) for bi, t in g.calls() if (callee(t) or "").endswith("sync::Message::reset")]
    ctx.floor("Message::reset calls in generate_sync_message", len(resets), 1)
    known_false = []
    for sb, sw in g.switches():
        src = g.bool_operand_source(sw["op"])
        if src and src["kind"] == "call" and (norm_fn(src.get("decl") or src["callee"]) or "").endswith("Iterator::all"):
            t = src["t"]
            pv = g.provenance(t["args"][0], through_calls=True)
            if any(".last_sync" in "".join(pr) for _, pr in pv.places):
                zero = [tb for v, tb in sw["targets"] if v == "0"]
                # the false edge of all(..), whichever way the negation goes
                known_false += ([(sb, sw["otherwise"])] if src["negated"] else ([(sb, zero[0])] if zero else []))
    ctx.floor("tests `their last_sync is all known`", len(known_false), 1)
    for k, (bi, t) in util.ordinal_keys(resets, lambda it: "generate_sync_message|Message::reset"):
        ok = g.edges_dominate(known_false, bi)
        from_heads = any(norm_fn(c) == "automerge::automerge::Automerge::get_heads" for c in g.provenance(t["args"][0], through_calls=True).callees())
        returned = False
        for bi2, blk in enumerate(g.blocks):
            for st in blk["st"]:
                if st["d"]["l"] == 0 and st["rv"]["k"] == "Agg" and st["rv"].get("variant") == "Some":
                    if any((callee(g.blocks[cb]["t"]) or "").endswith("sync::Message::reset") for c, cb in g.provenance(st["rv"]["o"][0], through_calls=False).calls):
                        returned = True
        ctx.ob("Z2", k, ok and from_heads and returned, t["sp"], "only when a change of their last_sync is unknown; carries our heads; returned" if ok and from_heads and returned else
               "the reset answer is not tied to `their last_sync contains a change we do not have` (behind that edge: %s, our heads: %s, returned: %s)" % (ok, from_heads, returned))
    # every path on that edge returns the reset (nothing else is sent to a peer whose shared state we do not know)
    builds = {bi for bi, t in g.calls() if (callee(t) or "").endswith("MessageBuilder::build")}
    for (sb, tb) in known_false:
        reach = g.reachable(start=tb)
        ctx.ob("Z2", "generate_sync_message|unknown last_sync never reaches the ordinary message", not (builds & reach), util.where(g, sb),
               "the edge leaves through the reset" if not (builds & reach) else "on the `last_sync unknown` edge an ordinary message can still be built from the stale shared state")
    # ---------------- Z3
    r = ctx.body(C20.RCV)
    ctx.analysed_fns.add(C20.RCV)
    rp = C20.state_param(r)
    empty_true = []
    for sb, sw in r.switches():
        src = r.bool_operand_source(sw["op"])
        if src and src["kind"] == "call" and (norm_fn(src["callee"]) or "").endswith("Vec::is_empty"):
            t = src["t"]
            pv = r.provenance(t["args"][0], through_calls=True)
            if any(".heads" in "".join(pr) for _, pr in pv.places) or any(".heads" in proj for _, proj in pv.params):
                zero = [tb for v, tb in sw["targets"] if v == "0"]
                empty_true += [(sb, zero[0])] if src["negated"] and zero else ([] if src["negated"] else [(sb, sw["otherwise"])])
    ctx.floor("tests message_heads.is_empty()", len(empty_true), 1)
    for fld in (".last_sent_heads", ".sent_hashes"):
        sts = [(bi, st) for bi, st in C20.field_stores(r, rp, fld)]
        resets_ = []
        for bi, st in sts:
            pv = r.provenance(st["rv"]["o"][0], through_calls=True) if st["rv"].get("o") else None
            if pv and any((norm_fn(c) or "").endswith("Default::default") for c in pv.callees()) and not pv.params:
                resets_.append((bi, st))
        ok = bool(resets_) and all(r.edges_dominate(empty_true, bi) for bi, _ in resets_)
        ctx.ob("Z3", "receive_sync_message_inner|%s reset when the peer has no heads" % fld[1:], ok, r.rec["sp"],
               "%d reset(s), all behind message_heads.is_empty()" % len(resets_) if ok else
               "%s is not reset to its default exactly when the peer reports empty heads (resets found: %d): a peer that lost its data is not sent everything again, or a healthy session is restarted" % (fld[1:], len(resets_)))
    # ---------------- Z2b: the reset answer asks for everything (an empty `have` asks for nothing)
    ctx.rule("Z2b", "Message::reset: the `have` list of the reset message contains a Have value (the default one: `send me everything since nothing`)")
    RS = [p for p in f.fns if norm_fn(p) == "automerge::sync::Message::reset"]
    if len(RS) != 1:
        raise facts.AnchorMissing("Message::reset")
    rb = ctx.body(RS[0])
    ctx.analysed_fns.add(RS[0])
    maggs = [(bi, st) for bi, blk in enumerate(rb.blocks) for st in blk["st"] if st["rv"]["k"] == "Agg" and st["rv"].get("adt") == "automerge::sync::Message"]
    ctx.floor("Message constructions in Message::reset", len(maggs), 1)
    HAVE = "automerge::sync::state::Have"
    made = any((callee(t) or "").endswith("Default>::default") and HAVE in (t.get("resargs") or t.get("fnargs") or "") for _, t in rb.calls()) or any(st["rv"]["k"] == "Agg" and st["rv"].get("adt") == HAVE for blk in rb.blocks for st in blk["st"])
    for bi, st in maggs:
        rv = st["rv"]
        pv = rb.provenance(rv["o"][rv["fields"].index("have")], through_calls=True)
        cs = {norm_fn(c).split("::")[-1] for c in pv.callees()}
        empty_only = "new" in cs and not ({"into_vec", "from_elem", "push", "from"} & cs)
        ok = made and not empty_only
        ctx.ob("Z2b", "Message::reset|have is not empty", ok, st["sp"], "carries a default Have" if ok else
               "the reset message is built with an empty `have`: the receiver takes an empty have for `nothing requested`, so the peer that was just reset is sent nothing and both sides keep resetting each other")
    # ---------------- Z4: an explicit `need` is honoured whatever the requester's last_sync says
    ctx.rule("Z4", "get_hashes_to_send: pushing a needed hash into the answer depends only on the loop, on has_change (we have it) and on the dedup test against the set already chosen for sending")
    GH = [p for p in f.fns if norm_fn(p).endswith("get_hashes_to_send") and "{closure" not in p and r_is_lib(f, p)]
    if len(GH) != 1:
        raise facts.AnchorMissing("get_hashes_to_send")
    gb = ctx.body(GH[0])
    ctx.analysed_fns.add(GH[0])
    np_ = [i for i in range(1, gb.argc + 1) if "ChangeHash" in gb.local_ty(i)]
    from .C28 import control_switches
    pushes = []
    for bi, t in gb.calls():
        if (norm_fn(t.get("fn")) or "").endswith("Vec::push") and len(t["args"]) > 1:
            pv = gb.provenance(t["args"][1], through_calls=True)
            if np_ and pv.depends_on_param(np_[0]) and "ChangeHash" in " ".join(t.get("argtys", [])):
                pushes.append((bi, t))
    ctx.floor("pushes of needed hashes in get_hashes_to_send", len(pushes), 1)
    for k, (bi, t) in util.ordinal_keys(pushes, lambda it: "get_hashes_to_send|needed hash pushed"):
        out_o = gb.operand_origin(t["args"][0])
        bad = []
        # transitive control dependence (`a && b`: the push depends on b's switch, which depends on a's)
        ctl, work, seen_ = [], [bi], set()
        while work:
            x = work.pop()
            for sb, sw in control_switches(gb, x):
                if sb not in seen_:
                    seen_.add(sb)
                    ctl.append((sb, sw))
                    work.append(sb)
        for sb, sw in ctl:
            src = gb.bool_operand_source(sw["op"])
            if src and src["kind"] == "discr":
                d = gb.single_def(src["origin"][0])
                if d and d[1] == "t" and (norm_fn(d[2].get("fn")) or "").endswith("Iterator::next"):
                    continue
            if src and src["kind"] == "call":
                c = norm_fn(src["callee"]) or ""
                last = c.split("::")[-1]
                if last == "is_empty":
                    continue                   # the `have.is_empty()` split at the top
                if last == "contains":
                    # the set tested must itself be sent: some push into the same output vector happens when the set *contains* the
                    # hash, and the needed hash is pushed when it does *not* (a pure dedup test)
                    def polarity(sb_, sw_, src_, blk_):
                        zero = [tb for v, tb in sw_["targets"] if v == "0"]
                        t_e = [(sb_, zero[0])] if src_["negated"] and zero else ([] if src_["negated"] else [(sb_, sw_["otherwise"])])
                        f_e = [(sb_, sw_["otherwise"])] if src_["negated"] else ([(sb_, zero[0])] if zero else [])
                        if t_e and gb.edges_dominate(t_e, blk_):
                            return True
                        if f_e and gb.edges_dominate(f_e, blk_):
                            return False
                        return None
                    so = gb.operand_origin(src["t"]["args"][0])
                    feeds = False
                    for pb, pt in gb.calls():
                        if (norm_fn(pt.get("fn")) or "").endswith("Vec::push") and pb != bi and gb.operand_origin(pt["args"][0]) == out_o:
                            for sb2, sw2 in control_switches(gb, pb):
                                s2 = gb.bool_operand_source(sw2["op"])
                                if s2 and s2["kind"] == "call" and (norm_fn(s2["callee"]) or "").split("::")[-1] == "contains" and gb.operand_origin(s2["t"]["args"][0]) == so and polarity(sb2, sw2, s2, pb) is True:
                                    feeds = True
                    if feeds and polarity(sb, sw, src, bi) is False:
                        continue
            bad.append(util.where(gb, sb))
        ctx.ob("Z4", k, not bad, t["sp"], "depends only on the dedup test against the hashes already chosen" if not bad else
               "a hash the peer explicitly needs (and we have) is left out under a further condition (%s): a peer whose document is older than its last_sync never gets the change back" % bad)
    C20.run(ctx)
    ctx.level = "proof"
    ctx.decides = ("State::parse fills shared_heads from the input and every session field with a constant default; generate_sync_message returns Message::reset(our heads) exactly when a change of their last_sync is unknown to us; "
                   "receive_sync_message_inner resets last_sent_heads and sent_hashes when the peer's heads are empty; plus C20's bookkeeping rules.")
    ctx.not_decided = "convergence of every connected component and absence of permanent waiting across arbitrary topologies and disconnects (liveness)."


def r_is_lib(f, p):
    return f.fns[p]["ckey"] == ("automerge", "lib")
