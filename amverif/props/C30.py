"""C30 Object ids stay valid and stable — rule R2 (guard on the actor-index hint).

Decides: when an external object id / cursor is turned into an internal OpId, the actor index
*hint* carried by the ExId is used only on the edge where `get_actor_safe(hint) == Some(actor)`;
otherwise the index comes from `lookup_actor(actor)`, a failed lookup returns an error, and conversely an id is
rejected only on the arm where that lookup failed (a stale or out-of-range hint alone never rejects an id: C19).
(Using the hint unverified would address another actor's object after the actor table shifts.)
Not decided: that ids keep denoting the same object across merges/saves (runtime state).
"""
from .. import cfg, util, rules, facts
from ..util import callee, decl, norm_fn

EXID_TO_OPID = "automerge::automerge::Automerge::exid_to_opid"
CURSOR_TO_OPID = "automerge::automerge::Automerge::op_cursor_to_opid"
OPID_NEW = ("automerge::types::OpId::new", "automerge::types::OpId::try_new")
LOOKUP = "automerge::op_set2::op_set::OpSet::lookup_actor"
SAFE = "automerge::op_set2::op_set::OpSet::get_actor_safe"


# Functions that turn an ExId's hint into an OpId without the guard, reviewed: they only ever see ExIds minted by
# id_to_exid from the same document inside one make_patches pass. The reason holds only for these callers, so the
# caller set is part of the rule (a new caller is reported).
INTERNAL_HINT_USERS = {
    "automerge::exid::ExId::to_internal_obj": {
        "<automerge::exid::ExId as core::cmp::PartialEq<automerge::types::ObjId>>::eq",
        "automerge::patches::patch_builder::PatchBuilder::get_path",
        "automerge::patches::patch_log::ExposeQueue::flush_obj",
    },
}


def hint_guard_edges(b):
    """true edges of `get_actor_safe(hint) == Some(actor)` tests"""
    def pred(src):
        if src["kind"] != "call" or norm_fn(src.get("decl")) != "core::cmp::PartialEq::eq":
            return None
        pv_all = [b.provenance(a) for a in src["t"]["args"]]
        callees = set()
        places = set()
        for pv in pv_all:
            callees |= {norm_fn(c) for c in pv.callees()}
            places |= pv.places
        has_actor = any("@Id" in p and ".1" in p for _, p in places)
        if SAFE in callees and has_actor:
            return True
        return None
    return rules.guard_edges(b, pred)


def check_fn(ctx, path, id_param_ty, floor):
    b = ctx.body(path)
    sites = [(bi, t) for bi, t in b.calls() if callee(t) in OPID_NEW]
    ctx.floor("OpId::new call sites in %s" % path.split("::")[-1], len(sites), floor)
    edges = hint_guard_edges(b)
    for k, (bi, t) in util.ordinal_keys(sites, lambda it: "%s|OpId::new" % norm_fn(path)):
        idx = t["args"][1]
        if util.op_const(idx) is not None:
            root = (util.op_const(t["args"][0]) or {}).get("v") == "0" and util.op_const(idx).get("v") == "0"
            ctx.ob("R2-hint", k, root, t["sp"], "constant OpId(0,0) (root)" if root else "constant actor index for a non-root id", nontrivial=False)
            continue
        pv = b.provenance(idx, through_calls=False)
        cs = {norm_fn(c) for c in pv.callees()}
        from_hint = any(l <= b.argc and "@Id" in p and ".2" in p for l, p in [(b.origin(l, p)[0], b.origin(l, p)[1]) for l, p in pv.places])
        if from_hint:
            ok = bool(edges) and b.edges_dominate(edges, bi)
            ctx.ob("R2-hint", k, ok, t["sp"], "actor-index hint used under get_actor_safe(hint)==Some(actor)" if ok else
                   "the ExId's actor-index hint reaches OpId::new without the get_actor_safe(hint)==Some(actor) test (witness blocks %s)" % b.witness_path(0, bi, avoid_edges=edges))
        elif cs == {LOOKUP}:
            ctx.ob("R2-hint", k, True, t["sp"], "actor index from lookup_actor(actor)")
        else:
            ctx.ob("R2-hint", k, False, t["sp"], "actor index of unknown provenance: calls %s" % sorted(cs))
    # failed lookup returns Err: the None edge of a switch on lookup_actor's result leads to Err only
    n = 0
    for sb, sw in b.switches():
        src = b.bool_operand_source(sw["op"])
        if not src or src["kind"] != "discr":
            continue
        o = src["origin"]
        d = b.single_def(o[0])
        if d and d[1] == "t" and callee(d[2]) == LOOKUP:
            n += 1
            none_val = [v for v, name in (src["vars"] or {}).items() if name == "None"]
            none_edge = None
            for v, tb in sw["targets"]:
                if none_val and v == none_val[0]:
                    none_edge = tb
            if none_edge is None:
                none_edge = sw["otherwise"]
            firsts = util.first_ret_assignments(b, none_edge)
            ok = bool(firsts) and all(kind == "stmt" and util.is_err_agg(rec["rv"]) for (_, kind, rec) in firsts)
            ctx.ob("R2-hint", "%s|failed lookup_actor returns Err|%d" % (norm_fn(path), n - 1), ok, util.where(b, sb), "None arm of lookup_actor must return an error")
    ctx.floor("matches on lookup_actor in %s" % path.split("::")[-1], n, 1)
    # conversely: an id is rejected as unknown only after the lookup by actor id failed (a stale or out-of-range hint alone is no
    # reason to reject: ids minted by a replica with a different actor numbering must still resolve)
    none_edges = []
    for sb, sw in b.switches():
        src = b.bool_operand_source(sw["op"])
        if src and src["kind"] == "discr":
            d = b.single_def(src["origin"][0])
            if d and d[1] == "t" and callee(d[2]) == LOOKUP:
                none = [tb for v, tb in sw["targets"] if (src["vars"] or {}).get(v) == "None"]
                none_edges.append((sb, none[0] if none else sw["otherwise"]))
    errs = [(bi, st) for bi, blk in enumerate(b.blocks) if not blk.get("cleanup") and bi in b.live_blocks() for st in blk["st"]
            if st["d"]["l"] == 0 and not st["d"]["p"] and util.is_err_agg(st["rv"])]
    if id_param_ty != "ExId":
        errs = []       # a cursor carries no hint; its other error (the clock does not cover the op) is legitimate
    for k, (bi, st) in util.ordinal_keys(errs, lambda e: "%s|explicit Err only after lookup_actor failed" % norm_fn(path)):
        ok = bool(none_edges) and b.edges_dominate(none_edges, bi)
        ctx.ob("R2-hint", k, ok, st["sp"], "on the None arm of lookup_actor" if ok else
               "the id is rejected on a path where lookup_actor(actor) has not failed (e.g. merely because the index hint is stale or out of range)")


def run(ctx):
    ctx.level = "proof"
    ctx.decides = ("in exid_to_opid and op_cursor_to_opid every OpId is built with an actor index that is a constant (root), the result of lookup_actor(actor), "
                   "or the ExId's hint on the edge where get_actor_safe(hint)==Some(actor); a failed lookup returns Err.")
    ctx.not_decided = "stability of ids across merges and save/load (runtime state); panics for counters above u32::MAX are reported under C15/C37."
    ctx.rule("R2-hint", "provenance of OpId::new's actor-index argument + edge-dominance by the hint validation test")
    check_fn(ctx, EXID_TO_OPID, "ExId", 3)
    check_fn(ctx, CURSOR_TO_OPID, "OpCursor", 1)
    # who-may-turn-the-hint-into-an-OpId: anywhere in the library, an OpId built from the hint field of an ExId needs the same guard
    f = ctx.facts()
    n_readers = 0
    for p, r in sorted(f.fns.items()):
        if r["ckey"] != ("automerge", "lib") or p in (EXID_TO_OPID,):
            continue
        reads = False
        for blk in r["blocks"]:
            for s in blk["st"]:
                rv = s["rv"]
                pls = [rv["p"]] if rv["k"] in ("Ref", "Discr") else [util.op_place(o) for o in rv.get("o", ()) if util.op_place(o)]
                for pl in pls:
                    pr = pl["p"]
                    if "@Id" in pr and pr[pr.index("@Id") + 1:pr.index("@Id") + 2] == [".2"] and util.base_ty(r["locals"][pl["l"]]["ty"]) == "automerge::exid::ExId":
                        reads = True
        if not reads:
            continue
        n_readers += 1
        rb = cfg.body(r)
        sites = [(bi, t) for bi, t in rb.calls() if callee(t) in OPID_NEW]
        if not sites:
            continue
        ctx.analysed_fns.add(p)
        edges = hint_guard_edges(rb)
        if norm_fn(p) in INTERNAL_HINT_USERS:
            from .. import callgraph
            cg = callgraph.get(f)
            callers = {norm_fn(c).split("::{closure")[0] for c in cg.inn.get(p, ())}
            extra = callers - INTERNAL_HINT_USERS[norm_fn(p)]
            ctx.ob("R2-hint", "%s|internal-only hint user, callers" % norm_fn(p), not extra, r["sp"],
                   "reviewed: only patch generation calls it, on ExIds minted from the same document in the same pass" if not extra else
                   "unguarded hint->OpId conversion gained caller(s) %s; it is only sound for ExIds minted internally" % sorted(extra),
                   via="table:ExIds reaching it are produced by id_to_exid of the same document during make_patches; callers frozen")
            continue
        for k, (bi, t) in util.ordinal_keys(sites, lambda it: "%s|OpId::new" % norm_fn(p)):
            pv = rb.provenance(t["args"][1], through_calls=False)
            from_hint = any("@Id" in pr and ".2" in pr for _, pr in pv.places)
            if from_hint:
                ok = bool(edges) and rb.edges_dominate(edges, bi)
                ctx.ob("R2-hint", k, ok, t["sp"], "hint validated" if ok else "an OpId is built from an ExId's actor-index hint without checking get_actor_safe(hint)==Some(actor)")
    ctx.note("functions reading the hint field of an ExId outside exid_to_opid: %d" % n_readers)
    # exid_to_obj goes through exid_to_opid
    b = ctx.body("automerge::automerge::Automerge::exid_to_obj")
    cs = [callee(t) for _, t in b.calls()]
    ctx.ob("R2-hint", "exid_to_obj|resolves through exid_to_opid", EXID_TO_OPID in cs, b.rec["sp"], "calls %s" % [c.split("::")[-1] for c in cs if c])
    # ---- the identity of an ExId (==, ordering, hash) never depends on the replica-local actor-index hint
    ctx.rule("R9-hintfree", "field read set: the bodies (and closures) of ExId's PartialEq / Ord / PartialOrd / Hash impls never read field .2 (the actor-index hint) of ExId::Id")
    IMPLS = ["<automerge::exid::ExId as core::cmp::PartialEq>::eq", "<automerge::exid::ExId as core::cmp::Ord>::cmp",
             "<automerge::exid::ExId as core::cmp::PartialOrd>::partial_cmp", "<automerge::exid::ExId as core::hash::Hash>::hash"]
    total_other = 0
    for name in IMPLS:
        if name not in f.fns:
            raise facts.AnchorMissing(name)
        bodies = [ctx.body(name)] + [cfg.body(r) for r in f.closures_of(name)]
        hint, other = [], 0
        for bd in bodies:
            for pl, sp in field_reads(bd):
                if "@Id" in pl:
                    i = pl.index("@Id")
                    nxt = pl[i + 1] if i + 1 < len(pl) else None
                    if nxt == ".2":
                        hint.append(sp)
                    elif nxt in (".0", ".1"):
                        other += 1
        total_other += other
        ctx.ob("R9-hintfree", "%s|hint not read" % name.split(" as ")[1], not hint, (hint or [f.fns[name]["sp"]])[0],
               "reads %d counter/actor field(s), never the hint" % other if not hint else
               "the comparison reads the actor-index hint of ExId::Id: the hint is replica-local (it shifts when an actor is inserted), so the same id compares differently across replicas or before/after a merge")
    ctx.floor("reads of ExId::Id counter/actor fields in the identity impls (positive control)", total_other, 4)


def field_reads(bd):
    """(projection list, span) of every place read in statements and terminators of a body"""
    def ops(o):
        pl = o.get("c") or o.get("m")
        if pl is not None:
            yield pl["p"]
    for blk in bd.blocks:
        for st in blk["st"]:
            rv = st["rv"]
            for o in rv.get("o", []):
                for x in ops(o):
                    yield x, st["sp"]
            if "p" in rv and isinstance(rv["p"], dict):
                yield rv["p"]["p"], st["sp"]
        t = blk["t"]
        for o in t.get("args", []) + ([t["op"]] if "op" in t and isinstance(t["op"], dict) else []):
            for x in ops(o):
                yield x, t.get("sp", "")
