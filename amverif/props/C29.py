"""C29 Isolated transactions act on the chosen heads — scope plumbing (thin; re-uses C04 and C07).

Decides the code-shape half of the property:
 (S1) every clock / scope argument that TransactionInner (and its BatchInsertion helper) hands to an op-set query derives from
      `self.scope` — never a literal None, never another clock: an edit inside an isolated transaction that looks the document up
      unscoped sees ops outside the chosen heads;
 (S1b) no function of transaction::inner reads the document through the public `ReadDoc` methods of `Automerge` (they take no
      clock and answer at the current heads);
 (S2) `self.scope` is what the transaction was opened with: TransactionInner's constructors store `args.scope`, and
      Automerge::transaction_args sets it to Some(isolation clock) exactly on the arm where isolation heads were given and to None
      otherwise;
 (S3) committed changes depend only on the chosen heads and the isolated chain (C04's R9-meta rules, re-run);
 (S4) reads with heads / under an open transaction are scoped through get_scope and the heads parameter (C07's rules, re-run).
Not decided: that the scoped queries return exactly the state at those heads (C07's value half); the state after integrate (C01).
"""
from .. import cfg, util, rules, facts
from ..util import norm_fn, callee
from . import C04, C07

TI = "automerge::transaction::inner::TransactionInner::"
BI = "automerge::transaction::inner::BatchInsertion::"
TARGS = "automerge::automerge::Automerge::transaction_args"


def self_fields(b, op):
    pv = b.provenance(op, through_calls=True)
    out = set()
    for l, pr in pv.places:
        o = b.origin(l, pr)
        if o[0] == 1:
            out |= {e for e in o[1] if e.startswith(".")}
    return out, pv


def run(ctx):
    ctx.level = "proof"
    ctx.rule("S1", "provenance: every Option<Clock> / Option<&Clock> argument passed by TransactionInner / BatchInsertion derives from self.scope only")
    ctx.rule("S2", "TransactionInner.scope = args.scope; transaction_args: scope = Some(isolation.clock) on the isolation arm, None otherwise")
    f = ctx.facts()
    n = 0
    for p, r in sorted(f.fns.items()):
        np_ = norm_fn(p)
        if r["ckey"] != ("automerge", "lib") or not (np_.startswith(TI) or np_.startswith(BI)):
            continue
        b = cfg.body(r)
        sites = []
        for bi, t in b.calls():
            tgt = norm_fn(t.get("res") or t.get("fn")) or ""
            if not tgt.startswith("automerge::"):
                continue        # Option / Clone adaptors are followed through provenance
            for i, ty in enumerate(t.get("argtys", [])):
                if "automerge::clock::Clock" in ty and "Option" in ty:
                    sites.append((bi, t, i))
        if sites:
            ctx.analysed_fns.add(p)
        for k, (bi, t, i) in util.ordinal_keys(sites, lambda s_: "%s|%s" % (np_, norm_fn(s_[1].get("res") or s_[1].get("fn")).split("::")[-1])):
            n += 1
            flds, pv = self_fields(b, t["args"][i])
            lit_none = any(a == "core::option::Option" and v == "None" for a, v in pv.aggs)
            # when the BatchInsertion helper holds the transaction, the scope is read through its `inner` field
            ok = ".scope" in flds and not lit_none and flds <= {".scope", ".inner"}
            ctx.ob("S1", k, ok, t["sp"], "clock argument is self.scope" if ok else
                   "the clock handed to %s does not (only) come from self.scope (fields %s, literal None: %s): inside an isolated transaction this lookup sees the document outside the chosen heads" % (norm_fn(t.get("res") or t.get("fn")).split("::")[-1], sorted(flds), lit_none))
    ctx.floor("clock arguments passed by TransactionInner / BatchInsertion", n, 11)
    # ---------------- S1b: no read of the document through the unscoped public API from inside a transaction
    ctx.rule("S1b", "who-may-call: no function of transaction::inner calls an <Automerge as ReadDoc> method (those read at the current heads, ignoring the transaction's scope)")
    n_fns = 0
    for p, r in sorted(f.fns.items()):
        np_ = norm_fn(p)
        if r["ckey"] != ("automerge", "lib") or not np_.startswith("automerge::transaction::inner::"):
            continue
        n_fns += 1
        bad = [(bi, t) for bi, t in f.calls(r) if "as automerge::read::ReadDoc>::" in (norm_fn(t.get("res") or t.get("fn")) or "") and "automerge::automerge::Automerge as" in (norm_fn(t.get("res") or t.get("fn")) or "")]
        for k, (bi, t) in util.ordinal_keys(bad, lambda it: "%s|%s" % (np_.split("::{closure")[0], norm_fn(it[1].get("res") or it[1].get("fn")).split("::")[-1])):
            ctx.ob("S1b", k, False, t["sp"], "the transaction reads the document through ReadDoc::%s, which has no clock: inside an isolated transaction it sees the state at the current heads, not at the chosen heads" % norm_fn(t.get("res") or t.get("fn")).split("::")[-1])
    ctx.ob("S1b", "transaction::inner|no unscoped ReadDoc call", True, "", "%d functions scanned" % n_fns, nontrivial=False)
    # ---------------- S1c: the diff-based reconcilers (update_text / update_spans) run inside the transaction too
    ctx.rule("S1c", "text_diff (update_text / update_spans): every Option<Clock> argument derives from TransactionInner::get_scope(), and no <Automerge as ReadDoc> method is called")
    n_td, n_clk = 0, 0
    for p, r in sorted(f.fns.items()):
        np_ = norm_fn(p)
        if r["ckey"] != ("automerge", "lib") or "automerge::text_diff::" not in np_:
            continue
        head = np_.split(" as ")[0].lstrip("<")
        if any(head.startswith("automerge::text_diff::%s::" % m) for m in ("myers", "replace", "utils")):
            continue
        n_td += 1
        b = cfg.body(r)
        uses_tx = any("TransactionInner" in b.local_ty(i) for i in range(1, b.argc + 1))
        sites, bad = [], []
        for bi, t in b.calls():
            tgt = norm_fn(t.get("res") or t.get("fn")) or ""
            if "automerge::automerge::Automerge as automerge::read::ReadDoc>::" in tgt:
                bad.append((bi, t))
            if not tgt.startswith("automerge::"):
                continue
            for i, ty in enumerate(t.get("argtys", [])):
                if "automerge::clock::Clock" in ty and "Option" in ty:
                    sites.append((bi, t, i))
        for k, (bi, t) in util.ordinal_keys(bad, lambda it: "%s|%s" % (np_.split("::{closure")[0], norm_fn(it[1].get("res") or it[1].get("fn")).split("::")[-1])):
            ctx.ob("S1c", k, False, t["sp"], "the reconciler reads the document through ReadDoc::%s (current heads) inside a transaction that may be isolated" % norm_fn(t.get("res") or t.get("fn")).split("::")[-1])
        if not uses_tx:
            continue                # helpers that receive the clock as a parameter are checked at their callers
        ctx.analysed_fns.add(p)
        for k, (bi, t, i) in util.ordinal_keys(sites, lambda s_: "%s|%s" % (np_, norm_fn(s_[1].get("res") or s_[1].get("fn")).split("::")[-1])):
            n_clk += 1
            pv = b.provenance(t["args"][i], through_calls=True)
            from_scope = any(norm_fn(c) == TI + "get_scope" for c in pv.callees())
            lit_none = any(a == "core::option::Option" and v == "None" for a, v in pv.aggs)
            ok = from_scope and not lit_none
            ctx.ob("S1c", k, ok, t["sp"], "clock argument is tx.get_scope()" if ok else
                   "the clock handed to %s is not the transaction's scope (from get_scope: %s, literal None: %s): under isolation the reconciler diffs against the document outside the chosen heads" % (norm_fn(t.get("res") or t.get("fn")).split("::")[-1], from_scope, lit_none))
    ctx.floor("text_diff functions scanned", n_td, 15)
    ctx.floor("clock arguments passed by the text_diff reconcilers", n_clk, 5)
    ctx.floor("functions of transaction::inner scanned for unscoped reads", n_fns, 60)
    # ---------------- S2
    n_ctor = 0
    for p, r in sorted(f.fns.items()):
        np_ = norm_fn(p)
        if r["ckey"] != ("automerge", "lib") or not np_.startswith(TI):
            continue
        b = cfg.body(r)
        for blk in b.blocks:
            for st in blk["st"]:
                rv = st["rv"]
                if rv["k"] == "Agg" and (rv.get("adt") or "").endswith("transaction::inner::TransactionInner") and "scope" in rv.get("fields", []):
                    n_ctor += 1
                    pv = b.provenance(rv["o"][rv["fields"].index("scope")], through_calls=True)
                    flds = set()
                    for l, pr in pv.places:
                        o = b.origin(l, pr)
                        flds |= {e for e in o[1] if e.startswith(".")}
                    ok = ".scope" in flds and bool(pv.params)
                    ctx.ob("S2", "%s|scope field" % np_, ok, st["sp"], "scope taken from the TransactionArgs parameter" if ok else "TransactionInner.scope is not the scope the transaction was opened with (fields %s)" % sorted(flds))
    ctx.floor("TransactionInner constructions", n_ctor, 1)
    tb = ctx.body(TARGS)
    hp = [i for i in range(1, tb.argc + 1) if "Isolation" in tb.local_ty(i) or "ChangeHash" in tb.local_ty(i)]
    aggs = [(bi, st) for bi, blk in enumerate(tb.blocks) for st in blk["st"] if st["rv"]["k"] == "Agg" and (st["rv"].get("adt") or "").endswith("::TransactionArgs")]
    ctx.floor("TransactionArgs constructions", len(aggs), 1)
    # the scope local has two definitions: Some(isolation clock) on the Some arm of the isolation parameter, None on the other
    for bi, st in aggs:
        rv = st["rv"]
        so = rv["o"][rv["fields"].index("scope")]
        # collect the aggregate definitions reaching the scope operand through plain moves
        some_defs, none_defs, seen, work = [], [], set(), [util.op_place(so)["l"]] if util.op_place(so) else []
        while work:
            l = work.pop()
            if l in seen:
                continue
            seen.add(l)
            for (db, si, rec) in tb.defs().get(l, []):
                if si == "t":
                    continue
                rv2 = rec["rv"]
                if rv2["k"] == "Use" and util.op_place(rv2["o"][0]) is not None and not util.op_place(rv2["o"][0])["p"]:
                    work.append(util.op_place(rv2["o"][0])["l"])
                elif rv2["k"] == "Agg" and rv2.get("variant") == "Some":
                    some_defs.append((db, rec))
                elif rv2["k"] == "Agg" and rv2.get("variant") == "None":
                    none_defs.append((db, rec))
        some_edges, none_edges = [], []
        for sb, sw in tb.switches():
            src = tb.bool_operand_source(sw["op"])
            if src and src["kind"] == "discr" and hp and src["origin"][0] in hp and not [e for e in src["origin"][1] if e.startswith(".")]:
                for v, tgt in sw["targets"]:
                    nm = (src["vars"] or {}).get(v)
                    if nm == "Some":
                        some_edges.append((sb, tgt))
                    if nm == "None":
                        none_edges.append((sb, tgt))
                if not any((src["vars"] or {}).get(v) == "None" for v, _ in sw["targets"]):
                    none_edges.append((sb, sw["otherwise"]))
                if not any((src["vars"] or {}).get(v) == "Some" for v, _ in sw["targets"]):
                    some_edges.append((sb, sw["otherwise"]))
        ok_some = bool(some_defs) and bool(some_edges) and all(tb.edges_dominate(some_edges, db) for db, _ in some_defs)
        ok_none = bool(none_defs) and bool(none_edges) and all(tb.edges_dominate(none_edges, db) for db, _ in none_defs)
        clk = False
        for db, rec in some_defs:
            pv = tb.provenance(rec["rv"]["o"][0], through_calls=True)
            clk = clk or any(i in hp for i, _ in pv.params)
        ctx.ob("S2", "transaction_args|scope = Some(isolation clock) exactly under isolation", ok_some and ok_none and clk, st["sp"],
               "Some on the isolation arm (from the isolation argument), None otherwise" if ok_some and ok_none and clk else
               "scope assignments: Some under isolation %s, None otherwise %s, clock from the isolation argument %s" % (ok_some, ok_none, clk))
        # the ids of the new ops continue the whole document's counter, with or without isolation: the op set orders ops by id and a
        # new local op is placed as the greatest, so a start_op taken from the isolated view collides with ops outside it
        ctx.rule("S2b", "provenance: TransactionArgs.start_op derives from ChangeGraph::max_op and from nothing that depends on the isolation argument")
        so2 = rv["o"][rv["fields"].index("start_op")]
        pv = tb.provenance(so2, through_calls=True)
        cs = {norm_fn(c) for c in pv.callees()}
        from_max = "automerge::change_graph::ChangeGraph::max_op" in cs
        dep_heads = any(i in hp for i, _ in pv.params)
        # control dependence: no definition feeding start_op sits on an arm of the isolation test
        arm = False
        for l in pv.locals:
            for (db, si, rec) in tb.defs().get(l, []):
                if bool(some_edges and tb.edges_dominate(some_edges, db)) != bool(none_edges and tb.edges_dominate(none_edges, db)):
                    arm = True
        ok = from_max and not dep_heads and not arm
        ctx.ob("S2b", "transaction_args|start_op continues the document-wide op counter", ok, st["sp"], "max_op() + 1, independent of isolation" if ok else
               "start_op of a new transaction depends on the isolation heads (from max_op: %s, data from heads: %s, set on an isolation arm: %s): ops of an isolated transaction would reuse counters of ops outside the scope" % (from_max, dep_heads, arm))
    # ---------------- S2c: AutoCommit hands its isolation heads to every transaction it opens, unfiltered
    ctx.rule("S2c", "provenance: the heads argument of transaction_args in AutoCommit derives from self.isolation with no Option adaptor that can drop it (filter / and_then / take_if / xor / and / then)")
    n_ta = 0
    for p, r in sorted(f.fns.items()):
        if r["ckey"] != ("automerge", "lib") or not norm_fn(p).startswith("automerge::autocommit::AutoCommit::"):
            continue
        b2 = cfg.body(r)
        # every change an AutoCommit makes, empty_change() included, is made on top of the heads the session shows (its isolation heads)
        for bi, t in b2.calls():
            if callee(t) != TARGS:
                continue
            n_ta += 1
            ctx.analysed_fns.add(p)
            pv = b2.provenance(t["args"][1], through_calls=True)
            from_iso = any(b2.origin(l, pr)[0] == 1 and ".isolation" in b2.origin(l, pr)[1] for l, pr in pv.places)
            drops = sorted({(norm_fn(c) or "").split("::")[-1] for c in pv.callees()} & {"filter", "and_then", "take_if", "xor", "and", "then", "then_some", "filter_map"})
            ok = from_iso and not drops
            ctx.ob("S2c", "%s|transaction_args(self.isolation)" % norm_fn(p).split("::")[-1], ok, t["sp"], "isolation heads handed on as they are" if ok else
                   "the transaction is opened with heads other than self.isolation (from the field: %s, adaptors that can drop it: %s): a transaction inside an isolated session can run unscoped" % (from_iso, drops))
    ctx.floor("transaction_args calls in AutoCommit", n_ta, 2)
    check_isolated_chain(ctx, f)
    check_empty_change_start(ctx, f)
    check_scoped_marks(ctx, f)
    check_scoped_deletes(ctx, f)
    # ---------------- S3 / S4
    C04.run(ctx)
    C07.run(ctx)
    ctx.level = "proof"
    ctx.decides = ("every clock argument passed by TransactionInner / BatchInsertion is self.scope; self.scope is the scope the transaction was opened with and is Some(isolation clock) exactly under isolation; "
                   "committed changes depend only on the chosen heads and the isolated chain (C04 re-run); reads with heads or under an open transaction are scoped (C07 re-run).")
    ctx.not_decided = "that the scoped queries return exactly the state at those heads; the state after integrate (merge semantics, C01)."


def check_isolated_chain(ctx, f):
    """S2d: an AutoCommit method that commits a change moves the isolation heads on to it (the isolated chain)"""
    ctx.rule("S2d", "every AutoCommit method that commits a change (TransactionInner::commit / empty) also assigns self.isolation (the new change becomes the isolated head)")
    n = 0
    for p, r in sorted(f.fns.items()):
        if r["ckey"] != ("automerge", "lib") or not norm_fn(p).startswith("automerge::autocommit::AutoCommit::") or "{closure" in p:
            continue
        b = cfg.body(r)
        commits = [(bi, t) for bi, t in b.calls() if (callee(t) or "") in ("automerge::transaction::inner::TransactionInner::commit", "automerge::transaction::inner::TransactionInner::empty",
                                                                           "automerge::transaction::inner::TransactionInner::commit_impl")]
        if not commits:
            continue
        ctx.analysed_fns.add(p)
        n += 1
        stores = [st for blk in b.blocks if not blk.get("cleanup") for st in blk["st"] if st["d"]["p"] and st["d"]["p"][-1] == ".isolation" and b.origin(st["d"]["l"], tuple(st["d"]["p"]))[0] == 1]
        ok = bool(stores)
        ctx.ob("S2d", "%s|isolation heads follow the commit" % norm_fn(p).split("::")[-1], ok, commits[0][1]["sp"], "self.isolation assigned after the commit" if ok else
               "a change is committed without moving the isolation heads: under isolation get_heads() keeps the old heads and the next change does not depend on this one")
    ctx.floor("committing methods of AutoCommit", n, 3)


def check_scoped_marks(ctx, f):
    """S5: sticky-mark insertion spots come only from marks the transaction's scope covers"""
    ctx.rule("S5", "InsertQuery::identify_valid_insertion_spot: a mark op becomes an insertion anchor (Loc::mark) only on the true edge of a test that the query's clock covers the op (Clock::covers, directly or inside an Option adaptor's closure)")
    FN = [p for p in f.fns if norm_fn(p) == "automerge::op_set2::op_set::insert::InsertQuery::identify_valid_insertion_spot"]
    if len(FN) != 1:
        raise facts.AnchorMissing("InsertQuery::identify_valid_insertion_spot")
    b = cfg.body(f.fns[FN[0]])
    ctx.analysed_fns.add(FN[0])
    cover_closures = {p for p in f.fns if p.startswith(FN[0] + "::{closure") and any((callee(t) or "").endswith("clock::Clock::covers") for _, t in cfg.body(f.fns[p]).calls())}

    def covers(t):
        c = callee(t) or ""
        if c.endswith("clock::Clock::covers") or c.endswith("op_set::visible::vis"):
            return True
        if (norm_fn(t.get("fn")) or "").split("::")[-1] in ("is_none_or", "map_or", "is_some_and", "map_or_else") and t.get("args"):
            return bool(b.provenance(t["args"][-1], through_calls=False).closures & cover_closures)
        return False
    in_scope = cfg.cond_edges(b, atom_call=covers)
    anchors = [(bi, t) for bi, t in b.calls() if (callee(t) or "").endswith("insert::Loc::mark")]
    ctx.floor("mark anchors in identify_valid_insertion_spot", len(anchors), 1)
    for k, (bi, t) in util.ordinal_keys(anchors, lambda it: "identify_valid_insertion_spot|mark anchor"):
        ok = any(b.edges_dominate([e], bi) for e in in_scope)
        ctx.ob("S5", k, ok, t["sp"], "only marks inside the scope" if ok else
               "a mark op outside the transaction's scope can become the reference element of an isolated insert: the committed change names an op that is not among its ancestors (a peer at exactly those heads panics applying it)")


def check_scoped_deletes(ctx, f):
    """S6: sibling agreement — every TransactionInner function that adds successors to document ops re-derives the element's winner under a scope"""
    ctx.rule("S6", "sibling agreement: every function of TransactionInner that calls OpSet::add_succ_with_undo also calls OpSet::reset_top on the true edge of `self.scope.is_some()` and records the range in op.reset_range (values outside the scope survive and may win)")
    n = 0
    for p, r in sorted(f.fns.items()):
        if r["ckey"] != ("automerge", "lib") or not norm_fn(p).startswith("automerge::transaction::inner::TransactionInner::") or "{closure" in p:
            continue
        b = cfg.body(r)
        adds = [(bi, t) for bi, t in b.calls() if (callee(t) or "").endswith("op_set::OpSet::add_succ_with_undo")]
        if not adds:
            continue
        ctx.analysed_fns.add(p)
        scoped = cfg.cond_edges(b, atom_call=lambda t: (norm_fn(t.get("fn")) or "").endswith("Option::is_some") and ".scope" in ((b.operand_origin(t["args"][0]) or (0, ()))[1]))
        # `if let Some(_) = &self.scope` / `match self.scope { Some(..) => .. }`: the Some edge of a discriminant switch on the field
        seeds = []
        for sb_, sw_ in b.switches():
            src_ = b.bool_operand_source(sw_["op"])
            if src_ and src_["kind"] == "discr" and ".scope" in src_["origin"][1] and (src_.get("ty") or "").startswith("core::option::Option"):
                vs_ = src_.get("vars") or {}
                some_ = [(sb_, tb_) for v_, tb_ in sw_["targets"] if vs_.get(v_) == "Some"]
                seeds += some_ if some_ else ([(sb_, sw_["otherwise"])] if any(vs_.get(v_) == "None" for v_, _ in sw_["targets"]) else [])
        scoped = list(scoped) + seeds + (list(cfg.cond_edges(b, seed_edges=seeds)) if seeds else [])
        resets = [bi for bi, t in b.calls() if (callee(t) or "").endswith("op_set::OpSet::reset_top")]
        records = [bi for bi, blk in enumerate(b.blocks) for st in blk["st"] if st["d"]["p"] and st["d"]["p"][-1] == ".reset_range"]
        for k, (bi, t) in util.ordinal_keys(adds, lambda it, nm=norm_fn(p).split("::")[-1]: "%s|successors added" % nm):
            n += 1
            ok = any(b.can_reach(bi, rb) and any(b.edges_dominate([e], rb) for e in scoped) for rb in resets) and any(b.can_reach(bi, rb) for rb in records)
            ctx.ob("S6", k, ok, t["sp"], "winner re-derived under a scope, range recorded for undo" if ok else
                   "ops are marked as succeeded under a scope without re-deriving the element's winner (reset_top): a value outside the isolated heads stays hidden in the live document while a reload shows it")
    ctx.floor("add_succ_with_undo sites in TransactionInner", n, 3)


def check_empty_change_start(ctx, f):
    """S2e: a change without ops starts right after its dependencies (the loader derives op counts from max_op distances)"""
    ctx.rule("S2e", "TransactionInner::commit_impl: on the `pending is empty` edge self.start_op is re-derived from the dependencies' greatest op (ChangeGraph::max_op_of(self.deps)) before the change is exported")
    CI = "automerge::transaction::inner::TransactionInner::commit_impl"
    b = ctx.body(CI)
    ctx.analysed_fns.add(CI)
    exports = [bi for bi, t in b.calls() if (callee(t) or "").endswith("TransactionInner::export")]
    if not exports:
        raise facts.AnchorMissing("export call in commit_impl")
    empty = cfg.cond_edges(b, atom_call=lambda t: (norm_fn(t.get("fn")) or "").endswith("::is_empty") and ".pending" in ((b.operand_origin(t["args"][0]) or (0, ()))[1]))
    stores = [(bi, st) for bi, blk in enumerate(b.blocks) if not blk.get("cleanup") for st in blk["st"] if st["d"]["p"] and st["d"]["p"][-1] == ".start_op"]
    ok = False
    why = "no store to self.start_op"
    for bi, st in stores:
        pv = b.provenance(st["rv"]["o"][0], through_calls=True) if st["rv"].get("o") else None
        from_deps = pv is not None and any((norm_fn(c) or "").endswith("ChangeGraph::max_op_of") for c in pv.callees()) and any(".deps" in b.origin(l, pr)[1] for l, pr in pv.places)
        guarded = any(b.edges_dominate([e], bi) for e in empty)
        before = any(b.can_reach(bi, eb) for eb in exports)
        why = "from the dependencies: %s, on the empty edge: %s, before export: %s" % (from_deps, guarded, before)
        ok = ok or (from_deps and guarded and before)
    ctx.ob("S2e", "commit_impl|an empty change starts after its dependencies", ok, b.rec["sp"], "start_op := max_op_of(deps) + 1 when there are no ops" if ok else
           "an empty change keeps the document-wide start_op (%s): made under isolation its max_op lies beyond its dependencies', the loader expects ops that do not exist and the document's own save() fails to load (MissingOps)" % why)
