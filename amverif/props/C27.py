"""C27 Reconciliation calls reach their target value — rule R9 (provenance obligations), thin.

Decides, for update_object's structural recursion (update_map / update_list / update_value):
(i) in update_list every index handed to a deleting call depends on the target value (the surplus
elements lie *past the end of the target*, so an index computed from the surplus count alone is
wrong); every update_value call inside the zip loop is addressed by the loop index;
(ii) in update_map every deleted key comes from the keys *present in the document* that the target
lacks (it is inserted into the deletion set only on the `None` arm of target.get(key)), and every
added key is taken from the target;
(iii) update_value recurses with the nested target (Map->update_map, List->update_list, Text->myers_diff).
Not decided: correctness of Myers diff, update_spans, batch construction (value-level).
"""
from .. import cfg, util, rules, facts
from ..util import callee, decl, norm_fn

TI = "automerge::transaction::inner::TransactionInner::"
DELETE = TI + "delete"
UPDATE_VALUE = TI + "update_value"


def param_of_type(b, base):
    return [i for i in range(1, b.argc + 1) if util.base_ty(b.local_ty(i)) == base]


def run(ctx):
    ctx.decides = ("update_list: the Prop::Seq index of every delete depends on the target list parameter; update_map: deletions come from the None arm of target.get(present key), "
                   "additions iterate the target; update_value dispatches Map/List/Text targets to update_map/update_list/myers_diff with the nested target.")
    ctx.not_decided = "Myers diff correctness (update_text / text arm), update_spans, batch_create_object / init_from_hydrate equivalence, conflict handling: value-level behaviour."
    ctx.level = "proof"
    ctx.rule("R9-del-index", "provenance of the index operand of delete(.., Prop::Seq(i)) in update_list includes the new_value parameter")
    ctx.rule("R9-map", "update_map: delete keys flow from the None arm of new_value.get(key); update_value(.., None) keys flow from new_value.iter()")
    ctx.rule("R9-recurse", "update_value passes the nested hydrate value to the matching reconciler")
    ctx.rule("R9-insert", "update_value (and its closures): a new element / object is *inserted* only on the edge where there is no old value at the position (old == None); otherwise the position is overwritten")
    ctx.rule("R9-emptyroot", "batch_init_root_map: the bulk append of root ops without predecessors (BatchInsertion::new at the end of the op set) is edge-dominated by `the op set is empty`; on a document with content keys are overwritten one by one")
    f = ctx.facts()
    check_init_root(ctx, f)
    # ---------------- update_list
    b = ctx.body(TI + "update_list")
    tgt = param_of_type(b, "automerge::hydrate::list::List")
    if len(tgt) != 1:
        raise facts.AnchorMissing("update_list target parameter")
    tgt = tgt[0]
    dels = [(bi, t) for bi, t in b.calls() if callee(t) == DELETE]
    ctx.floor("delete calls in update_list", len(dels), 1)
    for k, (bi, t) in util.ordinal_keys(dels, lambda it: "update_list|delete"):
        prop = t["args"][4]     # self, doc, patch_log, obj, prop
        pv = b.provenance(prop, through_calls=True)
        ok = pv.depends_on_param(tgt)
        ctx.ob("R9-del-index", k, ok, t["sp"], "deleted index derives from the target value" if ok else
               "the index passed to delete() does not depend on the target list: surplus elements are past the end of the target, not at a position computed from counts alone")
    ups = [(bi, t) for bi, t in b.calls() if callee(t) == UPDATE_VALUE]
    ctx.floor("update_value calls in update_list", len(ups), 2)
    for k, (bi, t) in util.ordinal_keys(ups, lambda it: "update_list|update_value"):
        pv = b.provenance(t["args"][4], through_calls=True)
        # the index comes from enumerate() over the zip of old and new
        ok = any("enumerate" in c.lower() or "Enumerate" in c for c in pv.callees())
        pvv = b.provenance(t["args"][5], through_calls=True)
        ctx.ob("R9-del-index", k, ok and pvv.depends_on_param(tgt), t["sp"], "addressed by the zip index; value taken from the target")
    # ---------------- update_map
    m = ctx.body(TI + "update_map")
    tg = param_of_type(m, "automerge::hydrate::map::Map")
    if len(tg) != 1:
        raise facts.AnchorMissing("update_map target parameter")
    tg = tg[0]
    dels = [(bi, t) for bi, t in m.calls() if callee(t) == DELETE]
    ctx.floor("delete calls in update_map", len(dels), 1)
    # the set the deleted keys are drained from
    for k, (bi, t) in util.ordinal_keys(dels, lambda it: "update_map|delete"):
        pv = m.provenance(t["args"][4], through_calls=True)
        # keys reach delete() through a HashSet that is only inserted into under `new_value.get(&key) == None`
        inserts = [(ib, it) for ib, it in m.calls() if (it.get("fn") or "").endswith("HashSet::<T, S>::insert") or norm_fn(it.get("fn")) == "std::collections::hash::set::HashSet::insert"]
        get_none_edges = []
        for sb, sw in m.switches():
            src = m.bool_operand_source(sw["op"])
            if src and src["kind"] == "discr":
                d = m.single_def(src["origin"][0])
                if d and d[1] == "t" and norm_fn(d[2].get("fn")) == "automerge::hydrate::map::Map::get" and m.provenance(d[2]["args"][0]).depends_on_param(tg):
                    none = [tb for v, tb in sw["targets"] if (src["vars"] or {}).get(v) == "None"]
                    get_none_edges.append((sb, none[0] if none else sw["otherwise"]))
        # which insert feeds the deletion set: the set local that delete's key derives from
        feeding = []
        for ib, it in inserts:
            so = m.operand_origin(it["args"][0])
            if so and so[0] in pv.locals:
                feeding.append((ib, it))
        ok = bool(feeding) and bool(get_none_edges) and all(m.edges_dominate(get_none_edges, ib) for ib, _ in feeding)
        ctx.ob("R9-map", k, ok, t["sp"], "%d insertion(s) into the deletion set, all on the None arm of target.get(present key)" % len(feeding) if ok else
               "a key can enter the deletion set without the target lacking it")
    adds = [(bi, t) for bi, t in m.calls() if callee(t) == UPDATE_VALUE]
    ctx.floor("update_value calls in update_map", len(adds), 2)
    for k, (bi, t) in util.ordinal_keys(adds, lambda it: "update_map|update_value"):
        pvv = m.provenance(t["args"][5], through_calls=True)
        ctx.ob("R9-map", k, pvv.depends_on_param(tg), t["sp"], "value written is taken from the target map")
    # ---------------- the target is traversed on every successful path (a key/element of the target that is never looked at cannot be written)
    for name, body_, param, iter_fn in (("update_map", m, tg, "automerge::hydrate::map::Map::iter"), ("update_list", b, tgt, "automerge::hydrate::list::List::iter")):
        its = [bi for bi, t in body_.calls() if norm_fn(t.get("fn")) == iter_fn and body_.provenance(t["args"][0]).depends_on_param(param)]
        oks = [bi for bi, blk in enumerate(body_.blocks) for s in blk["st"] if s["d"]["l"] == 0 and not s["d"]["p"] and util.is_ok_agg(s["rv"])]
        ok = bool(its) and bool(oks) and all(any(body_.block_dominates(i, o) for i in its) for o in oks)
        ctx.ob("R9-map" if name == "update_map" else "R9-del-index", "%s|target traversed on every Ok path" % name, ok, body_.rec["sp"],
               "target.iter() dominates Ok" if ok else "Ok can be returned without iterating over the target value (new keys / elements of the target would never be written)")
    # ---------------- update_value dispatch
    v = ctx.body(UPDATE_VALUE)
    tv = param_of_type(v, "automerge::hydrate::Value")
    if len(tv) != 1:
        raise facts.AnchorMissing("update_value target parameter")
    tv = tv[0]
    want = {TI + "update_map": False, TI + "update_list": False, "automerge::text_diff::myers_diff": False}
    for bi, t in v.calls():
        c = callee(t)
        if c in want:
            dep = any(v.provenance(a, through_calls=True).depends_on_param(tv) for a in t["args"][3:])
            want[c] = dep
            ctx.ob("R9-recurse", "update_value|%s" % c.split("::")[-1], dep, t["sp"], "nested target handed on")
    for c, seen in want.items():
        if not seen and not any(callee(t) == c for _, t in v.calls()):
            ctx.ob("R9-recurse", "update_value|%s missing" % c.split("::")[-1], False, v.rec["sp"], "update_value no longer reconciles nested %s" % c.split("::")[-1])
    # ---------------- an occupied position is overwritten, never inserted in front of
    old_p = [i for i in range(1, v.argc + 1) if v.local_ty(i).startswith("core::option::Option<(automerge::exid::ExId")]
    if len(old_p) != 1:
        raise facts.AnchorMissing("update_value old-value parameter")
    old_ty = v.local_ty(old_p[0])
    bodies = [v] + [cfg.body(r) for r in f.closures_of(UPDATE_VALUE)]
    n_ins = 0
    for bd in bodies:
        ins = [(bi, t) for bi, t in bd.calls() if callee(t) in (TI + "insert_object", TI + "insert", TI + "do_insert")]
        none_edges = []
        for sb, sw in bd.switches():
            src = bd.bool_operand_source(sw["op"])
            if src and src["kind"] == "discr" and src.get("ty") == old_ty:
                hit = [(sb, tb) for val, tb in sw["targets"] if (src["vars"] or {}).get(val) == "None"]
                none_edges += hit if hit else [(sb, sw["otherwise"])]
        for k, (bi, t) in util.ordinal_keys(ins, lambda it: "update_value|%s" % callee(it[1]).split("::")[-1]):
            n_ins += 1
            ok = bool(none_edges) and bd.edges_dominate(none_edges, bi)
            ctx.ob("R9-insert", k, ok, t["sp"], "only when there is no old value at the position" if ok else
                   "a value is inserted although the position already holds one (the insert is not behind old == None): the old element stays and the sequence grows past the target")
    ctx.floor("insert calls in update_value", n_ins, 1)


def check_init_root(ctx, f):
    b = ctx.body(TI + "batch_init_root_map")
    ctx.analysed_fns.add(TI + "batch_init_root_map")
    news = [(bi, t) for bi, t in b.calls() if (callee(t) or "").endswith("transaction::inner::BatchInsertion::new")]
    ctx.floor("bulk insertions in batch_init_root_map", len(news), 1)
    empty_edges = []
    for sb, sw in b.switches():
        src = b.bool_operand_source(sw["op"])
        zero = [tb for v, tb in sw["targets"] if v == "0"]
        if not src:
            continue
        if src["kind"] == "bin" and src["op"] in ("Gt", "Ne", "Eq", "Lt"):
            ks = [util.op_const(o) for o in src["o"]]
            if not any(k is not None and k.get("v") == "0" for k in ks):
                continue
            others = [o for o, k in zip(src["o"], ks) if k is None]
            if len(others) != 1 or not any((norm_fn(c) or "").endswith("op_set::OpSet::len") for c in b.provenance(others[0], through_calls=False).callees()):
                continue
            is_empty_when_true = src["op"] == "Eq"
            if src["negated"]:
                is_empty_when_true = not is_empty_when_true
            empty_edges += [(sb, sw["otherwise"])] if is_empty_when_true else ([(sb, zero[0])] if zero else [])
        elif src["kind"] == "call" and (norm_fn(src["callee"]) or "").endswith("OpSet::is_empty"):
            empty_edges += ([(sb, zero[0])] if zero else []) if src["negated"] else [(sb, sw["otherwise"])]
    for k, (bi, t) in util.ordinal_keys(news, lambda it: "batch_init_root_map|bulk append"):
        ok = any(b.edges_dominate([e], bi) for e in empty_edges)
        ctx.ob("R9-emptyroot", k, ok, t["sp"], "only for an empty op set" if ok else
               "root ops are appended at the end of the op set with no predecessors whatever the document holds: on a document with content the op set is out of order, old values stay on display and the saved document disagrees with the live one")
