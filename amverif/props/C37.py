"""C37 Public API calls never panic — rule family R7 on the API layer (partial).

Decides, for the API layer (automerge.rs, autocommit.rs, transaction/*, hydrate*, autoserde, patches, marks, read):
 (R7a) every Result::unwrap / expect there (and in automerge-c) is discharged: uninhabited error, infallible callee, or a
       reviewed row in tables/unwrap_result.tsv (shared with C15, which owns the decode / storage modules);
 (R7d) every panic-capable construct in those modules — macro panics (panic!, assert!, todo!, unreachable!, expect/unwrap
       of an Option), slice / Vec indexing and the panicking sequence APIs (SequenceTree / TextValue insert, remove, splice,
       Vec::remove / insert) — is discharged by a local pattern or reviewed in tables/api_panic_sites.tsv:
         * `self.transaction…unwrap()` in AutoCommit is dominated by ensure_transaction_open(), which leaves it Some;
         * typestate: the `inner` slot of Transaction / OwnedTransaction is emptied only by functions that consume `self`
           (or by Drop), so `inner.as_mut().unwrap()` in a `&mut self` method cannot observe None;
         * hydrate: in List::apply / Text::apply every call of a panicking sequence API is control-dependent on one comparison
           that relates the current len() to *all* patch fields deciding which positions are touched (the index argument and
           the length bounding an enclosing loop) — the guard that turns a stale patch into InvalidIndex;
         * index / split / division patterns shared with C15;
 (R7e) entry points resolve caller-supplied object ids only through exid_to_obj / exid_to_opid (errors propagate): every
       ReadDoc / Transactable method of Automerge and TransactionInner that takes an ExId hands it to one of the
       resolvers (or to a callee that does) and never reads its fields (a match on Root / Id without binding the fields is allowed).
The R7d inventory also covers the OpSet query methods the API layer calls (directly or through one more OpSet method): they receive
the caller's object ids, indexes and cursors.
Not decided: panics deeper inside the op-set (iterators, column edits, sequence tree) reached with *valid* ids (value-level
invariants), text_diff / myers arithmetic, debug-only arithmetic overflow.
"""
import re
from .. import cfg, util, rules, facts, panics
from ..util import norm_fn, callee
from . import C15

ENTRY = re.compile(r"^<?automerge::(automerge|autocommit|transaction|hydrate|autoserde|patches|marks|read)\b")
SEQ_PANICKING = re.compile(r"^(automerge::sequence_tree::SequenceTreeInternal::(insert|remove|set)|automerge::text_value::(ConcreteTextValue|TextValue)::(splice|remove|splice_text_value)|alloc::vec::Vec::insert)$")
AC = "automerge::autocommit::AutoCommit"
ETO = AC + "::ensure_transaction_open"
TX_TYPES = ("automerge::transaction::manual_transaction::Transaction", "automerge::transaction::owned_transaction::OwnedTransaction")
OPT_TAKE = "core::option::Option::take"


def entry_fns(f):
    return sorted(p for p, r in f.fns.items() if r["ckey"] == ("automerge", "lib") and ENTRY.match(norm_fn(p)) and not C15.in_layer(norm_fn(p)))


OPSET = "automerge::op_set2::op_set::OpSet::"


def opset_query_fns(f, entry):
    """OpSet methods that receive the caller's arguments: called from the API layer directly or through one more OpSet method"""
    lvl = set()
    for p in entry:
        for bi, t in f.calls(f.fns[p]):
            tgt = t.get("res") or t.get("fn")
            if tgt in f.fns and norm_fn(tgt).startswith(OPSET):
                lvl.add(tgt)
    for p in list(lvl):
        for bi, t in f.calls(f.fns[p]):
            tgt = t.get("res") or t.get("fn")
            if tgt in f.fns and norm_fn(tgt).startswith(OPSET):
                lvl.add(tgt)
    return sorted(lvl)


def constructs(f, p):
    out = C15.constructs(f, p)
    r = f.fns[p]
    for bi, blk in enumerate(r["blocks"]):
        if blk.get("cleanup"):
            continue
        t = blk["t"]
        if t["k"] == "call":
            fn = norm_fn(t.get("res") or t.get("fn")) or ""
            fn2 = norm_fn(t.get("fn")) or ""
            if SEQ_PANICKING.match(fn) or SEQ_PANICKING.match(fn2):
                out.append((bi, "seq-api", (fn2 or fn).split("::")[-1], t["sp"], t))
    return out


def inner_emptied_only_by_consumers(f):
    """typestate of Transaction / OwnedTransaction: who calls Option::take on self.inner"""
    bad, seen = [], 0
    for p, r in f.fns.items():
        if r["ckey"] != ("automerge", "lib"):
            continue
        cont = r.get("container") or ""
        if not any(cont.startswith(t) or cont.startswith("<" + t) for t in TX_TYPES):
            continue
        b = cfg.body(r)
        for bi, t in b.calls():
            if norm_fn(t.get("fn")) == OPT_TAKE:
                o = b.operand_origin(t["args"][0])
                if o and o[0] == 1 and ".inner" in o[1]:
                    seen += 1
                    by_value = not b.local_ty(1).startswith("&")
                    is_drop = "core::ops::drop::Drop" in cont
                    if not (by_value or is_drop):
                        bad.append("%s at %s" % (norm_fn(p), t["sp"]))
    return seen, bad


def patch_fields(b, op):
    """named fields of the patch (`.index`, `.length`, ...) an operand derives from"""
    pv = b.provenance(op, through_calls=True)
    out = set()
    for l, pr in pv.places:
        og = b.origin(l, pr)
        out |= {e for e in og[1] if e in (".index", ".length")}
    return out, pv


def len_controlled(b, bi, t):
    """the positions a sequence edit touches are determined by patch fields (the index argument; the length that bounds an
    enclosing loop). The block must be control-dependent on ONE comparison that relates all of those fields to the current len():
    `index > len` and `length > len` separately do not bound index + length."""
    used = set()
    for a in t["args"][1:2]:
        used |= patch_fields(b, a)[0]
    for xb, blk in enumerate(b.blocks):
        if blk.get("cleanup"):
            continue
        for st in blk["st"]:
            rv = st["rv"]
            if rv["k"] == "Agg" and rv.get("adt") == "core::ops::range::Range" and len(rv.get("o", [])) >= 2 and b.block_dominates(xb, bi) and xb != bi:
                used |= patch_fields(b, rv["o"][1])[0]
    if not used:
        used = {".index"}
    for sb, sw in b.switches():
        src = b.bool_operand_source(sw["op"])
        if not src or src["kind"] != "bin" or src["op"] not in ("Lt", "Le", "Gt", "Ge"):
            continue
        has_len, seen = False, set()
        for o in src["o"]:
            fl, pv = patch_fields(b, o)
            seen |= fl
            if any(norm_fn(c).endswith("::len") for c in pv.callees()):
                has_len = True
        if not has_len or not used <= seen:
            continue
        for tb in set([x for _, x in sw["targets"]] + [sw["otherwise"]]):
            if b.edges_dominate_correlated([(sb, tb)], bi):
                return True
    return False


def run(ctx):
    _run37(ctx)
    check_counter_arith(ctx, ctx.facts())


def _run37(ctx):
    ctx.level = "other"
    ctx.decides = ("API layer: every Result::unwrap/expect discharged or reviewed (R7a); every macro panic, Option::unwrap, index and panicking sequence-API call discharged by the transaction-open, "
                   "typestate, len-guard patterns or reviewed (R7d); caller-supplied ExIds flow only into exid_to_obj / exid_to_opid (R7e).")
    ctx.not_decided = "panics inside op-set queries / sequence tree / text_diff reached with valid ids (value-level invariants); debug-only overflow checks."
    ctx.rule("R7a", "discarded error channel: Result::unwrap/expect inventory by error type and source callee (API-layer modules and automerge-c)")
    ctx.rule("R7d", "API-layer inventory of panic-capable constructs with the transaction-open, typestate and len-guard discharge patterns")
    ctx.rule("R7e", "caller-supplied object ids are resolved through exid_to_obj / exid_to_opid only")
    ctx.rule("R8-visit", "worklist discipline of the graph walks behind fork_at / get_changes / get_missing_deps (C17's rule, re-run): a seed or successor entered twice is collected twice and trips an unwrap / assert in the change collector")
    f = ctx.facts()
    C15.check_r7a(ctx, f, "C37")
    from . import C17
    C17.check_worklists(ctx, f, ctx.table("c17_sizes.tsv"))
    # ---------------- AutoCommit's own patch log outlives the transaction: it is told that the transaction ended *after* the document
    # reached its final actor table (a rolled-back first change removes its actor), otherwise the log keeps an actor the document
    # dropped and the next begin_transaction / migrate_actors fails (expect on PatchLogMismatch)
    ctx.rule("R10-finish", "ordering: in AutoCommit (and its closures) PatchLog::finish_transaction is dominated by the TransactionInner::commit / rollback call of the same body")
    n_fin = 0
    for p, r in sorted(f.fns.items()):
        if r["ckey"] != ("automerge", "lib") or not norm_fn(p).startswith("automerge::autocommit::AutoCommit::"):
            continue
        b = cfg.body(r)
        fin = [(bi, t) for bi, t in b.calls() if (callee(t) or "").endswith("PatchLog::finish_transaction")]
        ends = [bi for bi, t in b.calls() if (callee(t) or "").startswith("automerge::transaction::inner::TransactionInner::") and callee(t).split("::")[-1] in ("rollback", "commit")]
        if not fin or not ends:
            continue
        ctx.analysed_fns.add(p)
        for k, (bi, t) in util.ordinal_keys(fin, lambda it: "%s|finish_transaction" % norm_fn(p)):
            n_fin += 1
            ok = any(b.block_dominates(e, bi) and e != bi for e in ends)
            ctx.ob("R10-finish", k, ok, t["sp"], "after the transaction ended" if ok else
                   "the patch log is told the transaction finished before the document committed / rolled back: after a rolled-back first change the log keeps an actor the document no longer has, and the next write panics on the mismatch")
    ctx.floor("finish_transaction calls paired with a transaction end in AutoCommit", n_fin, 3)
    # ---------------- typestate of the two transaction handles
    seen, bad = inner_emptied_only_by_consumers(f)
    ctx.floor("Option::take on a transaction handle's inner slot", seen, 7)
    ctx.ob("R7d", "typestate|Transaction.inner / OwnedTransaction.inner emptied only by self-consuming methods or Drop", not bad, "", "takes: %d; offending: %s" % (seen, bad))
    typestate_ok = not bad
    # ---------------- R7d inventory
    table = ctx.table("api_panic_sites.tsv")
    fns = entry_fns(f)
    ctx.floor("functions (and closures) in the API-layer modules", len(fns), 600)
    qfns = [p for p in opset_query_fns(f, fns) if p not in fns]
    ctx.floor("OpSet query methods reached from the API layer (two call levels)", len(qfns), 40)
    fns = fns + qfns
    n = nauto = 0
    for p in fns:
        r = f.fns[p]
        b = cfg.body(r)
        cons = constructs(f, p)
        if cons:
            ctx.analysed_fns.add(p)
        np_ = norm_fn(p)
        etos = [bi for bi, t in b.calls() if callee(t) == ETO]
        for k, (bi, kind, detail, sp, t) in util.ordinal_keys(cons, lambda c: "%s|%s%s" % (np_, c[1], ("(" + c[2] + ")") if c[2] else "")):
            n += 1
            why = C15.discharge(f, b, bi, kind, t)
            if not why and kind == "Option::unwrap":
                pv = b.provenance(t["args"][0], through_calls=True)
                fields = set()
                for l, pr in pv.places:
                    o = b.origin(l, pr)
                    if o[0] == 1:
                        fields |= {e for e in o[1] if e.startswith(".")}
                if ".transaction" in fields and etos and any(b.block_dominates(e, bi) for e in etos):
                    why = "self.transaction was just filled by ensure_transaction_open()"
                elif ".inner" in fields and typestate_ok and any((r.get("container") or "").startswith(("<" + t_, t_)) for t_ in TX_TYPES):
                    if b.local_ty(1).startswith("&") or True:
                        why = "typestate: inner is emptied only by methods that consume the handle"
            if not why and kind == "seq-api" and "hydrate" in np_:
                if len_controlled(b, bi, t):
                    why = "control-dependent on a comparison with len(): a position outside the value is turned into InvalidIndex first"
            if why:
                nauto += 1
                ctx.ob("R7d", k, True, sp, why, nontrivial=kind != "BoundsCheck")
            elif ("R7d|" + k) in table:
                ctx.ob("R7d", k, True, sp, "reviewed: " + table["R7d|" + k], via="table:" + table["R7d|" + k])
            else:
                ctx.ob("R7d", k, False, sp, "%s %s in an API-layer function is neither discharged by a pattern nor reviewed" % (kind, detail))
    ctx.floor("panic-capable constructs in the API layer", n, 60)
    ctx.note("R7d: %d constructs, %d discharged by a pattern" % (n, nauto))
    # ensure_transaction_open really leaves the slot filled: on every return path the last write to self.transaction is a Some aggregate
    eb = ctx.body(ETO)
    somes = [bi for bi, blk in enumerate(eb.blocks) for s in blk["st"] if s["d"]["p"] and s["d"]["p"][-1] == ".transaction" and eb.origin(s["d"]["l"], tuple(s["d"]["p"]))[0] == 1]
    guard = []
    for sb, sw in eb.switches():
        src = eb.bool_operand_source(sw["op"])
        if src and src["kind"] == "call" and norm_fn(src["callee"]) == "core::option::Option::is_none":
            o = eb.operand_origin(src["t"]["args"][0])
            if o and o[0] == 1 and ".transaction" in o[1]:
                guard.append(sb)
    ctx.ob("R7d", "ensure_transaction_open|fills self.transaction when it is None", bool(somes) and bool(guard), eb.rec["sp"], "writes: %d, is_none tests: %d" % (len(somes), len(guard)))
    # ---------------- R7e: ExId parameters
    RESOLVERS = ("exid_to_obj", "exid_to_opid", "exid_to_any_obj", "exid_to_just_obj")
    n_e = 0
    for p in fns:
        r = f.fns[p]
        np_ = norm_fn(p)
        if not (np_.startswith("automerge::automerge::Automerge::") or np_.startswith("automerge::transaction::inner::TransactionInner::") or np_.startswith("<automerge::automerge::Automerge as automerge::read::ReadDoc>::")):
            continue
        if "{closure" in np_:
            continue
        b = cfg.body(r)
        exparams = [i for i in range(1, b.argc + 1) if util.base_ty(b.local_ty(i)) == "automerge::exid::ExId"]
        if not exparams:
            continue
        if np_.split("::")[-1] in RESOLVERS or np_.split("::")[-1] in ("id_to_exid",):
            continue
        n_e += 1
        badu = []
        for i in exparams:
            # field reads of the id (discriminant / fields) outside the resolvers
            for blk in b.blocks:
                if blk.get("cleanup"):
                    continue
                for s in blk["st"]:
                    rv = s["rv"]
                    pls = [rv["p"]] if "p" in rv else []
                    pls += [util.op_place(o) for o in rv.get("o", ()) if util.op_place(o)]
                    for pl in pls:
                        if pl and pl["p"]:
                            o = b.origin(pl["l"], tuple(pl["p"]))
                            if o[0] == i and any(e.startswith(".") for e in o[1]):
                                badu.append("field read at %s" % s["sp"])
        ctx.ob("R7e", np_, not badu, r["sp"], "object id only handed on (to a resolver or a callee checked here)" if not badu else "caller-supplied ExId inspected directly: %s" % badu[:3])
    ctx.floor("API functions taking an ExId", n_e, 30)


def check_counter_arith(ctx, f):
    """R7-counter: the sums that give a counter its displayed value wrap in every build"""
    ctx.rule("R7-counter", "Op::fix_counter, Op::maybe_scope_counter_to_clock and Counter::increment contain no checked i64 addition (`+` lowers to AddWithOverflow and panics in builds with overflow checks): an overflowing counter must not make a loaded document unreadable")
    targets = ("automerge::op_set2::op::Op::fix_counter", "automerge::op_set2::op::Op::maybe_scope_counter_to_clock", "automerge::value::Counter::increment")
    n = 0
    for tname in targets:
        last = tname.split("::")[-1]
        P = [p for p in f.fns if (norm_fn(p) == tname or (last == "maybe_scope_counter_to_clock" and norm_fn(p).endswith("::" + last))) and f.fns[p]["ckey"] == ("automerge", "lib")]
        if not P:
            P = [p for p in f.fns if norm_fn(p) == tname and f.fns[p]["ckey"][0] == "automerge"]
        if not P:
            raise facts.AnchorMissing(tname)
        b = cfg.body(f.fns[sorted(P)[0]])
        ctx.analysed_fns.add(sorted(P)[0])
        n += 1
        checked = [st["sp"] for blk in b.blocks if not blk.get("cleanup") for st in blk["st"] if st["rv"]["k"] == "Bin" and st["rv"]["op"] in ("Add", "AddWithOverflow", "Sub", "SubWithOverflow")
                   and any("i64" in b.local_ty((o.get("c") or o.get("m") or {"l": 0})["l"]) for o in st["rv"]["o"] if (o.get("c") or o.get("m")) is not None)]
        wraps = any((norm_fn(t.get("fn")) or "").endswith("wrapping_add") for _, t in b.calls())
        ok = not checked and wraps
        ctx.ob("R7-counter", "%s|wrapping sum" % tname.split("::")[-1], ok, (checked[0] if checked else b.rec["sp"]), "wrapping_add only" if ok else
               "a counter's increments are summed with a checked `+`: put(counter(i64::MAX)), increment(1) saves and loads, and the first read of the loaded document panics in builds with overflow checks")
    ctx.floor("counter sums", n, 3)
