"""C22 Read-only sync never applies incoming changes — rule R2 (guards).

Decides: on the receive path every construct that can mutate the `Automerge` document is
control-dependent on `sync_state.read_only == false`; wrappers only delegate; message generation
takes the document by shared reference and the document has no interior mutability.
Not decided: that the other peer still receives everything, and catch-up after switching back
(liveness over schedules).
"""
import re
from .. import cfg, util, rules, facts
from ..util import callee, decl, norm_fn

DOC = "automerge::automerge::Automerge"
STATE = "automerge::sync::state::State"
TRAIT = "automerge::sync::SyncDoc"
INNER = "automerge::sync::<impl automerge::automerge::Automerge>::receive_sync_message_inner"
INTERIOR = re.compile(r"\b(core::cell::(Cell|RefCell|UnsafeCell|OnceCell|LazyCell)|std::sync::(poison::)?(Mutex|RwLock|OnceLock|LazyLock)|std::sync::(mutex|rwlock|once_lock)::|core::sync::atomic::)")


def doc_mutations(b, doc_param):
    """mutation points of the document inside body b: calls taking `&mut Automerge` or a `&mut`
    reborrow of something rooted at the document parameter; direct writes through that parameter."""
    out = []
    for bi in sorted(b.live_blocks()):
        blk = b.blocks[bi]
        if blk.get("cleanup"):
            continue
        for s in blk["st"]:
            d = s["d"]
            if "*" in d["p"]:
                o = b.origin(d["l"], tuple(d["p"]))
                if doc_param is not None and o[0] == doc_param:
                    out.append((bi, "write to %s" % b.origin_str(o), s["sp"], None))
        t = blk["t"]
        if t["k"] == "call":
            for a, ty in zip(t["args"], t["argtys"]):
                if not ty.startswith("&mut "):
                    continue
                o = b.operand_origin(a)
                rooted = doc_param is not None and o is not None and o[0] == doc_param
                if util.base_ty(ty) == DOC or rooted:
                    out.append((bi, "call %s with %s" % (callee(t), ty), t["sp"], callee(t)))
                    break
    return out


def run(ctx):
    ctx.level = "proof"
    ctx.decides = ("in Automerge::receive_sync_message_inner every call or write that can mutate the document is dominated by the "
                   "`sync_state.read_only == false` edge; every other SyncDoc::receive_* implementation only delegates to it; "
                   "every SyncDoc::generate_sync_message implementation takes &self and Automerge (transitively, local types) has no interior-mutability field.")
    ctx.not_decided = "liveness: the other peer still receives all changes; catch-up after switching back to read-write. AutoCommit's wrapper closes the user's own pending transaction before receiving (local ops, not incoming changes)."
    ctx.rule("R2-guard", "mutation points of the document in the receive path are edge-dominated by a switch on (*sync_state).read_only taking the false edge")
    ctx.rule("R2-delegate", "other receive implementations mutate the document only by delegating to a function of the receive chain")
    ctx.rule("R2-flag", "who-may-write: State.read_only is assigned (field write, whole-struct overwrite or construction) only inside State's own impl blocks")
    ctx.rule("R2-gen", "generate_sync_message takes the document by shared reference; no interior mutability inside Automerge")
    f = ctx.facts()
    tr = f.traits.get(TRAIT)
    if tr is None:
        raise facts.AnchorMissing(TRAIT)
    items = [i["path"] for i in tr["items"]]
    recv_items = [i for i in items if "receive" in i.split("::")[-1]]
    gen_items = [i for i in items if "generate" in i.split("::")[-1]]
    ctx.floor("SyncDoc receive methods", len(recv_items), 2)
    ctx.floor("SyncDoc generate methods", len(gen_items), 1)

    # --- inner
    b = ctx.body(INNER)
    doc_param = state_param = None
    for i in range(1, b.argc + 1):
        ty = b.local_ty(i)
        if ty.startswith("&mut ") and util.base_ty(ty) == DOC:
            doc_param = i
        if ty.startswith("&mut ") and util.base_ty(ty) == STATE:
            state_param = i
    if doc_param is None or state_param is None:
        raise facts.AnchorMissing(INNER + " (&mut Automerge, &mut State) parameters")
    edges = rules.guard_edges(b, rules.place_pred(state_param, [".read_only"], False))
    # the same test hoisted into a boolean (`let apply = !empty && !sync_state.read_only; if apply {..}`)
    for e in cfg.cond_edges(b, atom_place=lambda o: o[0] == state_param and [x for x in o[1] if x.startswith(".")] == [".read_only"], want=False):
        if e not in edges:
            edges.append(e)
    muts = doc_mutations(b, doc_param)
    ctx.floor("document mutation points in receive_sync_message_inner", len(muts), 1)
    ctx.floor("switches on sync_state.read_only in receive_sync_message_inner", len(edges), 1)
    for k, (bi, what, sp, _) in util.ordinal_keys(muts, lambda m: "%s|%s" % (norm_fn(INNER), m[1])):
        ok = bool(edges) and b.edges_dominate(edges, bi)
        detail = "guarded by read_only == false" if ok else "%s reachable without passing the `read_only == false` edge (witness blocks %s)" % (what, b.witness_path(0, bi, avoid_edges=edges))
        ctx.ob("R2-guard", k, ok, sp, detail)
    # closures of inner must not capture the document mutably
    for r in f.closures_of(INNER):
        cb = cfg.body(r)
        ctx.analysed_fns.add(r["path"])
        cap_mut = any(ty.startswith("&mut ") and util.base_ty(ty) == DOC for ty in [l["ty"] for l in cb.locals])
        ctx.ob("R2-guard", "%s|closure" % norm_fn(r["path"]), not cap_mut, r["sp"], "closure in the receive path must not hold &mut Automerge")

    # --- the flag itself: only State's own methods may write `read_only` (or overwrite a whole State)
    writers = []
    for p, r in f.fns.items():
        if r["ckey"] != ("automerge", "lib"):
            continue
        wb = None
        for bi, blk in enumerate(r["blocks"]):
            for s in blk["st"]:
                d = s["d"]
                hit = None
                if d["p"] and d["p"][-1] == ".read_only":
                    wb = wb or cfg.body(r)
                    o = wb.origin(d["l"], tuple(d["p"]))
                    hit = "write to %s" % wb.origin_str(o)
                elif d["p"] == ["*"] and util.base_ty(r["locals"][d["l"]]["ty"]) == STATE:
                    hit = "whole sync State overwritten"
                elif s["rv"]["k"] == "Agg" and s["rv"].get("adt") == STATE:
                    hit = "constructs a State"
                if hit:
                    writers.append((p, hit, s["sp"]))
    ctx.floor("writers/constructors of sync::State.read_only", len(writers), 3)
    for k, (p, hit, sp) in util.ordinal_keys(writers, lambda w: "%s|%s" % (norm_fn(w[0]), w[1])):
        r = f.fns[p]
        own = r.get("container") == STATE or (r.get("container") or "").startswith("<" + STATE + " as ") or norm_fn(p).startswith(STATE + "::")
        ctx.ob("R2-flag", k, own, sp, "only State's own methods may set or reset the read-only flag" if own else "%s outside State's own methods: the receive/generate path could flip read-only mode" % hit)

    # --- other receive implementations: delegation only
    chain = {INNER}
    impls = [p for p, r in f.fns.items() if r.get("trait_item") in recv_items]
    chain |= set(impls)
    ctx.floor("implementations of SyncDoc::receive_*", len(impls), 4)
    for p in sorted(impls):
        ib = ctx.body(p)
        dp = None
        for i in range(1, ib.argc + 1):
            ty = ib.local_ty(i)
            if ty.startswith("&mut ") and util.base_ty(ty) == DOC:
                dp = i
        ms = doc_mutations(ib, dp)
        bad = [m for m in ms if m[3] not in {norm_fn(c) for c in chain}]
        ctx.ob("R2-delegate", norm_fn(p), not bad, ib.rec["sp"],
               "%d document-mutating constructs, all delegations to the receive chain" % len(ms) if not bad else "mutates the document outside the guarded function: %s at %s" % (bad[0][1], bad[0][2]))

    # --- generation takes &self
    gimpls = [p for p, r in f.fns.items() if r.get("trait_item") in gen_items]
    ctx.floor("implementations of SyncDoc::generate_sync_message", len(gimpls), 2)
    for p in sorted(gimpls):
        gb = ctx.body(p)
        ty = gb.local_ty(1)
        ok = ty.startswith("&") and not ty.startswith("&mut ")
        # and no argument of any call inside is a &mut Automerge
        ms = [m for m in doc_mutations(gb, None)]
        ctx.ob("R2-gen", norm_fn(p), ok and not ms, gb.rec["sp"], "receiver type %s; %d calls with &mut Automerge" % (ty, len(ms)))
    # --- no interior mutability in Automerge (transitively through local ADTs)
    seen, work, hits = set(), [DOC], []
    while work:
        a = work.pop()
        if a in seen:
            continue
        seen.add(a)
        adt = f.adts.get(a)
        if adt is None:
            continue
        for v in adt["variants"]:
            for fl in v["fields"]:
                if INTERIOR.search(fl["ty"]):
                    hits.append("%s.%s: %s" % (a, fl["name"], fl["ty"]))
                for m in re.finditer(r"[A-Za-z_][A-Za-z0-9_]*(::[A-Za-z_][A-Za-z0-9_]*)+", fl["ty"]):
                    if m.group(0) in f.adts:
                        work.append(m.group(0))
    ctx.floor("local ADTs reachable from Automerge's fields", len(seen), 10)
    ctx.ob("R2-gen", "Automerge|no-interior-mutability", not hits, f.adts[DOC]["sp"], "interior-mutability fields: %s" % hits if hits else "%d reachable local types scanned" % len(seen))
    # ---- capabilities: the catch-up after a read-only phase depends on the peer's SyncReset capability being the one that is tested
    ctx.rule("R2-cap", "every sync::Capability variant recorded from incoming messages is tested by exactly one State predicate, and no two predicates test the same variant")
    CAP = "automerge::sync::Capability"
    cap = f.adts.get(CAP)
    if cap is None:
        raise facts.AnchorMissing(CAP)
    tested = {}
    for p, r in f.fns.items():
        if r["ckey"] != ("automerge", "lib") or "automerge::sync::state::State::" not in norm_fn(p):
            continue
        for blk in r["blocks"]:
            for st in blk["st"]:
                for o in st["rv"].get("o", ()):
                    k = util.op_const(o)
                    if k and CAP in (k.get("ty") or ""):
                        for adt, var in k.get("paggs", []):
                            if adt == CAP:
                                tested.setdefault(var, set()).add(norm_fn(p).split("::{closure")[0])
    recorded = set()
    rb = ctx.body(INNER)
    for blk in rb.blocks:
        for st in blk["st"]:
            if st["rv"]["k"] == "Agg" and st["rv"].get("adt") == CAP:
                recorded.add(st["rv"]["variant"])
    ctx.floor("capabilities recorded from incoming messages", len(recorded), 2)
    for v in sorted(recorded):
        fns = tested.get(v, set())
        ctx.ob("R2-cap", "Capability::%s is consulted" % v, len(fns) == 1, rb.rec["sp"], "tested by %s" % sorted(fns) if len(fns) == 1 else
               "the capability is recorded from incoming messages but %s" % ("no State predicate tests it (a peer that advertises it is treated like one that does not)" if not fns else "tested by several predicates %s" % sorted(fns)))
    by_fn = {}
    for v, fns in tested.items():
        for fn in fns:
            by_fn.setdefault(fn, set()).add(v)
    dup = {v: sorted(fns) for v, fns in tested.items() if len(fns) > 1}
    ctx.ob("R2-cap", "no two predicates test the same capability", not dup, "", "%s" % (dup or {fn.split("::")[-1]: sorted(v) for fn, v in by_fn.items()}))
