"""C02 Document state equals the op-based CRDT reading of its history — the three selection rules that are in the shape of the code (thin).

Equality with a reference interpretation needs a functional specification and a prover (not decided). The reading the property
gives has three selection rules whose implementation is a handful of lines each:
 (W1) *what is a value of a register*: an op is visible unless it is an increment, or a later op names it as predecessor — where an
      increment naming a **counter** does not hide it: every visibility predicate that looks at successors tests the successor's
      increment value (`inc.is_none()`): `Op::visible`, `TxOp::has_succ`, the clocked predicates (C07's R2-succinc, re-run);
 (W2) *which value wins*: the ops found for a key / element are in ascending id order and the winner is the **last**: `Automerge::get_for`
      takes `next_back()` / `last()` of the found ops, never the first;
 (W3) *what "greatest id" means*: `OpId` order is (counter, actor) with a replica-independent actor order (C01's N1 / N2, re-run).
Not decided: RGA placement of inserts (higher-id siblings first), counter arithmetic, marks; agreement of the indexes (top, visible,
text) with this reading after arbitrary histories.
"""
from .. import cfg, util, facts
from ..util import norm_fn, callee
from . import C01, C07

GET_FOR = "automerge::automerge::Automerge::get_for"


def run(ctx):
    ctx.rule("W1", "every successor-walking visibility predicate tests the successor's increment value (an increment does not hide a counter)")
    ctx.rule("W2", "Automerge::get_for: the value returned for a key / index is the last of the found ops (next_back / last), never first / next / nth")
    f = C01.check_order(ctx)
    C07.check_succ_inc(ctx, f)
    # the unclocked predicates: closures over (id, inc) pairs of an op's successors
    n = 0
    for p, r in sorted(f.fns.items()):
        if r["ckey"] != ("automerge", "lib") or "{closure" in p:
            continue
        np_ = norm_fn(p)
        if not (np_.startswith("automerge::op_set2::op::") and np_.split("::")[-1] in ("visible", "has_succ")):
            continue
        b = cfg.body(r)
        if b.local_ty(0) != "bool":
            continue
        bodies = [b] + [cfg.body(x) for x in f.closures_of(p)]
        walks = any((norm_fn(t.get("fn")) or "").split("::")[-1] in ("any", "all", "find", "filter") for bd in bodies for _, t in bd.calls()) and any("Option<i64>" in bd.local_ty(i) for bd in bodies for i in range(len(bd.rec.get("locals", []))))
        if not walks:
            continue
        n += 1
        ctx.analysed_fns.add(p)
        tests = 0
        for bd in bodies:
            for sb, sw in bd.switches():
                src = bd.bool_operand_source(sw["op"])
                if src and src["kind"] == "discr" and (src.get("ty") or "").startswith("core::option::Option<i64>"):
                    tests += 1
            for bi, t in bd.calls():
                if (norm_fn(t.get("fn")) or "").endswith(("Option::is_none", "Option::is_some")) and "Option<i64>" in " ".join(t.get("argtys", [])):
                    tests += 1
        ctx.ob("W1", "%s|increments do not hide a counter" % np_.split("op::")[-1], tests >= 1, r["sp"], "tests the successor's increment value" if tests else
               "a successor hides the op whether or not it is an increment: an incremented counter is no longer a value of its register")
    ctx.floor("unclocked visibility predicates walking successors", n, 2)
    # ---------------- W2
    g = ctx.body(GET_FOR)
    ctx.analysed_fns.add(GET_FOR)
    seeks = [(bi, t) for bi, t in g.calls() if (callee(t) or "").endswith(("OpSet::seek_ops_by_map_key", "OpSet::seek_ops_by_index"))]
    ctx.floor("element lookups in get_for", len(seeks), 2)
    picks = [(bi, t) for bi, t in g.calls() if (norm_fn(t.get("fn")) or "").split("::")[-1] in ("next_back", "last", "next", "first", "nth", "min", "max", "pop")
             and any((norm_fn(c) or "").endswith(("seek_ops_by_map_key", "seek_ops_by_index")) for c in g.provenance(t["args"][0], through_calls=True).callees())]
    ctx.floor("selections among the found ops in get_for", len(picks), 2)
    for k, (bi, t) in util.ordinal_keys(picks, lambda it: "get_for|selection"):
        name = (norm_fn(t.get("fn")) or "").split("::")[-1]
        ok = name in ("next_back", "last", "pop", "max")
        ctx.ob("W2", k, ok, t["sp"], "the last (greatest id) of the found ops" if ok else
               "get_for returns the %s of the ops found for the key / element: with conflicting values the reader sees a loser, not the greatest (counter, actor) id" % name)
    ctx.level = "proof"
    ctx.decides = ("visibility predicates distinguish increments from overwrites; get_for returns the last (greatest-id) of the ops found for a key or element; OpId order is (counter, actor index) over a sorted actor table (C01's rules re-run).")
    ctx.not_decided = "equality of the visible state with the reference reading: RGA placement, counter arithmetic, marks, agreement of the top / visible / text indexes after arbitrary histories (runtime values)."
