"""C02 Document state equals the op-based CRDT reading of its history — the three selection rules that are in the shape of the code (thin).

Equality with a reference interpretation needs a functional specification and a prover (not decided). The reading the property
gives has three selection rules whose implementation is a handful of lines each:
 (W1) *what is a value of a register*: an op is visible unless it is an increment, or a later op names it as predecessor — where an
      increment naming a **counter** does not hide it: every visibility predicate that looks at successors tests the successor's
      increment value (`inc.is_none()`): `Op::visible`, `TxOp::has_succ`, the clocked predicates (C07's R2-succinc, re-run);
 (W2) *which value wins*: the ops found for a key / element are in ascending id order and the winner is the **last**: `Automerge::get_for`
      takes `next_back()` / `last()` of the found ops, never the first;
 (W3) *what "greatest id" means*: `OpId` order is (counter, actor) with a replica-independent actor order (C01's N1 / N2, re-run).
Not decided: RGA placement of inserts (higher-id siblings first), counter arithmetic, marks; agreement of the indexes (top, visible,
text) with this reading after arbitrary histories.
"""
from .. import cfg, util, facts
from ..util import norm_fn, callee
from . import C01, C07

GET_FOR = "automerge::automerge::Automerge::get_for"


def run(ctx):
    ctx.rule("W1", "every successor-walking visibility predicate tests the successor's increment value (an increment does not hide a counter)")
    ctx.rule("W4", "OpSet::add_succ_with_undo: the flag that stops further exposure is set at the first surviving value of the register whether or not a deletion was seen above it (only the highest surviving value can become the winner); the exposing store is behind that flag == false")
    ctx.rule("W6", "OpSet::add_succ_with_undo: the exposing store goes through OpSet::expose, which sets the top flag and the text-index width together")
    ctx.rule("W7", "OpSet::add_succ_with_undo: the exposing store is edge-dominated by `index.visible[pos] == true` (a value already overwritten outside the transaction's scope is not a surviving value)")
    ctx.rule("W5", "InsertQuery::resolve: the scan position used for an append is advanced on every iteration of the scan, also when an increment op is skipped")
    ctx.rule("W2", "Automerge::get_for: the value returned for a key / index is the last of the found ops (next_back / last), never first / next / nth")
    f = C01.check_order(ctx)
    C07.check_succ_inc(ctx, f)
    # the unclocked predicates: closures over (id, inc) pairs of an op's successors
    n = 0
    for p, r in sorted(f.fns.items()):
        if r["ckey"] != ("automerge", "lib") or "{closure" in p:
            continue
        np_ = norm_fn(p)
        if not (np_.startswith("automerge::op_set2::op::") and np_.split("::")[-1] in ("visible", "has_succ")):
            continue
        b = cfg.body(r)
        if b.local_ty(0) != "bool":
            continue
        bodies = [b] + [cfg.body(x) for x in f.closures_of(p)]
        walks = any((norm_fn(t.get("fn")) or "").split("::")[-1] in ("any", "all", "find", "filter") for bd in bodies for _, t in bd.calls()) and any("Option<i64>" in bd.local_ty(i) for bd in bodies for i in range(len(bd.rec.get("locals", []))))
        if not walks:
            continue
        n += 1
        ctx.analysed_fns.add(p)
        tests = 0
        for bd in bodies:
            for sb, sw in bd.switches():
                src = bd.bool_operand_source(sw["op"])
                if src and src["kind"] == "discr" and (src.get("ty") or "").startswith("core::option::Option<i64>"):
                    tests += 1
            for bi, t in bd.calls():
                if (norm_fn(t.get("fn")) or "").endswith(("Option::is_none", "Option::is_some")) and "Option<i64>" in " ".join(t.get("argtys", [])):
                    tests += 1
        ctx.ob("W1", "%s|increments do not hide a counter" % np_.split("op::")[-1], tests >= 1, r["sp"], "tests the successor's increment value" if tests else
               "a successor hides the op whether or not it is an increment: an incremented counter is no longer a value of its register")
    ctx.floor("unclocked visibility predicates walking successors", n, 2)
    # ---------------- W2
    g = ctx.body(GET_FOR)
    ctx.analysed_fns.add(GET_FOR)
    seeks = [(bi, t) for bi, t in g.calls() if (callee(t) or "").endswith(("OpSet::seek_ops_by_map_key", "OpSet::seek_ops_by_index"))]
    ctx.floor("element lookups in get_for", len(seeks), 2)
    picks = [(bi, t) for bi, t in g.calls() if (norm_fn(t.get("fn")) or "").split("::")[-1] in ("next_back", "last", "next", "first", "nth", "min", "max", "pop")
             and any((norm_fn(c) or "").endswith(("seek_ops_by_map_key", "seek_ops_by_index")) for c in g.provenance(t["args"][0], through_calls=True).callees())]
    ctx.floor("selections among the found ops in get_for", len(picks), 2)
    for k, (bi, t) in util.ordinal_keys(picks, lambda it: "get_for|selection"):
        name = (norm_fn(t.get("fn")) or "").split("::")[-1]
        ok = name in ("next_back", "last", "pop", "max")
        ctx.ob("W2", k, ok, t["sp"], "the last (greatest id) of the found ops" if ok else
               "get_for returns the %s of the ops found for the key / element: with conflicting values the reader sees a loser, not the greatest (counter, actor) id" % name)
    check_expose_once(ctx, f)
    check_append_position(ctx, f)
    ctx.level = "proof"
    ctx.decides = ("visibility predicates distinguish increments from overwrites; get_for returns the last (greatest-id) of the ops found for a key or element; OpId order is (counter, actor index) over a sorted actor table (C01's rules re-run).")
    ctx.not_decided = "equality of the visible state with the reference reading: RGA placement, counter arithmetic, marks, agreement of the top / visible / text indexes after arbitrary histories (runtime values)."


def check_expose_once(ctx, f):
    AS = "automerge::op_set2::op_set::OpSet::add_succ_with_undo"
    b = ctx.body(AS)
    ctx.analysed_fns.add(AS)
    # the exposing store: top.splice(pos, 1, [true]), or OpSet::expose which does that and restores the text width
    sites = []
    raw = []
    for bi, t in b.calls():
        if (norm_fn(t.get("fn")) or "").split("::")[-1] == "splice" and t.get("args"):
            o = b.operand_origin(t["args"][0])
            if o and ".top" in o[1]:
                pv = b.provenance(t["args"][3], through_calls=False) if len(t["args"]) > 3 else None
                if pv and ("bool", "1") in {(ty, v) for ty, v in pv.consts}:
                    sites.append((bi, t))
                    raw.append((bi, t))
        if (callee(t) or "").endswith("op_set::OpSet::expose"):
            sites.append((bi, t))
    ctx.floor("exposing stores (top := true / OpSet::expose) in add_succ_with_undo", len(sites), 1)
    # W6: the op that becomes an element's winner also carries the element's width in the text index (OpSet::expose sets both)
    for k, (bi, t) in util.ordinal_keys(sites, lambda it: "add_succ_with_undo|exposed op carries the text width"):
        ok = (bi, t) not in raw
        ctx.ob("W6", k, ok, t["sp"], "through OpSet::expose (top and text width together)" if ok else
               "a surviving value is made the element's top op without the text-index width that conflict() cleared: in a text, length(), get() and cursors no longer agree with text()")
    # W7: only an op that is still visible can become the winner (under isolation a change outside the scope may already have overwritten it)
    def vis_read(t_):
        if (norm_fn(t_.get("fn")) or "").split("::")[-1] not in ("eq", "get", "unwrap_or", "is_some_and", "contains"):
            return False
        return any(".visible" in "".join(b.origin(l_, pr_)[1]) for a_ in t_.get("args", []) for l_, pr_ in b.provenance(a_, through_calls=True).places)
    vis_true = cfg.cond_edges(b, atom_call=lambda t_: (norm_fn(t_.get("fn")) or "").split("::")[-1] == "eq" and vis_read(t_))
    # `matches!(visible.get(pos), Some(true))`: a switch on the payload of the Option<bool> a read of the visibility index returned
    for sb_, sw_ in b.switches():
        src_ = b.bool_operand_source(sw_["op"])
        if src_ and src_["kind"] == "place" and src_["origin"][1] and src_["origin"][1][-1] == ".0" and "@Some" in src_["origin"][1]:
            d_ = b.single_def(src_["origin"][0])
            if d_ and d_[1] == "t" and vis_read(d_[2]):
                seeds_ = [(sb_, sw_["otherwise"])] if not src_["negated"] else [(sb_, tb_) for v_, tb_ in sw_["targets"] if v_ == "0"]
                # the result of `matches!` is a bool temporary tested later: follow it
                vis_true = list(vis_true) + seeds_ + list(cfg.cond_edges(b, seed_edges=seeds_))
    for k, (bi, t) in util.ordinal_keys(sites, lambda it: "add_succ_with_undo|exposed op is visible"):
        ok = any(b.edges_dominate([e], bi) for e in vis_true)
        ctx.ob("W7", k, ok, t["sp"], "behind a test of the visibility index" if ok else
               "a surviving counter is made the element's top op without asking whether it is still visible: under isolation at older heads a later change may already have overwritten it, top without visible trips the assertion in reset_top (panic in release builds too)")
    bool_locals = [l for l in range(b.argc + 1, len(b.rec.get("locals", []))) if b.local_ty(l) == "bool" and b.local_name(l)]
    for k, (bi, t) in util.ordinal_keys(sites, lambda it: "add_succ_with_undo|expose"):
        ok_any = False
        for E in bool_locals:
            sets_true = [db for (db, si, rec) in b.defs().get(E, []) if si != "t" and rec["rv"]["k"] == "Use" and (util.op_const(rec["rv"]["o"][0]) or {}).get("v") == "1"]
            if not sets_true:
                continue
            e_false = cfg.cond_edges(b, atom_place=None, atom_call=None, want=False, seed_edges=())
            # edges where E is false: switches directly on E
            e_false = []
            for sb, sw in b.switches():
                pl = sw["op"].get("c") or sw["op"].get("m")
                if pl and not pl["p"] and b.origin(pl["l"], ())[0] == E:
                    zero = [tb for v, tb in sw["targets"] if v == "0"]
                    e_false += [(sb, zero[0])] if zero else []
            if not (e_false and b.edges_dominate(e_false, bi)):
                continue
            # E := true must not require another guard of the exposing store to be true
            others = []
            for D in bool_locals:
                if D == E:
                    continue
                for sb, sw in b.switches():
                    pl = sw["op"].get("c") or sw["op"].get("m")
                    if pl and not pl["p"] and b.origin(pl["l"], ())[0] == D:
                        e_true = [(sb, sw["otherwise"])]
                        if b.edges_dominate(e_true, bi):
                            others.append(e_true)
            dependent = [db for db in sets_true for e_true in others if b.edges_dominate(e_true, db)]
            ok_any = not dependent
            ctx.ob("W4", k, ok_any, t["sp"], "the stop flag is set at the first surviving value, deletion or not" if ok_any else
                   "the flag that stops further exposure is only set once a deletion was seen: a surviving value below a higher surviving one is exposed too, and one register shows up as two elements")
            break
        else:
            ctx.ob("W4", k, False, t["sp"], "no stop flag guards the exposing store: every surviving value below a deleted one is exposed")


def check_append_position(ctx, f):
    RS = [p for p in f.fns if norm_fn(p) == "automerge::op_set2::op_set::insert::InsertQuery::resolve"]
    if len(RS) != 1:
        raise facts.AnchorMissing("InsertQuery::resolve")
    b = cfg.body(f.fns[RS[0]])
    ctx.analysed_fns.add(RS[0])
    # the append position: QueryNth { pos: pos + 1, .. }
    pos_local = None
    for blk in b.blocks:
        for st in blk["st"]:
            rv = st["rv"]
            if rv["k"] == "Agg" and (rv.get("adt") or "").endswith("QueryNth") and "pos" in rv.get("fields", []):
                o = rv["o"][rv["fields"].index("pos")]
                pl = o.get("c") or o.get("m")
                d = b.single_def(pl["l"]) if pl and not pl["p"] else None
                while d and d[1] != "t" and d[2]["rv"]["k"] == "Use":
                    pl = d[2]["rv"]["o"][0].get("c") or d[2]["rv"]["o"][0].get("m")
                    # `(tmp.0)` of a checked addition's (value, overflow) pair
                    d = b.single_def(pl["l"]) if pl and (not pl["p"] or pl["p"] == [".0"]) else None
                if d and d[1] != "t" and d[2]["rv"]["k"] == "Bin" and d[2]["rv"]["op"] in ("Add", "AddWithOverflow"):
                    for o2 in d[2]["rv"]["o"]:
                        p2 = o2.get("c") or o2.get("m")
                        if p2 and not p2["p"]:
                            pos_local = b.origin(p2["l"], ())[0]
    if pos_local is None:
        raise facts.AnchorMissing("append position (pos + 1) in InsertQuery::resolve")
    nexts = [bi for bi, t in b.calls() if (norm_fn(t.get("fn")) or "").endswith("Iterator::next")]
    stores = {db for (db, si, rec) in b.defs().get(pos_local, []) if si != "t" and any(b.can_reach(db, n) and b.can_reach(n, db) for n in nexts)}
    ctx.floor("updates of the scan position inside the scan loop", len(stores), 1)
    # every way from the loop's Some arm back to the loop head passes an update
    ok = True
    for n in nexts:
        if not any(b.can_reach(db, n) and b.can_reach(n, db) for db in stores):
            continue            # another loop (e.g. over the marks collected), which does not scan positions
        t = b.blocks[n]["t"]
        nxt = t.get("target")
        sw = b.blocks[nxt]["t"] if nxt is not None else None
        some = [tb for v, tb in (sw or {}).get("targets", []) if v == "1"] if sw and sw["k"] == "switch" else []
        for tb in some:
            reach = b.reachable(start=tb, removed_blocks=stores)
            if n in reach:
                ok = False
    ctx.ob("W5", "InsertQuery::resolve|position advanced on every iteration", ok, b.rec["sp"], "no iteration leaves the position behind" if ok else
           "an iteration of the scan (a skipped increment op) returns to the loop head without advancing the position: an append after an incremented counter is placed between the counter and its increments, and the saved document no longer loads")
