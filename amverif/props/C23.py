"""C23 The sync Bloom filter has no false negatives and never crashes — rule R15 (bloom structure).

Decides: add_hash and contains_hash take their probe positions from the same function
(get_probes) and touch `bits` only through set_bit / get_bit, which use bounds-tolerant
`get`/`get_mut` and the same byte/bit decomposition; every `%` / `/` in sync::bloom has a divisor
that is a non-zero constant or is tested against zero on every path; contains_hash returns
`false` only on the enumerated conditions.
Not decided: the arithmetic of the probe sequence (overflow of x+y for > 256 MiB filters, debug
builds only), nor that from_hashes sizes the bit array sufficiently.
"""
from .. import cfg, util, rules, facts
from ..util import callee, decl, norm_fn

MOD = "automerge::sync::bloom::"
BF = MOD + "BloomFilter::"


def divisor_guarded(b, bi, t):
    """assert(DivisionByZero/RemainderByZero) at block bi: is the divisor tested non-zero on every
    path? accepted tests: comparison with the constant 0 of a value in the divisor's backward slice,
    or is_empty() on a container in that slice."""
    # the assert condition is `Eq(divisor, 0)`; recover the divisor operand
    src = b.bool_operand_source(t["cond"])
    if not src or src["kind"] != "bin" or src["op"] != "Eq":
        return False, "unrecognised assert shape"
    div = src["o"][0]
    if util.op_const(div) is not None:
        return (util.op_const(div).get("v") not in (None, "0")), "constant divisor"
    pv = b.provenance(div, through_calls=True)
    slice_locals = pv.locals
    slice_origins = {b.origin(l, p) for (l, p) in pv.places}
    edges = []
    for sb, sw in b.switches():
        if sw["ty"] != "bool":
            continue
        s = b.bool_operand_source(sw["op"])
        if not s:
            continue
        nonzero_when = None
        if s["kind"] == "bin" and s["op"] in ("Eq", "Ne", "Gt", "Lt") and s.get("block") != bi:
            ops = s["o"]
            consts = [util.op_const(o) for o in ops]
            if any(c is not None and c.get("v") == "0" for c in consts):
                other = [o for o, c in zip(ops, consts) if c is None]
                if other:
                    pl = util.op_place(other[0])
                    o = b.origin(pl["l"], tuple(pl["p"]))
                    if pl["l"] in slice_locals or o in slice_origins or o[0] in slice_locals:
                        # Eq(x,0): nonzero when false; Ne/Gt/Lt(0,x): nonzero when true
                        nonzero_when = (s["op"] != "Eq")
        elif s["kind"] == "call" and (s["callee"] or "").endswith("::is_empty"):
            o = b.operand_origin(s["t"]["args"][0])
            if o is not None and (o in slice_origins or any(o[:1] == so[:1] and o[1][:len(so[1])] == so[1] or so[1][:len(o[1])] == o[1] for so in slice_origins if so[0] == o[0])):
                nonzero_when = False
        if nonzero_when is None:
            continue
        operand_value = (not nonzero_when) if s["negated"] else nonzero_when
        edges.append(rules.bool_switch_edge(b, sb, operand_value))
    if edges and b.edges_dominate(edges, bi):
        return True, "divisor tested non-zero on every path (%d guard edges)" % len(edges)
    return False, "no dominating non-zero test of the divisor; witness path %s" % b.witness_path(0, bi, avoid_edges=edges)


def run(ctx):
    ctx.level = "proof"
    ctx.decides = ("add_hash/contains_hash share get_probes and reach `bits` only via set_bit/get_bit (get/get_mut, identical >>3 / &7 decomposition); "
                   "every Div/Rem in sync::bloom has a constant non-zero or dominated-tested divisor; no BoundsCheck assert in the query path; "
                   "contains_hash returns false only under num_entries==0, bits.is_empty(), or a probed bit being 0.")
    ctx.not_decided = "probe-sequence arithmetic (x+y overflow needs a filter larger than 256 MiB and only panics in debug builds; reported as an inventory note), sizing in from_hashes, encode/decode value round-trip (C19)."
    ctx.rule("R15-share", "add_hash and contains_hash obtain probes from BloomFilter::get_probes and access bits only through set_bit / get_bit")
    ctx.rule("R15-access", "set_bit/get_bit use slice::get(_mut) (no indexing) with the same shift/mask constants")
    ctx.rule("R15-div", "every DivisionByZero/RemainderByZero assert in sync::bloom is discharged by a constant divisor or a dominating non-zero test")
    ctx.rule("R15-false", "contains_hash assigns `false` only under the enumerated conditions")
    f = ctx.facts()
    fns = {p: r for p, r in f.fns.items() if p.startswith(MOD) or ("automerge::sync::bloom::BloomFilter" in p and p.startswith("<"))}
    ctx.floor("functions in sync::bloom", len(fns), 10)
    add = ctx.body(BF + "add_hash")
    con = ctx.body(BF + "contains_hash")
    getp = ctx.body(BF + "get_probes")
    setb = ctx.body(BF + "set_bit")
    getb = ctx.body(BF + "get_bit")
    # --- share
    for name, b, acc in (("add_hash", add, BF + "set_bit"), ("contains_hash", con, BF + "get_bit")):
        clos = [cfg.body(r) for r in f.closures_of(b.path)]
        cs = [callee(t) for _, t in b.calls()]
        cs_all = cs + [callee(t) for cb_ in clos for _, t in cb_.calls()]
        ok = cs.count(BF + "get_probes") == 1 and acc in cs_all
        ctx.ob("R15-share", "%s|uses get_probes and %s" % (name, acc.split("::")[-1]), ok, b.rec["sp"], "calls: %s" % [c.split("::")[-1] for c in cs_all if c])
        # the probe passed to the accessor derives from get_probes' result
        for bi, t in b.calls():
            if callee(t) == acc:
                pv = b.provenance(t["args"][1])
                ok2 = BF + "get_probes" in {norm_fn(c) for c in pv.callees()}
                ctx.ob("R15-share", "%s|probe argument comes from get_probes" % name, ok2, t["sp"], "")
        # iterator form: the accessor is called in a closure handed to an adaptor over get_probes(..)
        for cb_ in clos:
            for bi, t in cb_.calls():
                if callee(t) == acc:
                    pv = cb_.provenance(t["args"][1])
                    from_item = any(i >= 2 for i, _ in pv.params)
                    fed = False
                    for ab, at in b.calls():
                        if any(g.startswith("{closure@") and g.split(":")[1] == cb_.rec["sp"].split(":")[1] for g in at.get("ga", [])):
                            rp = b.provenance(at["args"][0])
                            fed = fed or (BF + "get_probes") in {norm_fn(c) for c in rp.callees()}
                    ctx.ob("R15-share", "%s|probe argument comes from get_probes" % name, from_item and fed, t["sp"], "closure over the items of get_probes(..)")
        # no direct access to self.bits
        direct = []
        for bi, blk in enumerate(b.blocks):
            for s in blk["st"]:
                rv = s["rv"]
                if rv["k"] in ("Ref", "RawPtr") and ".bits" in rv["p"]["p"]:
                    # borrowing bits only to ask for its length / emptiness is not an element access
                    users = [t for _, t in b.calls() if any((util.op_place(a) or {}).get("l") == s["d"]["l"] for a in t["args"])]
                    if users and all((t.get("fn") or "").split("::")[-1] in ("is_empty", "len") for t in users):
                        continue
                    direct.append(s["sp"])
        ctx.ob("R15-share", "%s|no direct access to bits" % name, not direct, b.rec["sp"], "direct accesses: %s" % direct)
    # --- the probe count carried on the wire is honoured by the probe function
    reads = [s_["sp"] for blk in getp.blocks for s_ in blk["st"] for o in s_["rv"].get("o", ()) if (util.op_place(o) or {}).get("p") and ".num_probes" in util.op_place(o)["p"] and getp.origin(util.op_place(o)["l"], tuple(util.op_place(o)["p"]))[0] == 1]
    ctx.ob("R15-share", "get_probes|number of probes taken from self.num_probes", bool(reads), getp.rec["sp"], "reads of self.num_probes: %d" % len(reads) if reads else
           "get_probes never reads self.num_probes: a decoded filter's probe count is ignored, so members of a filter built with another count are reported absent")
    # --- access
    users_of_bits = []
    for p, r in fns.items():
        for bi, blk in enumerate(r["blocks"]):
            for s in blk["st"]:
                rv = s["rv"]
                if rv["k"] in ("Ref", "RawPtr") and ".bits" in rv["p"]["p"]:
                    users_of_bits.append(norm_fn(p))
    ctx.note("functions borrowing self.bits: %s" % sorted(set(users_of_bits)))
    for name, b, want in (("set_bit", setb, "core::slice::<impl [T]>::get_mut"), ("get_bit", getb, "core::slice::<impl [T]>::get")):
        cs = [(t.get("fn") or "") for _, t in b.calls()]
        idx = [c for c in cs if "Index" in c]
        asserts = [blk["t"]["msg"] for blk in b.blocks if blk["t"]["k"] == "assert" and blk["t"]["msg"] == "BoundsCheck"]
        ok = want in cs and not idx and not asserts
        ctx.ob("R15-access", "%s|bounds-tolerant access" % name, ok, b.rec["sp"], "calls %s; index calls %s; bounds asserts %d" % ([c.split("::")[-1] for c in cs], idx, len(asserts)))

    def shape(bodies):
        """byte/bit decomposition of the probe, normalised so that `>> k` == `/ 2^k` and `& (2^k-1)` == `% 2^k`"""
        out = []
        for b in bodies:
            for blk in b.blocks:
                for s in blk["st"]:
                    rv = s["rv"]
                    if rv["k"] != "Bin":
                        continue
                    op = rv["op"].replace("Unchecked", "")
                    cs = [(util.op_const(o) or {}).get("v") for o in rv["o"]]
                    if op == "Shr" and cs[1] is not None:
                        out.append(("div", 1 << int(cs[1])))
                    elif op == "Div" and cs[1] is not None:
                        out.append(("div", int(cs[1])))
                    elif op == "BitAnd" and any(c is not None and (int(c) + 1) & int(c) == 0 for c in cs):
                        c = [c for c in cs if c is not None][0]
                        out.append(("rem", int(c) + 1))
                    elif op == "Rem" and cs[1] is not None:
                        out.append(("rem", int(cs[1])))
                    elif op == "Shl" and cs[0] is not None:
                        out.append(("shl-of", int(cs[0])))
        return sorted(out)
    gshape = shape([getb] + [cfg.body(r) for r in f.closures_of(BF + "get_bit")])
    sshape = shape([setb] + [cfg.body(r) for r in f.closures_of(BF + "set_bit")])
    ctx.ob("R15-access", "set_bit/get_bit|same byte and bit decomposition", gshape == sshape and len(gshape) >= 3, setb.rec["sp"], "set_bit %s vs get_bit %s" % (sshape, gshape))
    # --- div/rem asserts in the whole module
    n = 0
    for p, r in sorted(fns.items()):
        b = cfg.body(r)
        ctx.analysed_fns.add(p)
        items = [(bi, blk["t"]) for bi, blk in enumerate(b.blocks) if blk["t"]["k"] == "assert" and blk["t"]["msg"] in ("DivisionByZero", "RemainderByZero") and not blk.get("cleanup")]
        for k, (bi, t) in util.ordinal_keys(items, lambda it: "%s|%s" % (norm_fn(p), it[1]["msg"])):
            n += 1
            ok, why = divisor_guarded(b, bi, t)
            ctx.ob("R15-div", k, ok, t["sp"], why)
    ctx.floor("Div/Rem-by-variable sites in sync::bloom", n, 5)
    # --- bounds checks in the query path (fixed-size array indexing with constants is fine)
    for name, b in (("get_probes", getp), ("contains_hash", con), ("add_hash", add)):
        items = [(bi, blk["t"]) for bi, blk in enumerate(b.blocks) if blk["t"]["k"] == "assert" and blk["t"]["msg"] == "BoundsCheck"]
        bad = []
        for bi, t in items:
            ln, ix = t["mo"]
            cl, ci = util.op_const(ln), None
            pl = util.op_place(ix)
            if pl is not None and not pl["p"]:
                d = b.single_def(pl["l"])
                if d and d[1] != "t" and d[2]["rv"]["k"] == "Use":
                    ci = util.op_const(d[2]["rv"]["o"][0])
            if not (cl and ci and cl.get("v") and ci.get("v") and int(ci["v"]) < int(cl["v"])):
                bad.append(t["sp"])
        ctx.ob("R15-access", "%s|array indexing is constant-in-range" % name, not bad, b.rec["sp"], "%d bounds checks, undischarged: %s" % (len(items), bad))
    # --- false returns of contains_hash
    allowed_edges = []
    for sb, sw in con.switches():
        if sw["ty"] != "bool":
            continue
        s = con.bool_operand_source(sw["op"])
        if not s:
            continue
        truth = None
        if s["kind"] == "bin" and s["op"] == "Eq":
            consts = [util.op_const(o) for o in s["o"]]
            other = [o for o, c in zip(s["o"], consts) if c is None]
            if any(c is not None and c.get("v") == "0" for c in consts) and other:
                o = con.operand_origin(other[0])
                pv = con.provenance(other[0])
                if (o and ".num_entries" in o[1]) or (BF + "get_bit") in {norm_fn(c) for c in pv.callees()}:
                    truth = True
        elif s["kind"] == "call" and (s["callee"] or "").endswith("::is_empty"):
            o = con.operand_origin(s["t"]["args"][0])
            if o and ".bits" in o[1]:
                truth = True
        if truth is None:
            continue
        allowed_edges.append(rules.bool_switch_edge(con, sb, (not truth) if s["negated"] else truth))
    falses = []
    n_all = 0
    for (bi, kind, rec) in util.ret_defs(con):
        if kind == "stmt" and rec["rv"]["k"] == "Use" and (util.op_const(rec["rv"]["o"][0]) or {}).get("v") == "0":
            falses.append((bi, rec))
        elif kind == "stmt" and rec["rv"]["k"] == "Use" and (util.op_const(rec["rv"]["o"][0]) or {}).get("v") == "1":
            pass
        elif kind == "call" and norm_fn(rec.get("fn")) in ("core::iter::traits::iterator::Iterator::all",):
            # iterator form: `get_probes(hash).into_iter().all(|probe| ..get_bit(probe)..)` — false only when the closure is false for a probe
            rp = con.provenance(rec["args"][0])
            over_probes = (BF + "get_probes") in {norm_fn(c) for c in rp.callees()}
            clos = [cfg.body(r) for r in f.closures_of(con.path)]
            tests_bit = any(callee(t) == BF + "get_bit" for cb_ in clos for _, t in cb_.calls())
            n_all += 1
            ctx.ob("R15-false", "contains_hash|all(probe bit set)", over_probes and tests_bit, rec.get("sp", ""), "all() over get_probes(..) with a closure that reads the bit through get_bit")
        else:
            ctx.ob("R15-false", "contains_hash|return value is a literal", False, rec.get("sp", ""), "unexpected computation of the result")
    ctx.floor("`false` results in contains_hash", len(falses) + n_all, 2)
    for k, (bi, rec) in util.ordinal_keys(falses, lambda x: "contains_hash|false"):
        ok = con.edges_dominate(allowed_edges, bi)
        ctx.ob("R15-false", k, ok, rec["sp"], "dominated by one of: num_entries==0, bits.is_empty(), probed bit==0" if ok else "returns false outside the enumerated conditions (would be a false negative)")
    # ---- a decoded filter keeps all the bits the sender wrote: the number of bytes taken from the wire is bits_capacity of the two
    # decoded parameters that are also stored in the filter (not of a library constant)
    ctx.rule("R15-size", "BloomFilter::parse: the operands of bits_capacity are the values stored into num_entries and num_bits_per_entry")
    pb = ctx.body(BF + "parse")
    caps = [(bi, t) for bi, t in pb.calls() if callee(t) == MOD + "bits_capacity"]
    ctx.floor("bits_capacity calls in BloomFilter::parse", len(caps), 1)
    stored = {}
    for blk in pb.blocks:
        for st in blk["st"]:
            rv = st["rv"]
            if rv["k"] == "Agg" and (rv.get("adt") or "").endswith("bloom::BloomFilter") and "num_entries" in rv.get("fields", []):
                for name in ("num_entries", "num_bits_per_entry"):
                    stored[name] = pb.operand_origin(rv["o"][rv["fields"].index(name)])
    for bi, t in caps:
        got = [pb.operand_origin(a) for a in t["args"][:2]]
        ok = bool(stored) and got == [stored.get("num_entries"), stored.get("num_bits_per_entry")] and None not in got
        ctx.ob("R15-size", "parse|bit array sized from the decoded entries and bits-per-entry", ok, t["sp"], "bits_capacity(num_entries, num_bits_per_entry) of the decoded values" if ok else
               "the number of bytes read for the bit array is not computed from the decoded (and stored) parameters: a filter written with other parameters is truncated, i.e. members test absent")
