"""R4: error-after-mutation analysis (bottom-up summaries over a set of functions)."""
from . import cfg, util
from .util import norm_fn, callee


def err_exits(b):
    """[(block, origin_call_block or None)]: blocks that set the return value to Err; origin = the call whose own error is propagated"""
    out = []
    for bi, blk in enumerate(b.blocks):
        if blk.get("cleanup") or bi not in b.live_blocks():
            continue
        for s in blk["st"]:
            if s["d"]["l"] == 0 and not s["d"]["p"] and util.is_err_agg(s["rv"]):
                out.append((bi, None))       # an error constructed here, not propagated from a callee
        t = blk["t"]
        if t["k"] == "call" and t["dst"]["l"] == 0 and util.is_from_residual(t):
            pv = b.provenance(t["args"][0], through_calls=False, follow=cfg.TRANSPARENT)
            out.append((bi, _origin_call(b, pv)))
    return out


def _origin_call(b, pv):
    if pv is None:
        return None
    cands = [cb for (c, cb) in pv.calls if (b.blocks[cb]["t"].get("fn") or "") not in cfg.TRANSPARENT]
    return cands[0] if len(cands) == 1 else None


def _descr(b, a, depth=0):
    """structural description of an operand: constants by value, places by origin, results of calls by (callee, described args)"""
    k = util.op_const(a)
    if k is not None:
        return ("c", str(k.get("v") or k.get("def") or k.get("fn") or k.get("ty")))
    o = b.operand_origin(a)
    if o is None:
        return ("?",)
    base, proj = o
    if not (1 <= base <= b.argc) and depth < 4:
        d = b.single_def(base)
        if d and d[1] == "t":
            t = d[2]
            return ("call", norm_fn(t.get("res") or t.get("fn")), tuple(_descr(b, x, depth + 1) for x in t["args"]), proj)
        if d and d[1] != "t" and d[2]["rv"]["k"] == "Agg" and d[2]["rv"].get("ak") == "adt":
            rv = d[2]["rv"]
            return ("agg", rv["adt"], rv["variant"], tuple(_descr(b, x, depth + 1) for x in rv["o"]), proj)
    return ("p", base, proj)


def _arg_origins(b, t):
    return [_descr(b, a) for a in t["args"]]


class Eam:
    def __init__(self, facts, fns, primitives, extra_mut=None):
        """fns: dict path->record of the functions in scope; primitives: set of normalised callee names that mutate;
        extra_mut(b, bi, t) -> description or None for additional mutation sites (e.g. pending.push)"""
        self.f = facts
        self.fns = fns
        self.prim = primitives
        self.extra = extra_mut
        self.M = {}
        self.pairs = {}       # path -> list of (mut block, what, err block, kind)
        self.EAM = set()
        self._solve()

    def may_fail(self, path, depth=0):
        """can this function return Err? unknown / external functions are assumed fallible"""
        memo = self.__dict__.setdefault("_mf", {})
        if path in memo:
            return memo[path]
        r = self.f.fns.get(path)
        if r is None or depth > 8:
            return True
        if not r["locals"][0]["ty"].startswith("core::result::Result"):
            memo[path] = False
            return False
        memo[path] = True      # recursion guard: assume fallible while computing
        b = cfg.body(r)
        res = False
        if err_exits(b):
            res = True
        else:
            for (bi, kind, rec) in util.ret_defs(b):
                if kind == "call":
                    tgt = rec.get("res") or rec.get("fn")
                    if self.may_fail(tgt, depth + 1):
                        res = True
                elif not util.is_ok_agg(rec["rv"]):
                    res = True
        memo[path] = res
        return res

    def _calls_fallible(self, path):
        """does `path` call anything that returns a Result it then propagates (cheap check: any from_residual)?"""
        r = self.f.fns.get(path)
        return any(blk["t"]["k"] == "call" and util.is_from_residual(blk["t"]) for blk in r["blocks"]) if r else True

    def _prevalidated(self, b, origin, mb):
        """an identical call (same callee, same argument origins) dominates the mutation and its error exits"""
        ot = b.blocks[origin]["t"]
        key = (ot.get("res") or ot.get("fn"), tuple(map(str, _arg_origins(b, ot))))
        for bi, t in b.calls():
            if bi == origin:
                continue
            if (t.get("res") or t.get("fn"), tuple(map(str, _arg_origins(b, t)))) == key and b.block_dominates(bi, mb) and not b.can_reach(mb, bi):
                return True
        return False

    def mut_sites(self, p, Mset):
        b = cfg.body(self.fns[p])
        out = []
        for bi, t in b.calls():
            c = callee(t)
            tgt = t.get("res") or t.get("fn")
            if c in self.prim:
                out.append((bi, c, "prim"))
            elif self.extra and self.extra(b, bi, t):
                out.append((bi, self.extra(b, bi, t), "prim"))
            elif tgt in Mset:
                out.append((bi, norm_fn(tgt), "callee"))
        return out

    def _solve(self):
        Mset = set()
        changed = True
        while changed:
            changed = False
            for p in self.fns:
                if p in Mset:
                    continue
                if self.mut_sites(p, Mset):
                    Mset.add(p)
                    changed = True
        self.Mset = Mset
        changed = True
        while changed:
            changed = False
            for p in Mset:
                b = cfg.body(self.fns[p])
                errs = err_exits(b)
                found = []
                for (mb, what, kind) in self.mut_sites(p, Mset):
                    tgt = b.blocks[mb]["t"].get("res") or b.blocks[mb]["t"].get("fn")
                    for (eb, origin) in errs:
                        if eb == mb or not b.can_reach(mb, eb):
                            continue
                        oname = "explicit Err"
                        if origin is not None:
                            ot = b.blocks[origin]["t"]
                            otgt = ot.get("res") or ot.get("fn")
                            oname = norm_fn(otgt) or "?"
                        if origin == mb:
                            # the mutating callee's own error: only an error-after-mutation if the callee has one
                            if kind == "callee" and tgt in self.EAM:
                                found.append((mb, what, eb, "inherited", oname))
                            continue
                        if origin is not None:
                            # (a) the callee whose error is propagated cannot fail
                            if not self.may_fail(otgt):
                                continue
                            # (b) the same query was already evaluated successfully before the mutation
                            if self._prevalidated(b, origin, mb):
                                continue
                            # (c) a mutating callee that failed without an error-after-mutation of its own left nothing behind;
                            #     what matters is the *earlier* mutation mb, which is what we report
                        found.append((mb, what, eb, "own", oname))
                if found and p not in self.EAM:
                    self.EAM.add(p)
                    changed = True
                self.pairs[p] = found
