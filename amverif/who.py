"""Developer aid: list callers of functions matching a substring. usage: python3 -m amverif.who <substr>"""
import sys, os
from . import facts, util
f = facts.load()
cs = f.callers()
for c in sorted(cs):
    if sys.argv[1] in c:
        print(c)
        for p, bi in sorted(set(cs[c])):
            print("    <-", p, f.fns[p]["blocks"][bi]["t"].get("sp", ""))
sys.stdout.flush(); os._exit(0)
