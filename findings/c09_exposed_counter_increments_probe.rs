use automerge::transaction::Transactable;
use automerge::{ActorId, AutoCommit, PatchLog, ReadDoc, ScalarValue, TextEncoding, ROOT, ObjType};

const ENC: TextEncoding = TextEncoding::UnicodeCodePoint;

fn check(target: &mut AutoCommit, incoming: &mut AutoCommit) {
    let mut logged_target = target.document().clone();
    let mut logged_in = incoming.document().clone();
    let mut actual = logged_target.hydrate(None);
    let mut patch_log = PatchLog::active();
    logged_target.merge_and_log_patches(&mut logged_in, &mut patch_log).unwrap();
    let expected = logged_target.hydrate(None);
    let patches = logged_target.make_patches(&mut patch_log);
    actual.apply_patches(ENC, patches.clone()).unwrap_or_else(|e| panic!("{e:?} {patches:#?}"));
    assert_eq!(actual, expected, "{patches:#?}");
}

#[test]
fn exposed_losing_counter_in_map_keeps_increments() {
    let mut a = AutoCommit::new_with_encoding(ENC).with_actor(ActorId::from(vec![1]));
    a.put(ROOT, "o", 0).unwrap(); a.commit();
    let mut b = a.fork().with_actor(ActorId::from(vec![2]));
    a.put(ROOT, "k", ScalarValue::counter(10)).unwrap(); a.commit();
    b.put(ROOT, "k", "winner").unwrap(); b.commit();
    a.increment(ROOT, "k", 5).unwrap(); a.commit();
    a.merge(&mut b).unwrap();
    // b deletes its own value only
    b.delete(ROOT, "k").unwrap(); b.commit();
    check(&mut a, &mut b);
}

#[test]
fn exposed_losing_counter_in_list_keeps_increments() {
    let mut a = AutoCommit::new_with_encoding(ENC).with_actor(ActorId::from(vec![1]));
    let l = a.put_object(ROOT, "l", ObjType::List).unwrap();
    a.insert(&l, 0, 0).unwrap(); a.commit();
    let mut b = a.fork().with_actor(ActorId::from(vec![2]));
    a.put(&l, 0, ScalarValue::counter(10)).unwrap(); a.commit();
    b.put(&l, 0, "winner").unwrap(); b.commit();
    a.increment(&l, 0, 5).unwrap(); a.commit();
    a.merge(&mut b).unwrap();
    b.put(&l, 0, "w2").unwrap(); b.commit();
    let mut c = b.fork();
    c.delete(&l, 0).unwrap(); c.commit();
    check(&mut a, &mut b);
}

#[test]
fn remote_increment_of_losing_counter() {
    let mut a = AutoCommit::new_with_encoding(ENC).with_actor(ActorId::from(vec![1]));
    a.put(ROOT, "o", 0).unwrap(); a.commit();
    let mut b = a.fork().with_actor(ActorId::from(vec![2]));
    a.put(ROOT, "k", ScalarValue::counter(10)).unwrap(); a.commit();
    b.put(ROOT, "k", "winner").unwrap(); b.commit();
    let mut a2 = a.fork().with_actor(ActorId::from(vec![3]));
    a.merge(&mut b).unwrap();
    a2.increment(ROOT, "k", 7).unwrap(); a2.commit();
    check(&mut a, &mut a2);
}

#[test]
fn exposed_losing_counter_in_list_after_winner_deleted() {
    let mut a = AutoCommit::new_with_encoding(ENC).with_actor(ActorId::from(vec![1]));
    let l = a.put_object(ROOT, "l", ObjType::List).unwrap();
    a.insert(&l, 0, 0).unwrap(); a.commit();
    let mut b = a.fork().with_actor(ActorId::from(vec![2]));
    a.put(&l, 0, ScalarValue::counter(10)).unwrap(); a.commit();
    b.put(&l, 0, "winner").unwrap(); b.commit();
    a.increment(&l, 0, 5).unwrap(); a.commit();
    a.merge(&mut b).unwrap();
    // b overwrites its own value with another, then we merge: winner changes, counter stays a loser
    b.put(&l, 0, "w2").unwrap(); b.commit();
    check(&mut a, &mut b);
}

