use automerge::{transaction::Transactable, AutoCommit, ObjType, ReadDoc, ROOT, iter::Span, TextEncoding, hydrate_map};

fn shape(doc: &AutoCommit, t: &automerge::ObjId) -> Vec<String> {
    doc.spans(t).unwrap().map(|s| match s { Span::Text{text, ..} => text.to_string(), Span::Block(_) => "<B>".to_string() }).collect()
}

fn run(enc: TextEncoding) -> Vec<String> {
    let mut doc = AutoCommit::new_with_encoding(enc);
    let t = doc.put_object(ROOT, "t", ObjType::Text).unwrap();
    doc.splice_text(&t, 0, 0, "ab").unwrap();
    let _b = doc.split_block(&t, 1).unwrap();
    doc.commit();
    let before = shape(&doc, &t);
    assert_eq!(before, vec!["a", "<B>", "b"]);
    doc.update_spans(&t, automerge::marks::UpdateSpansConfig::default(), [
        Span::Text { text: "a".into(), marks: None },
        Span::Block(hydrate_map!{}),
        Span::Text { text: "bc".into(), marks: None },
    ]).unwrap();
    shape(&doc, &t)
}

#[test]
fn update_spans_after_block_codepoints() { assert_eq!(run(TextEncoding::UnicodeCodePoint), vec!["a", "<B>", "bc"]); }
#[test]
fn update_spans_after_block_utf8() { assert_eq!(run(TextEncoding::Utf8CodeUnit), vec!["a", "<B>", "bc"]); }
#[test]
fn update_spans_after_block_utf16() { assert_eq!(run(TextEncoding::Utf16CodeUnit), vec!["a", "<B>", "bc"]); }
