use automerge::{marks::{ExpandMark, Mark}, transaction::Transactable, AutoCommit, ObjType, ReadDoc, ROOT};
#[test]
fn failed_mark_leaves_nothing_pending() {
    let mut doc = AutoCommit::new();
    let t = doc.put_object(&ROOT, "t", ObjType::Text).unwrap();
    doc.splice_text(&t, 0, 0, "abc").unwrap();
    doc.commit();
    let before = doc.save();
    let r = doc.mark(&t, Mark::new("bold".to_string(), true, 1, 100), ExpandMark::Both);
    println!("RESULT {:?} pending {}", r.is_err(), doc.pending_ops());
    assert!(r.is_err());
    assert_eq!(doc.pending_ops(), 0);
    assert_eq!(doc.save(), before);
}
