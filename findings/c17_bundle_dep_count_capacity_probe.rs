// C17/C15 probe: a bundle whose dep-count column announces 2^62 dependencies for a change
use automerge::{transaction::Transactable, AutoCommit, Automerge, ROOT};
use sha2::{Digest, Sha256};
fn leb(mut v: u64, out: &mut Vec<u8>) { loop { let b = (v & 0x7f) as u8; v >>= 7; if v == 0 { out.push(b); break; } out.push(b | 0x80); } }
fn rd(b: &[u8], p: &mut usize) -> u64 { let mut v = 0u64; let mut s = 0; loop { let x = b[*p]; *p += 1; v |= ((x & 0x7f) as u64) << s; s += 7; if x & 0x80 == 0 { return v; } } }
fn craft(spec_target: u64, newcol: Vec<u8>) -> Vec<u8> {
    let mut d = AutoCommit::new();
    d.put(&ROOT, "k", 1).unwrap(); d.commit();
    d.put(&ROOT, "k", 2).unwrap(); d.commit();
    let hashes: Vec<_> = d.get_changes(&[]).iter().map(|c| c.hash()).collect();
    let bytes = d.document().bundle(hashes).unwrap().bytes().to_vec();
    let mut p = 8; let ty = bytes[p]; p += 1; let _len = rd(&bytes, &mut p); let body_start = p;
    let nd = rd(&bytes, &mut p); p += 32 * nd as usize;
    let na = rd(&bytes, &mut p); for _ in 0..na { let l = rd(&bytes, &mut p) as usize; p += l; }
    let cm_start = p; let nc = rd(&bytes, &mut p); let mut ccols = vec![]; for _ in 0..nc { let spec = rd(&bytes, &mut p); let l = rd(&bytes, &mut p); ccols.push((spec, l)); }
    let cm_end = p;
    eprintln!("   change cols {:?}", ccols);
    let mut off = cm_end; let mut target = None;
    for (i, (s, l)) in ccols.iter().enumerate() { if *s == spec_target { target = Some((i, off, *l as usize)); } off += *l as usize; }
    let (ti, toff, tlen) = target.expect("column present");
    eprintln!("   old column bytes {:02x?}", &bytes[toff..toff + tlen]);
    let mut meta = vec![]; leb(nc, &mut meta); for (i, (s, l)) in ccols.iter().enumerate() { leb(*s, &mut meta); leb(if i == ti { newcol.len() as u64 } else { *l }, &mut meta); }
    let mut body = vec![]; body.extend(&bytes[body_start..cm_start]); body.extend(&meta); body.extend(&bytes[cm_end..toff]); body.extend(&newcol); body.extend(&bytes[toff + tlen..]);
    let mut out = vec![0x85, 0x6f, 0x4a, 0x83, 0, 0, 0, 0, ty]; leb(body.len() as u64, &mut out); let hdr = out.len(); out.extend(&body);
    let mut h = Sha256::new(); h.update(&out[8..hdr]); h.update(&body); let dg = h.finalize(); out[4..8].copy_from_slice(&dg[0..4]);
    out
}
#[test]
fn depcount() {
    let mut col = vec![0x02u8]; leb(1u64 << 62, &mut col);
    let b = craft(0x50, col);
    let r = std::panic::catch_unwind(|| { let mut d = Automerge::new(); d.load_incremental(&b).map(|_| ()) });
    eprintln!("DEPCOUNT 2^62 -> {:?}", r.as_ref().map_err(|e| e.downcast_ref::<String>().cloned().or(e.downcast_ref::<&str>().map(|s| s.to_string()))));
}
