use automerge::{transaction::Transactable, AutoCommit, ObjType, ReadDoc, ROOT};
#[test]
fn table_objects_work() {
    let mut doc = AutoCommit::new();
    let t = doc.put_object(&ROOT, "t", ObjType::Table).unwrap();
    println!("TYPE {:?}", doc.object_type(&t));
    let r = doc.put(&t, "k", 1);
    println!("PUT {:?}", r);
    let saved = doc.save();
    let d2 = AutoCommit::load(&saved).unwrap();
    println!("TYPE2 {:?} keys {:?}", d2.object_type(&t), d2.keys(&t).collect::<Vec<_>>());
    let mut d3 = doc.fork();
    d3.put(&t, "j", 2).unwrap();
    doc.merge(&mut d3).unwrap();
    println!("KEYS3 {:?} hydrate {:?}", doc.keys(&t).collect::<Vec<_>>(), doc.document().hydrate(None));
    r.unwrap();
}
