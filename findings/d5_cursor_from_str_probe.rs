use automerge::Cursor;
#[test]
fn odd_cursor_strings_are_errors() {
    for s in ["", "é@aa", "-", "@", "-@", "ü", "1@", "-1@zz"] {
        let r = std::panic::catch_unwind(|| Cursor::try_from(s).is_ok());
        println!("{:?} -> {:?}", s, r.as_ref().map_err(|_| "PANIC"));
        assert!(r.is_ok(), "panicked on {:?}", s);
    }
    assert!(Cursor::try_from("-3@aabb").is_ok());
    assert!(Cursor::try_from("3@aabb").is_ok());
    assert_eq!(Cursor::try_from("-3@aabb").unwrap().to_string(), "-3@aabb");
}
