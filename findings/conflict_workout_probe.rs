use automerge::{transaction::Transactable, ActorId, AutoCommit, ObjType, ReadDoc, ScalarValue, ROOT, MoveCursor};

fn actors() -> Vec<ActorId> { vec![ActorId::from([1u8;16]), ActorId::from([5u8;16]), ActorId::from([9u8;16])] }

fn workout(order: [usize;3]) {
    let a = actors();
    let mut base = AutoCommit::new().with_actor(a[order[0]].clone());
    let list = base.put_object(ROOT, "l", ObjType::List).unwrap();
    let text = base.put_object(ROOT, "t", ObjType::Text).unwrap();
    let map = base.put_object(ROOT, "m", ObjType::Map).unwrap();
    for i in 0..4 { base.insert(&list, i, i as i64).unwrap(); }
    base.splice_text(&text, 0, 0, "hello").unwrap();
    base.put(&map, "k", 1).unwrap();
    base.commit();
    let mut x = base.fork().with_actor(a[order[1]].clone());
    let mut y = base.fork().with_actor(a[order[2]].clone());
    // conflicting edits
    x.put(&list, 1, "x1").unwrap(); y.put(&list, 1, "y1").unwrap();
    x.put(&list, 2, ScalarValue::counter(5)).unwrap(); y.delete(&list, 2).unwrap();
    x.put(&map, "k", "xk").unwrap(); y.put_object(&map, "k", ObjType::Map).unwrap();
    x.splice_text(&text, 1, 1, "E").unwrap(); y.splice_text(&text, 1, 2, "").unwrap();
    x.mark(&text, automerge::marks::Mark::new("b".into(), true, 0, 3), automerge::marks::ExpandMark::Both).unwrap();
    y.mark(&text, automerge::marks::Mark::new("b".into(), false, 1, 3), automerge::marks::ExpandMark::None).unwrap();
    x.commit(); y.commit();
    let cur_after: Vec<_> = (0..4).map(|i| x.get_cursor(&list, i, None).unwrap()).collect();
    let cur_before: Vec<_> = (0..4).map(|i| x.get_cursor_moving(&list, i, None, MoveCursor::Before).unwrap()).collect();
    let tcur: Vec<_> = (0..x.length(&text)).map(|i| x.get_cursor_moving(&text, i, None, MoveCursor::Before).unwrap()).collect();
    let h_before = x.get_heads();
    x.merge(&mut y).unwrap();
    let heads = x.get_heads();
    for hs in [None, Some(&heads[..]), Some(&h_before[..])] {
        let n = match hs { None => x.length(&list), Some(h) => x.length_at(&list, h) };
        for i in 0..n {
            let _ = match hs { None => x.get(&list, i), Some(h) => x.get_at(&list, i, h) }.unwrap();
            let _ = match hs { None => x.get_all(&list, i), Some(h) => x.get_all_at(&list, i, h) }.unwrap();
        }
        for c in cur_after.iter().chain(cur_before.iter()) {
            let p = x.get_cursor_position(&list, c, hs).unwrap();
            assert!(p <= n, "cursor position {} beyond length {}", p, n);
        }
        let tn = match hs { None => x.length(&text), Some(h) => x.length_at(&text, h) };
        for c in &tcur { let p = x.get_cursor_position(&text, c, hs).unwrap(); assert!(p <= tn); }
        let _ = match hs { None => x.marks(&text), Some(h) => x.marks_at(&text, h) }.unwrap();
        let _ = match hs { None => x.text(&text), Some(h) => x.text_at(&text, h) }.unwrap();
        let _ = x.hydrate(&ROOT, hs);
    }
    // consistency between reads
    let n = x.length(&list);
    assert_eq!(x.list_range(&list, ..).count(), n);
    assert_eq!(x.text(&text).unwrap().chars().count(), x.length(&text));
    // edits on conflicted elements
    let saved = x.save();
    let mut z = AutoCommit::load(&saved).unwrap();
    assert_eq!(z.hydrate(&ROOT, None), x.hydrate(&ROOT, None));
    for i in (0..z.length(&list)).rev() { z.put(&list, i, "z").unwrap(); }
    z.delete(&list, 0).unwrap();
    z.put(&map, "k", 3).unwrap();
    z.splice_text(&text, 0, z.length(&text) as isize, "done").unwrap();
    z.commit();
    assert_eq!(z.text(&text).unwrap(), "done");
    let mut w = AutoCommit::load(&z.save()).unwrap();
    assert_eq!(w.hydrate(&ROOT, None), z.hydrate(&ROOT, None));
    x.merge(&mut z).unwrap();
    assert_eq!(x.hydrate(&ROOT, None), z.hydrate(&ROOT, None));
    let _ = w.get_heads();
}

#[test] fn o012() { workout([0,1,2]); }
#[test] fn o021() { workout([0,2,1]); }
#[test] fn o102() { workout([1,0,2]); }
#[test] fn o120() { workout([1,2,0]); }
#[test] fn o201() { workout([2,0,1]); }
#[test] fn o210() { workout([2,1,0]); }
