use automerge::transaction::Transactable;
use automerge::{ActorId, AutoCommit, PatchLog, ReadDoc, ScalarValue, TextEncoding, ROOT, ObjType};

const ENC: TextEncoding = TextEncoding::UnicodeCodePoint;

fn check(target: &mut AutoCommit, incoming: &mut AutoCommit) {
    let mut logged_target = target.document().clone();
    let mut logged_in = incoming.document().clone();
    let mut actual = logged_target.hydrate(None);
    let mut patch_log = PatchLog::active();
    logged_target.merge_and_log_patches(&mut logged_in, &mut patch_log).unwrap();
    let expected = logged_target.hydrate(None);
    let patches = logged_target.make_patches(&mut patch_log);
    actual.apply_patches(ENC, patches.clone()).unwrap_or_else(|e| panic!("{e:?} {patches:#?}"));
    assert_eq!(actual, expected, "{patches:#?}");
}

#[test]
fn increment_then_expose_in_one_merge() {
    let mut a = AutoCommit::new_with_encoding(ENC).with_actor(ActorId::from(vec![1]));
    a.put(ROOT, "o", 0).unwrap(); a.commit();
    let mut b = a.fork().with_actor(ActorId::from(vec![2]));
    a.put(ROOT, "k", ScalarValue::counter(10)).unwrap(); a.commit();
    a.increment(ROOT, "k", 1).unwrap(); a.commit();
    b.put(ROOT, "k", "winner").unwrap(); b.commit();
    let mut c = a.fork().with_actor(ActorId::from(vec![3]));
    a.merge(&mut b).unwrap();
    c.merge(&mut b).unwrap();
    c.increment(ROOT, "k", 2).unwrap_or(());
    c.commit();
    b.delete(ROOT, "k").unwrap(); b.commit();
    c.merge(&mut b).unwrap();
    check(&mut a, &mut c);
}
