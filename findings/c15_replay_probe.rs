use automerge::{sync::{self, SyncDoc}, Automerge, Change, ReadDoc, ROOT, transaction::Transactable};
use std::io::BufRead;
#[test]
fn replay() {
    std::panic::set_hook(Box::new(|info| {
        let bt = std::backtrace::Backtrace::force_capture().to_string();
        let mut frames = vec![];
        let mut lines = bt.lines().peekable();
        while let Some(l) = lines.next() {
            let l = l.trim();
            if let Some(idx) = l.find(": ") {
                let name = &l[idx + 2..];
                if name.starts_with("automerge") || name.starts_with("hexane") || name.starts_with("<automerge") || name.starts_with("<hexane") {
                    let at = lines.peek().map(|s| s.trim().to_string()).unwrap_or_default();
                    frames.push(format!("{} {}", name, at.rsplit('/').next().unwrap_or("")));
                }
            }
        }
        frames.truncate(9);
        eprintln!("PANIC {} \n    {}", info.to_string().replace('\n', " "), frames.join("\n    "));
    }));
    for file in ["/verif/findings/d7c_panic_sites.tsv"] {
        let f = std::io::BufReader::new(std::fs::File::open(file).unwrap());
        for line in f.lines() {
            let line = line.unwrap();
            let cols: Vec<&str> = line.split('\t').collect();
            if cols.len() < 3 || cols[0].contains("HANG") { continue; }
            let name = cols[0].split(" :: ").next().unwrap().to_string();
            let bytes = match hex::decode(cols[2].trim()) { Ok(b) => b, Err(_) => continue };
            eprintln!("=== {} [{}]", cols[0], file.rsplit('/').next().unwrap());
            let _ = std::panic::catch_unwind(std::panic::AssertUnwindSafe(|| {
                let n = name.as_str();
                if n.starts_with("load(nocompress)") { return; }
                if n.starts_with("load_incr") { let mut d = Automerge::new(); if d.load_incremental(&bytes).is_ok() { exercise(&d); } }
                else if n.starts_with("load") { let _ = Automerge::load(&bytes); }
                else if n.starts_with("Change") { if let Ok(c) = Change::from_bytes(bytes.clone()) { let mut d = Automerge::new(); let _ = d.apply_changes([c]); } }
                else if n.starts_with("sync") { if let Ok(m) = sync::Message::decode(&bytes) { let mut d = Automerge::new(); let mut s = sync::State::new(); let _ = d.receive_sync_message(&mut s, m); let _ = d.generate_sync_message(&mut s); } }
                else if false {}
                else { eprintln!("(unknown stage {})", n); }
            }));
        }
    }
}

fn exercise(d: &Automerge) {
    let _ = d.save();
    let _ = d.get_changes(&[]);
    let _ = d.get_heads();
    let _ = serde_json::to_string(&automerge::AutoSerde::from(d));
    for k in d.keys(ROOT) { let _ = d.get_all(ROOT, k.as_str()); }
    for (_, id) in d.values(ROOT) .collect::<Vec<_>>() { let _ = d.text(&id); let _ = d.marks(&id); let _ = d.length(&id); let _ = d.list_range(&id, ..).count(); }
    let mut f = d.fork();
    let _ = f.transact::<_, _, automerge::AutomergeError>(|tx| { tx.put(ROOT, "zz", 1)?; Ok(()) });
    let _ = f.save();
}
