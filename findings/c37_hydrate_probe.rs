use automerge::{hydrate, marks::{ExpandMark, Mark}, transaction::Transactable, AutoCommit, ObjType, Patch, PatchAction, Prop, ReadDoc, ROOT};
fn try_it(name: &str, f: impl FnOnce() + std::panic::UnwindSafe) {
    match std::panic::catch_unwind(f) { Ok(()) => eprintln!("HYD {} -> ok", name), Err(e) => eprintln!("HYD {} -> PANIC {:?}", name, e.downcast_ref::<String>().cloned().or(e.downcast_ref::<&str>().map(|s| s.to_string()))) }
}
#[test]
fn hyd() {
    // 1. patches the library itself produced (a mark on a text) applied to the hydrated value of the earlier state
    try_it("library Mark patch on hydrated text", || {
        let mut d = AutoCommit::new();
        let t = d.put_object(&ROOT, "t", ObjType::Text).unwrap();
        d.splice_text(&t, 0, 0, "hello world").unwrap();
        d.commit();
        let before = d.get_heads();
        let mut h = d.hydrate(&ROOT, None).unwrap();
        d.mark(&t, Mark::new("bold".into(), true, 0, 5), ExpandMark::Both).unwrap();
        d.commit();
        let after = d.get_heads();
        let patches = d.diff(&before, &after);
        eprintln!("   patches: {:?}", patches.iter().map(|p| format!("{:?}", p.action).chars().take(40).collect::<String>()).collect::<Vec<_>>());
        let r = h.apply_patches(d.text_encoding(), patches);
        eprintln!("   result {:?}", r);
    });
    // 2. out-of-range patches against a hydrated list
    try_it("DeleteSeq past the end of a hydrated list", || {
        let mut d = AutoCommit::new();
        let l = d.put_object(&ROOT, "l", ObjType::List).unwrap();
        d.insert(&l, 0, 1).unwrap();
        let mut h = d.hydrate(&ROOT, None).unwrap();
        let (_, lid) = d.get(&ROOT, "l").unwrap().unwrap();
        let p = Patch { obj: lid.clone(), path: vec![(ROOT, Prop::Map("l".into()))], action: PatchAction::DeleteSeq { index: 5, length: 2 } };
        let r = h.apply_patches(d.text_encoding(), vec![p]);
        eprintln!("   result {:?}", r);
    });
    try_it("Insert past the end of a hydrated list", || {
        let mut d = AutoCommit::new();
        let l = d.put_object(&ROOT, "l", ObjType::List).unwrap();
        d.insert(&l, 0, 1).unwrap();
        d.commit();
        let before = d.get_heads();
        d.insert(&l, 1, 2).unwrap(); d.insert(&l, 2, 3).unwrap();
        d.commit();
        let mid = d.get_heads();
        d.insert(&l, 3, 4).unwrap();
        d.commit();
        let after = d.get_heads();
        // hydrate at `before`, apply the patches mid->after (stale: skips a step)
        let mut h = d.hydrate(&ROOT, Some(&before)).unwrap();
        let patches = d.diff(&mid, &after);
        let r = h.apply_patches(d.text_encoding(), patches);
        eprintln!("   result {:?}", r);
    });
    try_it("DeleteSeq past the end of hydrated text", || {
        let mut d = AutoCommit::new();
        let t = d.put_object(&ROOT, "t", ObjType::Text).unwrap();
        d.splice_text(&t, 0, 0, "abc").unwrap();
        let mut h = d.hydrate(&ROOT, None).unwrap();
        let p = Patch { obj: t.clone(), path: vec![(ROOT, Prop::Map("t".into()))], action: PatchAction::DeleteSeq { index: 10, length: 2 } };
        let r = h.apply_patches(d.text_encoding(), vec![p]);
        eprintln!("   result {:?}", r);
    });
}
