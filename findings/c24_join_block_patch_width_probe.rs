use automerge::{transaction::Transactable, AutoCommit, ObjType, ReadDoc, ROOT, TextEncoding};

fn run(enc: TextEncoding) {
    let mut doc = AutoCommit::new_with_encoding(enc);
    let t = doc.put_object(ROOT, "t", ObjType::Text).unwrap();
    doc.splice_text(&t, 0, 0, "ab").unwrap();
    let _b = doc.split_block(&t, 1).unwrap();
    doc.commit();
    doc.update_diff_cursor();
    let mut view = doc.hydrate(&ROOT, None).unwrap();
    let width = doc.length(&t);
    assert!(width >= 3);
    doc.join_block(&t, 1).unwrap();
    doc.commit();
    let patches = doc.diff_incremental();
    for p in &patches { println!("{:?}", p.action); }
    view.apply_patches(enc, patches).unwrap();
    assert_eq!(view, doc.hydrate(&ROOT, None).unwrap());
}
#[test] fn cp() { run(TextEncoding::UnicodeCodePoint); }
#[test] fn utf8() { run(TextEncoding::Utf8CodeUnit); }
#[test] fn utf16() { run(TextEncoding::Utf16CodeUnit); }
