use automerge::{marks::{ExpandMark, Mark}, transaction::Transactable, ActorId, AutoCommit, Automerge, ObjType, ReadDoc, ROOT};
#[test]
fn rollback_new_actor_with_marks() {
    let mut d = AutoCommit::new().with_actor(ActorId::from(vec![9u8; 4]));
    let t = d.put_object(&ROOT, "t", ObjType::Text).unwrap();
    d.splice_text(&t, 0, 0, "hello world").unwrap();
    d.mark(&t, Mark::new("bold".into(), true, 0, 5), ExpandMark::Both).unwrap();
    d.commit();
    let mut doc: Automerge = d.document().clone();
    let before_marks = doc.marks(&t).unwrap();
    let before_spans = format!("{:?}", doc.spans(&t).unwrap().collect::<Vec<_>>());
    let before_save = doc.save();
    // a new actor that sorts before the existing one starts a transaction and rolls it back
    doc.set_actor(ActorId::from(vec![1u8; 4]));
    let mut tx = doc.transaction();
    tx.put(ROOT, "x", 1).unwrap();
    tx.rollback();
    let after_marks = std::panic::catch_unwind(std::panic::AssertUnwindSafe(|| doc.marks(&t).unwrap()));
    eprintln!("C28 before {:?}", before_marks);
    eprintln!("C28 after  {:?}", after_marks);
    let after_spans = std::panic::catch_unwind(std::panic::AssertUnwindSafe(|| format!("{:?}", doc.spans(&t).unwrap().collect::<Vec<_>>())));
    eprintln!("C28 spans equal: {:?}", after_spans.as_ref().map(|s| *s == before_spans));
    eprintln!("C28 save equal: {}", doc.save() == before_save);
    let heads = doc.get_heads();
    let clean0 = Automerge::load(&before_save).unwrap();
    eprintln!("C28 marks_at(heads) after rollback: {:?}", std::panic::catch_unwind(std::panic::AssertUnwindSafe(|| doc.marks_at(&t, &heads))));
    eprintln!("C28 marks_at(heads) clean copy    : {:?}", clean0.marks_at(&t, &heads));
    eprintln!("C28 spans_at equal: {:?}", std::panic::catch_unwind(std::panic::AssertUnwindSafe(|| format!("{:?}", doc.spans_at(&t, &heads).unwrap().collect::<Vec<_>>()) == format!("{:?}", clean0.spans_at(&t, &heads).unwrap().collect::<Vec<_>>()))));
    eprintln!("C28 get_marks(3) after: {:?} clean: {:?}", std::panic::catch_unwind(std::panic::AssertUnwindSafe(|| doc.get_marks(&t, 3, Some(&heads)).map(|m| m.iter().map(|(k, v)| format!("{}={}", k, v)).collect::<Vec<_>>()))), clean0.get_marks(&t, 3, Some(&heads)).map(|m| m.iter().map(|(k, v)| format!("{}={}", k, v)).collect::<Vec<_>>()));
    // further editing in the marked range
    let r = std::panic::catch_unwind(std::panic::AssertUnwindSafe(|| { let mut tx = doc.transaction(); tx.splice_text(&t, 2, 0, "X").unwrap(); tx.commit(); format!("{:?}", doc.marks(&t)) }));
    eprintln!("C28 edit after rollback: {:?}", r);
    let mut clean = Automerge::load(&before_save).unwrap();
    clean.set_actor(ActorId::from(vec![1u8; 4]));
    let mut tx = clean.transaction(); tx.splice_text(&t, 2, 0, "X").unwrap(); tx.commit();
    eprintln!("C28 edit on clean copy : {:?}", format!("{:?}", clean.marks(&t)));
}
