use automerge::{transaction::Transactable, AutoCommit, Automerge, LoadOptions, OnPartialLoad, ReadDoc, ROOT};
#[test]
fn truncated_tail_keeps_complete_chunks() {
    let mut doc = AutoCommit::new();
    doc.put(&ROOT, "a", 1).unwrap();
    let mut file = doc.save();
    doc.put(&ROOT, "b", 2).unwrap();
    file.extend(doc.save_incremental());
    let complete = file.len();
    doc.put(&ROOT, "c", 3).unwrap();
    file.extend(doc.save_incremental());
    let cut = &file[..complete + 5];
    let loaded = Automerge::load_with_options(cut, LoadOptions::new().on_partial_load(OnPartialLoad::Ignore)).unwrap();
    let keys: Vec<String> = loaded.keys(&ROOT).collect();
    println!("KEYS {:?}", keys);
    assert_eq!(keys, vec!["a".to_string(), "b".to_string()]);
    // change chunk first
    let mut d2 = AutoCommit::new();
    d2.put(&ROOT, "x", 1).unwrap();
    let mut f2 = d2.save_incremental();
    let c2 = f2.len();
    d2.put(&ROOT, "y", 1).unwrap();
    f2.extend(d2.save_incremental());
    let l2 = Automerge::load_with_options(&f2[..c2 + 3], LoadOptions::new().on_partial_load(OnPartialLoad::Ignore)).unwrap();
    let k2: Vec<String> = l2.keys(&ROOT).collect();
    println!("KEYS2 {:?}", k2);
    assert_eq!(k2, vec!["x".to_string()]);
}
