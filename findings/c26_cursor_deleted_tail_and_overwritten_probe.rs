use automerge::{transaction::Transactable, AutoCommit, ObjType, ReadDoc, ROOT};

#[test]
fn deleted_last_element_current_heads() {
    let mut a = AutoCommit::new();
    let t = a.put_object(ROOT, "t", ObjType::Text).unwrap();
    a.splice_text(&t, 0, 0, "abc").unwrap();
    a.commit();
    let after = a.get_cursor(&t, 2, None).unwrap();
    a.splice_text(&t, 2, 1, "").unwrap();
    a.commit();
    // After: next surviving element or the length
    assert_eq!(a.get_cursor_position(&t, &after, None).unwrap(), 2);
}

#[test]
fn deleted_last_element_at_heads() {
    let mut a = AutoCommit::new();
    let t = a.put_object(ROOT, "t", ObjType::Text).unwrap();
    a.splice_text(&t, 0, 0, "abc").unwrap();
    a.commit();
    let after = a.get_cursor(&t, 2, None).unwrap();
    a.splice_text(&t, 2, 1, "").unwrap();
    a.commit();
    let heads = a.get_heads();
    assert_eq!(a.get_cursor_position(&t, &after, Some(&heads)).unwrap(), 2);
}

#[test]
fn before_cursor_on_overwritten_list_element() {
    let mut a = AutoCommit::new();
    let l = a.put_object(ROOT, "l", ObjType::List).unwrap();
    a.insert(&l, 0, "p").unwrap();
    a.insert(&l, 1, "q").unwrap();
    a.commit();
    let before = a.get_cursor_moving(&l, 1, None, automerge::MoveCursor::Before).unwrap();
    a.put(&l, 1, "q2").unwrap();
    a.commit();
    assert_eq!(a.get_cursor_position(&l, &before, None).unwrap(), 1);
}

#[test]
fn deleted_last_element_at_old_heads() {
    let mut a = AutoCommit::new();
    let t = a.put_object(ROOT, "t", ObjType::Text).unwrap();
    a.splice_text(&t, 0, 0, "abc").unwrap();
    a.commit();
    let after = a.get_cursor(&t, 2, None).unwrap();
    a.splice_text(&t, 2, 1, "").unwrap();
    a.commit();
    let h1 = a.get_heads();
    a.splice_text(&t, 0, 0, "x").unwrap();
    a.commit();
    assert_eq!(a.get_cursor_position(&t, &after, Some(&h1)).unwrap(), 2);
    assert_eq!(a.get_cursor_position(&t, &after, None).unwrap(), 3);
}
