use automerge::{transaction::Transactable, ActorId, AutoCommit, PatchLog, ReadDoc, ScalarValue, TextEncoding, ROOT};

fn run(left_actor: &str) {
    let encoding = TextEncoding::UnicodeCodePoint;
    let actor1 = ActorId::try_from("7f0000000000008027").unwrap();
    let actor2 = ActorId::try_from("fe004faf").unwrap();
    let mut target = AutoCommit::new_with_encoding(encoding).with_actor(actor1);
    let object = target
        .batch_create_object(ROOT, "value", &automerge::hydrate::Value::text(encoding, "a"), false)
        .unwrap();
    target.commit();
    let mut left = target.fork().with_actor(ActorId::try_from(left_actor).unwrap());
    left.put(&object, 0, "🦊🐻").unwrap();
    left.commit();
    let mut right = target.fork().with_actor(actor2);
    right.put(&object, 0, ScalarValue::Bytes(vec![0; 32])).unwrap();
    right.commit();
    target.merge(&mut left).unwrap();
    target.merge(&mut right).unwrap();
    right.delete(&object, 0).unwrap();
    right.commit();
    let mut logged_target = target.document().clone();
    let mut logged_right = right.document().clone();
    let mut actual = logged_target.hydrate(None);
    let mut patch_log = PatchLog::active();
    logged_target.merge_and_log_patches(&mut logged_right, &mut patch_log).unwrap();
    let expected = logged_target.hydrate(None);
    actual.apply_patches(encoding, logged_target.make_patches(&mut patch_log)).unwrap();
    assert_eq!(actual, expected);
}
#[test] fn left_lowest() { run("00aa"); }
#[test] fn left_middle() { run("80aa"); }
#[test] fn left_highest() { run("ffaa"); }
