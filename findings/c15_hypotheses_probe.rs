use automerge::{legacy as l, transaction::Transactable, ActorId, AutoCommit, Automerge, Change, ExpandedChange, ObjType, ReadDoc, ROOT};
fn try_it(name: &str, f: impl FnOnce() + std::panic::UnwindSafe) {
    match std::panic::catch_unwind(f) { Ok(()) => eprintln!("HYP {} -> ok", name), Err(e) => eprintln!("HYP {} -> PANIC {:?}", name, e.downcast_ref::<String>().cloned().or(e.downcast_ref::<&str>().map(|s| s.to_string()))) }
}
fn ch(ops: Vec<l::Op>, actor: ActorId, start: u64, deps: Vec<automerge::ChangeHash>) -> Change {
    Change::from(ExpandedChange { operations: ops, actor_id: actor, hash: None, seq: 1, start_op: std::num::NonZero::new(start).unwrap(), time: 0, message: None, deps, extra_bytes: vec![] })
}
#[test]
fn hyp() {
    let a = ActorId::from(vec![7u8; 4]);
    // 1. start_op above u32::MAX, sent as bytes
    let a1 = a.clone();
    try_it("start_op=2^32 via bytes", move || {
        let c = ch(vec![l::Op { action: l::OpType::Put("x".into()), obj: l::ObjectId::Root, key: l::Key::Map("k".into()), pred: l::SortedVec::new(), insert: false }], a1, 1u64 << 32, vec![]);
        let bytes = c.raw_bytes().to_vec();
        let mut d = Automerge::new();
        let r = d.load_incremental(&bytes);
        eprintln!("   result {:?}", r.map(|_| ()));
    });
    // 2. an op with a map key inside a list object, then insert into that list
    let a2 = a.clone();
    try_it("map key in list", move || {
        let mut base = AutoCommit::new().with_actor(ActorId::from(vec![1u8; 4]));
        let list = base.put_object(&ROOT, "l", ObjType::List).unwrap();
        base.insert(&list, 0, 1).unwrap();
        let h = base.commit().unwrap();
        let (_, lid) = base.get(&ROOT, "l").unwrap().unwrap();
        let _ = lid;
        let c = ch(vec![l::Op { action: l::OpType::Put("x".into()), obj: l::ObjectId::Id(l::OpId(1, ActorId::from(vec![1u8; 4]))), key: l::Key::Map("k".into()), pred: l::SortedVec::new(), insert: false }], a2, 3, vec![h]);
        let bytes = c.raw_bytes().to_vec();
        let mut d = base.document().clone();
        let r = d.load_incremental(&bytes);
        eprintln!("   result {:?}", r.map(|_| ()));
        let mut d = base.clone();
        d.load_incremental(&bytes).unwrap();
        let r2 = d.insert(&list, 1, 5);
        let r3 = d.insert(&list, 0, 6);
        let _ = d.splice(&list, 0, 1, [automerge::ScalarValue::Int(7)]);
        eprintln!("   r3 {:?}", r3);
        eprintln!("   insert {:?} len {}", r2, d.length(&list));
        let _ = d.list_range(&list, ..).count();
        let _ = d.save();
    });
    // 3. a seq key in a map object
    let a3 = a.clone();
    try_it("seq key in map", move || {
        let mut base = AutoCommit::new().with_actor(ActorId::from(vec![1u8; 4]));
        base.put(&ROOT, "k", 1).unwrap();
        let h = base.commit().unwrap();
        let c = ch(vec![l::Op { action: l::OpType::Put("x".into()), obj: l::ObjectId::Root, key: l::Key::Seq(l::ElementId::Id(l::OpId(1, ActorId::from(vec![1u8; 4])))), pred: l::SortedVec::new(), insert: true }], a3, 2, vec![h]);
        let bytes = c.raw_bytes().to_vec();
        let mut d = base.document().clone();
        let r = d.load_incremental(&bytes);
        eprintln!("   result {:?}", r.map(|_| ()));
        for k in d.keys(ROOT) { let _ = d.get_all(ROOT, k.as_str()); }
        let _ = serde_json::to_string(&automerge::AutoSerde::from(&d));
        let _ = Automerge::load(&d.save());
    });
}
