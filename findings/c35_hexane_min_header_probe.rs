#[test]
fn min_run() {
    let bytes = [0x80u8, 0x80, 0x80, 0x80, 0x80, 0x80, 0x80, 0x80, 0x80, 0x7f, 0x01];
    let r = std::panic::catch_unwind(|| hexane::Column::<u64>::load(&bytes).map(|c| c.len()));
    eprintln!("HX i64::MIN literal-run header: {:?}", r.as_ref().map_err(|e| e.downcast_ref::<String>().cloned().or(e.downcast_ref::<&str>().map(|s| s.to_string()))));
    // two runs whose counts add up past usize::MAX
    let mut b2 = vec![]; for _ in 0..2 { b2.extend([0xff, 0xff, 0xff, 0xff, 0xff, 0xff, 0xff, 0xff, 0x3f]); b2.push(if b2.len() < 10 { 1 } else { 2 }); }
    let mut b3 = vec![]; for v in [1u8, 2, 3, 4] { b3.extend([0xff, 0xff, 0xff, 0xff, 0xff, 0xff, 0xff, 0xff, 0x3f]); b3.push(v); }
    let r = std::panic::catch_unwind(|| hexane::Column::<u64>::load(&b3).map(|c| c.len()));
    eprintln!("HX four runs of 2^62 values: {:?}", r.as_ref().map_err(|e| e.downcast_ref::<String>().cloned().or(e.downcast_ref::<&str>().map(|s| s.to_string()))));
}
