// C17 probe: run-length amplification. Replaces one column of a tiny document / bundle by a run header announcing N values
// (checksum and lengths recomputed) and reports what loading it costs.   AMP_N=<count> (default 2^26)
use automerge::{transaction::Transactable, AutoCommit, Automerge, ROOT};
use sha2::{Digest, Sha256};
fn leb(mut v: u64, out: &mut Vec<u8>) { loop { let b = (v & 0x7f) as u8; v >>= 7; if v == 0 { out.push(b); break; } out.push(b | 0x80); } }
fn sleb(mut v: i64, out: &mut Vec<u8>) { loop { let b = (v & 0x7f) as u8; v >>= 7; let done = (v == 0 && b & 0x40 == 0) || (v == -1 && b & 0x40 != 0); if done { out.push(b); break; } out.push(b | 0x80); } }
fn rd(b: &[u8], p: &mut usize) -> u64 { let mut v = 0u64; let mut s = 0; loop { let x = b[*p]; *p += 1; v |= ((x & 0x7f) as u64) << s; s += 7; if x & 0x80 == 0 { return v; } } }
fn peak_mb() -> u64 { std::fs::read_to_string("/proc/self/status").unwrap().lines().find(|l| l.starts_with("VmHWM")).unwrap().split_whitespace().nth(1).unwrap().parse::<u64>().unwrap() / 1024 }
fn meta(b: &[u8], p: &mut usize) -> Vec<(u64, u64)> { let n = rd(b, p); (0..n).map(|_| (rd(b, p), rd(b, p))).collect() }
fn wmeta(m: &[(u64, u64)], out: &mut Vec<u8>) { leb(m.len() as u64, out); for (s, l) in m { leb(*s, out); leb(*l, out); } }
/// replace columns (which: 0 = change columns, 1 = op columns; spec; new bytes) in a document (doc=true) or bundle chunk
fn surgery(bytes: &[u8], doc: bool, repl: &[(usize, u64, Vec<u8>)]) -> Vec<u8> {
    let mut p = 8; let ty = bytes[p]; p += 1; let _ = rd(bytes, &mut p); let body_start = p;
    if doc { let na = rd(bytes, &mut p); for _ in 0..na { let l = rd(bytes, &mut p) as usize; p += l; } let nh = rd(bytes, &mut p); p += 32 * nh as usize; }
    else { let nd = rd(bytes, &mut p); p += 32 * nd as usize; let na = rd(bytes, &mut p); for _ in 0..na { let l = rd(bytes, &mut p) as usize; p += l; } }
    let prefix = bytes[body_start..p].to_vec();
    let (m1, d1, m2, d2);
    if doc { m1 = meta(bytes, &mut p); m2 = meta(bytes, &mut p); let l1: u64 = m1.iter().map(|c| c.1).sum(); let l2: u64 = m2.iter().map(|c| c.1).sum(); d1 = bytes[p..p + l1 as usize].to_vec(); p += l1 as usize; d2 = bytes[p..p + l2 as usize].to_vec(); p += l2 as usize; }
    else { m1 = meta(bytes, &mut p); let l1: u64 = m1.iter().map(|c| c.1).sum(); d1 = bytes[p..p + l1 as usize].to_vec(); p += l1 as usize; m2 = meta(bytes, &mut p); let l2: u64 = m2.iter().map(|c| c.1).sum(); d2 = bytes[p..p + l2 as usize].to_vec(); p += l2 as usize; }
    let suffix = bytes[p..].to_vec();
    let rebuild = |which: usize, m: &[(u64, u64)], d: &[u8]| { let mut cols: Vec<(u64, Vec<u8>)> = vec![]; let mut off = 0usize; for (s, l) in m { let old = &d[off..off + *l as usize]; off += *l as usize; let new = repl.iter().find(|r| r.0 == which && r.1 == *s).map(|r| r.2.clone()).unwrap_or(old.to_vec()); let spec = RESPEC.with(|r| r.borrow().iter().find(|x| x.0 == which && x.1 == *s).map(|x| x.2)).unwrap_or(*s); cols.push((spec, new)); } cols.sort_by_key(|c| c.0); let mut nm = vec![]; let mut nd = vec![]; for (s, c) in cols { nm.push((s, c.len() as u64)); nd.extend(c); } (nm, nd) };
    let (nm1, nd1) = rebuild(0, &m1, &d1); let (nm2, nd2) = rebuild(1, &m2, &d2);
    let mut body = prefix; 
    if doc { wmeta(&nm1, &mut body); wmeta(&nm2, &mut body); body.extend(nd1); body.extend(nd2); } else { wmeta(&nm1, &mut body); body.extend(nd1); wmeta(&nm2, &mut body); body.extend(nd2); }
    body.extend(suffix);
    let mut out = vec![0x85, 0x6f, 0x4a, 0x83, 0, 0, 0, 0, ty]; leb(body.len() as u64, &mut out); let hdr = out.len(); out.extend(&body);
    let mut h = Sha256::new(); h.update(&out[8..hdr]); h.update(&body); let dg = h.finalize(); out[4..8].copy_from_slice(&dg[0..4]);
    out
}
thread_local! { static RESPEC: std::cell::RefCell<Vec<(usize, u64, u64)>> = std::cell::RefCell::new(vec![]); }
fn run_of(n: i64, delta: bool) -> Vec<u8> { let mut c = vec![]; sleb(n, &mut c); if delta { sleb(0, &mut c) } else { leb(0, &mut c) } c }
fn measure(name: &str, input: &[u8]) {
    // VmHWM is a process-wide high-water mark: run one case per process (AMP_CASE=<substring of the case name>)
    if let Ok(c) = std::env::var("AMP_CASE") { if !name.contains(&c) { return; } }
    let base = peak_mb(); let t = std::time::Instant::now();
    let input = input.to_vec(); let n = input.len();
    let r = std::thread::spawn(move || { let mut d = Automerge::new(); let r = d.load_incremental(&input); format!("{:?}", r.map(|_| ())) }).join();
    eprintln!("AMP2 {:<44} input {:>4} bytes -> peak RSS +{:>5} MB in {:>6.2?}  result {}", name, n, peak_mb().saturating_sub(base), t.elapsed(), r.unwrap_or("panic".into()).chars().take(70).collect::<String>());
}
#[test]
fn start_op_above_max_op() {
    let mut d = AutoCommit::new();
    d.put(&ROOT, "k", 1).unwrap(); d.commit();
    d.put(&ROOT, "k", 2).unwrap(); d.commit();
    let hashes: Vec<_> = d.get_changes(&[]).iter().map(|c| c.hash()).collect();
    let bundle = d.document().bundle(hashes).unwrap().bytes().to_vec();
    // START_OP column (spec 19, delta): both changes claim start_op = 100 (max_op stays 1 and 2)
    let mut col = vec![0x7eu8]; sleb(100, &mut col); sleb(0, &mut col);
    // legacy layout: an explicit doc-order ID counter column (id 2, delta = spec 35) instead of ID_CTR_INVERSE (179)
    RESPEC.with(|r| r.borrow_mut().push((1, 179, 35)));
    let mut idc = vec![0x02u8]; sleb(1, &mut idc);
    let b = surgery(&bundle, false, &[(0, 19, col), (1, 179, idc)]);
    RESPEC.with(|r| r.borrow_mut().clear());
    let r = std::panic::catch_unwind(|| { let mut x = Automerge::new(); x.load_incremental(&b).map(|_| ()) });
    eprintln!("STARTOP load_incremental -> {:?}", r.as_ref().map_err(|e| e.downcast_ref::<String>().cloned().or(e.downcast_ref::<&str>().map(|s| s.to_string()))));
}

#[test]
fn negative_max_op() {
    let mut d = AutoCommit::new();
    d.put(&ROOT, "k", 1).unwrap(); d.commit();
    d.put(&ROOT, "k", 2).unwrap(); d.commit();
    let hashes: Vec<_> = d.get_changes(&[]).iter().map(|c| c.hash()).collect();
    let bundle = d.document().bundle(hashes).unwrap().bytes().to_vec();
    for (name, first) in [("max_op = -1", -1i64), ("max_op = 2^40", 1i64 << 40)] {
        // MAX_OP column (spec 35, delta): first change claims `first`, second one more
        let mut col = vec![0x7eu8]; sleb(first, &mut col); sleb(1, &mut col);
        RESPEC.with(|r| r.borrow_mut().push((1, 179, 35)));
        let mut idc = vec![0x02u8]; sleb(1, &mut idc);
        // legacy layout and start_op = 1 for both changes
        let mut so = vec![0x7eu8]; sleb(1, &mut so); sleb(0, &mut so);
        let b = surgery(&bundle, false, &[(0, 35, col), (0, 19, so), (1, 179, idc)]);
        RESPEC.with(|r| r.borrow_mut().clear());
        let r = std::panic::catch_unwind(|| { let mut x = Automerge::new(); x.load_incremental(&b).map(|_| ()) });
        eprintln!("MAXOP {} -> {:?}", name, r.as_ref().map_err(|e| e.downcast_ref::<String>().cloned().or(e.downcast_ref::<&str>().map(|s| s.to_string()))));
    }
}

#[test]
fn amp2() {
    let n: i64 = std::env::var("AMP_N").ok().and_then(|s| s.parse().ok()).unwrap_or(1 << 26);
    let mut d = AutoCommit::new();
    d.put(&ROOT, "k", 1).unwrap(); d.commit();
    d.put(&ROOT, "k", 2).unwrap(); d.commit();
    let doc = d.save_nocompress();
    let hashes: Vec<_> = d.get_changes(&[]).iter().map(|c| c.hash()).collect();
    let bundle = d.document().bundle(hashes).unwrap().bytes().to_vec();
    measure("document unchanged", &doc);
    // document change-metadata columns: actor 1, seq 3, max_op 19, deps count 64(group)/deps 67 ...
    for (spec, delta, name) in [(1u64, false, "doc change col actor"), (3, true, "doc change col seq"), (19, true, "doc change col max_op"), (64, false, "doc change col deps_count"), (67, true, "doc change col deps")] {
        measure(name, &surgery(&doc, true, &[(0, spec, run_of(n, delta))]));
    }
    measure("bundle unchanged", &bundle);
    // bundle: ID_CTR_INVERSE column of the ops (id 11, delta) = (11 << 4) | 3 = 179
    measure("bundle op col id_ctr_inverse", &surgery(&bundle, false, &[(1, 179, run_of(n, true))]));
    // bundle: dep_count (80) says n deps for the first change, deps column (83) is a run of n values
    let mut dc = vec![0x7eu8]; leb(n as u64, &mut dc); leb(0, &mut dc);
    measure("bundle change cols dep_count + deps", &surgery(&bundle, false, &[(0, 80, dc), (0, 83, run_of(n, true))]));
    // bundle: pred count (112) says n predecessors for the first op; pred actor (113) and pred counter (115) are runs of n values
    let mut pc = vec![0x7eu8]; leb(n as u64, &mut pc); leb(0, &mut pc);
    measure("bundle op cols pred_count + preds", &surgery(&bundle, false, &[(1, 112, pc), (1, 113, run_of(n, false)), (1, 115, run_of(n, true))]));
}
