use automerge::transaction::Transactable;
use automerge::{ActorId, AutoCommit, ObjType, ReadDoc, ScalarValue, ROOT};

#[test]
fn append_after_incremented_counter_then_merge() {
    let mut a = AutoCommit::new().with_actor(ActorId::from(vec![1]));
    let l = a.put_object(ROOT, "l", ObjType::List).unwrap();
    a.insert(&l, 0, ScalarValue::counter(1)).unwrap();
    a.commit();
    a.increment(&l, 0, 5).unwrap();
    a.commit();
    a.insert(&l, 1, "tail").unwrap();
    a.commit();
    assert_eq!(a.length(&l), 2);
    let saved = a.save();
    let b = AutoCommit::load(&saved).unwrap();
    assert_eq!(b.hydrate(&ROOT, None).unwrap(), a.hydrate(&ROOT, None).unwrap());
    let mut c = a.fork().with_actor(ActorId::from(vec![2]));
    c.insert(&l, 2, "more").unwrap();
    c.commit();
    a.merge(&mut c).unwrap();
    assert_eq!(a.length(&l), 3);
    let vals: Vec<String> = a.list_range(&l, ..).map(|i| format!("{:?}", i.value)).collect();
    println!("{vals:?}");
    let d = AutoCommit::load(&a.save()).unwrap();
    assert_eq!(d.hydrate(&ROOT, None).unwrap(), a.hydrate(&ROOT, None).unwrap());
}

#[test]
fn two_tops_after_local_increment_on_three_way_conflict() {
    let mut base = AutoCommit::new().with_actor(ActorId::from(vec![9]));
    let l = base.put_object(ROOT, "l", ObjType::List).unwrap();
    base.insert(&l, 0, 0).unwrap();
    base.commit();
    let mut a = base.fork().with_actor(ActorId::from(vec![1]));
    let mut b = base.fork().with_actor(ActorId::from(vec![2]));
    let mut c = base.fork().with_actor(ActorId::from(vec![3]));
    a.put(&l, 0, ScalarValue::counter(10)).unwrap(); a.commit();
    b.put(&l, 0, "middle").unwrap(); b.commit();
    c.put(&l, 0, ScalarValue::counter(30)).unwrap(); c.commit();
    base.merge(&mut a).unwrap(); base.merge(&mut b).unwrap(); base.merge(&mut c).unwrap();
    assert_eq!(base.length(&l), 1);
    base.increment(&l, 0, 1).unwrap();
    base.commit();
    assert_eq!(base.length(&l), 1, "one register is one element");
    let h = base.hydrate(&ROOT, None).unwrap();
    let d = AutoCommit::load(&base.save()).unwrap();
    assert_eq!(d.hydrate(&ROOT, None).unwrap(), h);
}
