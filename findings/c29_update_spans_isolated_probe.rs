use automerge::{transaction::Transactable, AutoCommit, ObjType, ReadDoc, ROOT, iter::Span};

fn shape(doc: &AutoCommit, t: &automerge::ObjId) -> Vec<String> {
    doc.spans(t).unwrap().map(|s| match s { Span::Text{text, ..} => text.to_string(), Span::Block(_) => "<B>".to_string() }).collect()
}

#[test]
fn update_spans_under_isolation() {
    let mut doc = AutoCommit::new();
    let t = doc.put_object(ROOT, "t", ObjType::Text).unwrap();
    doc.splice_text(&t, 0, 0, "hello").unwrap();
    doc.commit();
    let heads = doc.get_heads();
    doc.splice_text(&t, 0, 0, "XX").unwrap();
    doc.commit();

    let target = vec![Span::Text { text: "hellO".into(), marks: None }];
    let mut fork = doc.fork_at(&heads).unwrap();
    fork.update_spans(&t, automerge::marks::UpdateSpansConfig::default(), target.clone()).unwrap();
    let want = shape(&fork, &t);
    assert_eq!(want, vec!["hellO"]);

    doc.isolate(&heads);
    assert_eq!(shape(&doc, &t), vec!["hello"]);
    let r = doc.update_spans(&t, automerge::marks::UpdateSpansConfig::default(), target);
    assert!(r.is_ok(), "{:?}", r);
    assert_eq!(shape(&doc, &t), want);
}
