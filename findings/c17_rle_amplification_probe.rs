// C17 probe: a run header of a few bytes in the change-metadata actor column makes Automerge::load materialise the whole run
use automerge::{transaction::Transactable, AutoCommit, Automerge, ROOT};
use sha2::{Digest, Sha256};
fn leb(mut v: u64, out: &mut Vec<u8>) { loop { let b = (v & 0x7f) as u8; v >>= 7; if v == 0 { out.push(b); break; } out.push(b | 0x80); } }
fn sleb(mut v: i64, out: &mut Vec<u8>) { loop { let b = (v & 0x7f) as u8; v >>= 7; let done = (v == 0 && b & 0x40 == 0) || (v == -1 && b & 0x40 != 0); if done { out.push(b); break; } out.push(b | 0x80); } }
fn rd(b: &[u8], p: &mut usize) -> u64 { let mut v = 0u64; let mut s = 0; loop { let x = b[*p]; *p += 1; v |= ((x & 0x7f) as u64) << s; s += 7; if x & 0x80 == 0 { return v; } } }
fn peak_mb() -> u64 { std::fs::read_to_string("/proc/self/status").unwrap().lines().find(|l| l.starts_with("VmHWM")).unwrap().split_whitespace().nth(1).unwrap().parse::<u64>().unwrap() / 1024 }
fn craft(run: i64) -> Vec<u8> {
    let mut d = AutoCommit::new();
    d.put(&ROOT, "k", 1).unwrap();
    let bytes = d.save_nocompress();
    let mut p = 8; assert_eq!(bytes[p], 0); p += 1; let _len = rd(&bytes, &mut p); let body_start = p;
    let na = rd(&bytes, &mut p); for _ in 0..na { let l = rd(&bytes, &mut p) as usize; p += l; }
    let nh = rd(&bytes, &mut p); p += 32 * nh as usize;
    let cm_start = p; let nc = rd(&bytes, &mut p); let mut ccols = vec![]; for _ in 0..nc { let spec = rd(&bytes, &mut p); let l = rd(&bytes, &mut p); ccols.push((spec, l)); }
    let cm_end = p;
    let no = rd(&bytes, &mut p); for _ in 0..no { let _ = rd(&bytes, &mut p); let _ = rd(&bytes, &mut p); }
    let data_start = p;
    assert_eq!(ccols[0].0, 1, "first change column is the actor column");
    let old_len = ccols[0].1 as usize;
    let mut newcol = vec![]; sleb(run, &mut newcol); leb(0, &mut newcol);
    let mut meta = vec![]; leb(nc, &mut meta); for (i, (s, l)) in ccols.iter().enumerate() { leb(*s, &mut meta); leb(if i == 0 { newcol.len() as u64 } else { *l }, &mut meta); }
    let mut body = vec![]; body.extend(&bytes[body_start..cm_start]); body.extend(&meta); body.extend(&bytes[cm_end..data_start]); body.extend(&newcol); body.extend(&bytes[data_start + old_len..]);
    let mut out = vec![0x85, 0x6f, 0x4a, 0x83, 0, 0, 0, 0, 0]; leb(body.len() as u64, &mut out); let hdr = out.len(); out.extend(&body);
    let mut h = Sha256::new(); h.update(&out[8..hdr]); h.update(&body); let dg = h.finalize(); out[4..8].copy_from_slice(&dg[0..4]);
    out
}
#[test]
fn amp() {
    let base = peak_mb();
    let small = craft(1); let r = Automerge::load(&small); eprintln!("AMP sanity run=1: {} bytes -> {:?}, peak {} MB", small.len(), r.map(|_| ()), peak_mb() - base);
    let run: i64 = std::env::var("AMP_RUN").ok().and_then(|s| s.parse().ok()).unwrap_or(1 << 27);
    let doc = craft(run);
    let t = std::time::Instant::now();
    let r = Automerge::load(&doc);
    eprintln!("AMP run={}: input {} bytes -> {:?}; peak RSS grew by {} MB in {:?}", run, doc.len(), r.map(|_| ()), peak_mb() - base, t.elapsed());
}
