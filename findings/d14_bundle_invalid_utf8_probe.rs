use automerge::{transaction::{CommitOptions, Transactable}, Automerge, ReadDoc, ROOT};
use sha2::{Digest, Sha256};

fn recompute_checksum(bytes: &mut Vec<u8>) {
    // magic(4) checksum(4) type(1) leb(len) data
    let ty = bytes[8];
    let mut i = 9;
    let mut len: usize = 0;
    let mut shift = 0;
    loop { let b = bytes[i]; i += 1; len |= ((b & 0x7f) as usize) << shift; shift += 7; if b & 0x80 == 0 { break; } }
    let data = &bytes[i..i + len];
    let mut h = Sha256::new();
    h.update([ty]);
    let mut lenb = vec![]; let mut l = len as u64; loop { let mut b = (l & 0x7f) as u8; l >>= 7; if l != 0 { b |= 0x80; } lenb.push(b); if l == 0 { break; } }
    h.update(&lenb);
    h.update(data);
    let d = h.finalize();
    bytes[4..8].copy_from_slice(&d[0..4]);
}

#[test]
fn invalid_utf8_in_bundle_message_is_rejected() {
    let mut doc = Automerge::new();
    let mut tx = doc.transaction();
    tx.put(&ROOT, "kkkkkq", "v").unwrap();
    let (Some(h0), _) = tx.commit_with(CommitOptions::default().with_message("msgmsgq")) else { panic!() };
    let mut tx = doc.transaction();
    tx.put(&ROOT, "kkkkkq", "w").unwrap();
    let (Some(h1), _) = tx.commit_with(CommitOptions::default().with_message("msgmsgq")) else { panic!() };
    let bundle = doc.bundle([h0, h1]).unwrap();
    let good = bundle.bytes().to_vec();
    for needle in [&b"msgmsgq"[..], &b"kkkkkq"[..]] {
        let mut bad = good.clone();
        let pos = bad.windows(needle.len()).position(|w| w == needle).expect("needle in bundle");
        bad[pos] = 0xff; bad[pos + 1] = 0xfe;
        recompute_checksum(&mut bad);
        let r = std::panic::catch_unwind(|| {
            let mut d2 = Automerge::new();
            match d2.load_incremental(&bad) {
                Err(_) => "rejected".to_string(),
                Ok(_) => {
                    let keys: Vec<String> = d2.keys(&ROOT).collect();
                    let msgs: Vec<Option<String>> = d2.get_changes(&[]).iter().map(|c| c.message().map(|m| m.to_string())).collect();
                    format!("ACCEPTED keys={:?} msgs={:?}", keys, msgs)
                }
            }
        });
        let out = match r { Ok(s) => s, Err(_) => "PANICKED".to_string() };
        println!("needle {:?}: {}", std::str::from_utf8(needle).unwrap(), out);
        assert_eq!(out, "rejected");
    }
}
