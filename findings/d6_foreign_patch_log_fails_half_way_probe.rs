use automerge::{transaction::Transactable, ActorId, AutoCommit, Automerge, PatchLog, ReadDoc, ROOT};
#[test]
fn foreign_patch_log_fails_cleanly() {
    // a patch log that has seen actor ff.. of another document
    let mut other = AutoCommit::new().with_actor(ActorId::from(vec![0x00u8; 16]));
    other.put(&ROOT, "o", 1).unwrap(); other.commit();
    let mut o2 = Automerge::new();
    let mut log = PatchLog::active();
    o2.apply_changes_log_patches(other.get_changes(&[]), &mut log).unwrap();

    let mut src = AutoCommit::new().with_actor(ActorId::from(vec![0x01u8; 16]));
    src.put(&ROOT, "a", 1).unwrap(); src.commit();
    let mut src2 = AutoCommit::new().with_actor(ActorId::from(vec![0x02u8; 16]));
    src2.put(&ROOT, "b", 1).unwrap(); src2.commit();

    let mut d = Automerge::new();
    d.apply_changes(src2.get_changes(&[])).unwrap();
    let before = d.save();
    let r = d.apply_changes_log_patches(src.get_changes(&[]), &mut log);
    println!("RESULT err={}", r.is_err());
    assert!(r.is_err());
    let after = std::panic::catch_unwind(std::panic::AssertUnwindSafe(|| d.save()));
    println!("SAVE ok={}", after.is_ok());
    assert_eq!(after.expect("save panicked after a failed apply"), before);
    // and the rejected change can still be applied afterwards
    d.apply_changes(src.get_changes(&[])).unwrap();
    assert_eq!(d.keys(&ROOT).count(), 2);
}
