use automerge::{transaction::Transactable, ActorId, AutoCommit, Automerge, ReadDoc, ROOT};
#[test]
fn failed_apply_keeps_queue() {
    let actor = ActorId::from(vec![1u8; 16]);
    let mut w = AutoCommit::new().with_actor(actor.clone());
    w.put(&ROOT, "a", 1).unwrap(); w.commit();
    let after_c1 = w.save();
    w.put(&ROOT, "b", 2).unwrap(); w.commit();
    w.put(&ROOT, "c", 3).unwrap(); w.commit();
    w.put(&ROOT, "d", 4).unwrap(); w.commit();
    let cs = w.get_changes(&[]);
    assert_eq!(cs.len(), 4);
    // conflicting branch of the same actor: seq 2'
    let mut x = AutoCommit::load(&after_c1).unwrap().with_actor(actor.clone());
    x.put(&ROOT, "zzz", 9).unwrap(); x.commit();
    let c2x = x.get_changes(&[]).pop().unwrap();
    assert_eq!(c2x.seq(), 2);

    let run = |with_failure: bool| {
        let mut d = Automerge::new();
        d.apply_changes([cs[0].clone(), cs[1].clone()]).unwrap();
        d.apply_changes([cs[3].clone()]).unwrap(); // queued: needs c3
        let missing_before = d.get_missing_deps(&[]);
        if with_failure {
            let r = d.apply_changes([c2x.clone()]);
            assert!(r.is_err());
        }
        let missing_after = d.get_missing_deps(&[]);
        d.apply_changes([cs[2].clone()]).unwrap();
        (missing_before, missing_after, d.get_heads(), d.keys(&ROOT).collect::<Vec<_>>())
    };
    let a = run(false);
    let b = run(true);
    println!("WITHOUT {:?}", a.3);
    println!("WITH    {:?}", b.3);
    println!("MISSING before {:?} after-fail {:?}", b.0.len(), b.1.len());
    assert_eq!(a, b);
}
