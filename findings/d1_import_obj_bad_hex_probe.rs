use automerge::Automerge;
#[test]
fn import_obj_with_bad_hex_is_an_error() {
    let d = Automerge::new();
    assert!(d.import_obj("1@zz").is_err());
    assert!(d.import("1@abc").is_err());
}
