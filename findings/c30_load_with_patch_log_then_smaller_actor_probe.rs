// C30 sibling of findings/hunt/hunt_C30_2.rs, found by rule P13 (C09) on the repaired tree: Automerge::load_with_options with a
// caller-held patch log logs the loaded state without telling the log the loaded document's actor table.
use automerge::{transaction::Transactable, ActorId, AutoCommit, Automerge, LoadOptions, ObjType, PatchLog, ReadDoc, ROOT};

#[test]
fn patches_after_load_with_patch_log_then_local_edit_by_smaller_actor() {
    let mut remote = AutoCommit::new().with_actor(ActorId::from(vec![9u8]));
    let list = remote.put_object(ROOT, "list", ObjType::List).unwrap();
    let inner = remote.insert_object(&list, 0, ObjType::Map).unwrap();
    remote.put(&inner, "k", "v").unwrap();
    let bytes = remote.save();

    let mut log = PatchLog::active();
    let mut doc = Automerge::load_with_options(&bytes, LoadOptions::new().patch_log(&mut log)).unwrap();
    doc.set_actor(ActorId::from(vec![1u8]));
    {
        let mut tx = doc.transaction_log_patches(log.clone()).unwrap();
        tx.put(ROOT, "local", 1).unwrap();
        let (_, l) = tx.commit();
        log = l;
    }
    let patches = doc.make_patches(&mut log);
    let shown: Vec<String> = patches.iter().map(|p| format!("{} {:?} {:?}", p.obj, p.path, p.action)).collect();
    assert!(patches.iter().any(|p| p.obj == list), "the patches must name the list {}: {:#?}", list, shown);
    assert!(patches.iter().any(|p| p.obj == inner), "the patches must name the map {}: {:#?}", inner, shown);
    for p in &patches {
        assert!(doc.object_type(&p.obj).is_ok(), "patch names object {} which does not exist: {:#?}", p.obj, shown);
    }
}
