use automerge::{transaction::Transactable, AutoCommit, Cursor, ObjType, ReadDoc, ROOT};
#[test]
fn huge_counters_are_errors() {
    let mut d = AutoCommit::new();
    let t = d.put_object(&ROOT, "t", ObjType::Text).unwrap();
    d.splice_text(&t, 0, 0, "abc").unwrap();
    let actor = d.get_actor().to_hex_string();
    let r = std::panic::catch_unwind(std::panic::AssertUnwindSafe(|| d.import(&format!("99999999999@{}", actor)).is_err()));
    assert_eq!(r.ok(), Some(true), "import");
    let c = Cursor::try_from(format!("99999999999@{}", actor).as_str()).unwrap();
    let r = std::panic::catch_unwind(std::panic::AssertUnwindSafe(|| d.get_cursor_position(&t, &c, None).is_err()));
    assert_eq!(r.ok(), Some(true), "cursor");
}
