use automerge::{transaction::Transactable, AutoCommit, ObjType, ReadDoc, ROOT, hydrate_list};
#[test]
fn shrinking_update_keeps_prefix() {
    let mut doc = AutoCommit::new();
    let l = doc.put_object(&ROOT, "l", ObjType::List).unwrap();
    for (i, v) in ["a", "b", "c"].iter().enumerate() { doc.insert(&l, i, *v).unwrap(); }
    doc.update_object(&l, &hydrate_list!["x", "y"].into()).unwrap();
    let got: Vec<String> = (0..doc.length(&l)).map(|i| format!("{:?}", doc.get(&l, i).unwrap().unwrap().0)).collect();
    println!("GOT {:?}", got); assert!(got[0].contains("x") && got[1].contains("y") && got.len() == 2);
}
