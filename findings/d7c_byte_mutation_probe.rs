// triage probe (not part of the checks): byte-mutate valid encodings, recompute the chunk checksum so that the
// mutation reaches the column decoders, and record where the library panics.
use automerge::{marks::{ExpandMark, Mark}, sync::{self, SyncDoc}, transaction::{CommitOptions, Transactable}, ActorId, AutoCommit, Automerge, Change, ObjType, ReadDoc, ScalarValue, ROOT};
use sha2::{Digest, Sha256};
use std::collections::BTreeMap;
use std::sync::Mutex;

static LAST: Mutex<Option<String>> = Mutex::new(None);

fn fix_checksum(bytes: &mut [u8]) {
    if bytes.len() < 10 { return; }
    let ty = bytes[8];
    let mut i = 9; let mut len: usize = 0; let mut shift = 0;
    loop { if i >= bytes.len() { return; } let b = bytes[i]; i += 1; len |= ((b & 0x7f) as usize) << shift; shift += 7; if b & 0x80 == 0 || shift > 56 { break; } }
    if i + len > bytes.len() { return; }
    let mut h = Sha256::new();
    h.update([ty]); h.update(&bytes[9..i]); h.update(&bytes[i..i + len]);
    let d = h.finalize();
    bytes[4..8].copy_from_slice(&d[0..4]);
}

fn fix_len(bytes: &mut Vec<u8>, good_len: usize) {
    // keep the chunk length field consistent after an insert / delete (only when it stays a 1- or 2-byte leb of the same width)
    if bytes.len() == good_len || bytes.len() < 12 { return; }
    let body = |hdr: usize, total: usize| total - 9 - hdr;
    if bytes[9] & 0x80 == 0 { let n = body(1, bytes.len()); if n < 0x80 { bytes[9] = n as u8; } }
    else if bytes[10] & 0x80 == 0 { let n = body(2, bytes.len()); if n < 0x4000 && n >= 0x80 { bytes[9] = (n & 0x7f) as u8 | 0x80; bytes[10] = (n >> 7) as u8; } }
}

fn exercise(d: &Automerge) {
    let _ = d.save();
    let _ = d.get_changes(&[]);
    let _ = d.get_heads();
    let _ = automerge::AutoSerde::from(d);
    let _ = serde_json::to_string(&automerge::AutoSerde::from(d));
    for k in d.keys(ROOT) { let _ = d.get_all(ROOT, k.as_str()); }
    for (_, id) in d.values(ROOT) .collect::<Vec<_>>() { let _ = d.text(&id); let _ = d.marks(&id); let _ = d.length(&id); let _ = d.list_range(&id, ..).count(); }
    let mut f = d.fork();
    let _ = f.transact::<_, _, automerge::AutomergeError>(|tx| { tx.put(ROOT, "zz", 1)?; Ok(()) });
    let _ = f.save();
}

fn sample_doc() -> AutoCommit {
    let mut d = AutoCommit::new().with_actor(ActorId::from(vec![1u8; 4]));
    d.put(&ROOT, "k", "v").unwrap();
    let l = d.put_object(&ROOT, "l", ObjType::List).unwrap();
    d.insert(&l, 0, 1).unwrap(); d.insert(&l, 1, ScalarValue::counter(3)).unwrap();
    let t = d.put_object(&ROOT, "t", ObjType::Text).unwrap();
    d.splice_text(&t, 0, 0, "hello").unwrap();
    d.commit_with(CommitOptions::default().with_message("m1"));
    let mut e = d.fork().with_actor(ActorId::from(vec![2u8; 4]));
    e.put(&ROOT, "k", "w").unwrap(); e.increment(&l, 1, 2).unwrap();
    e.mark(&t, Mark::new("b".into(), true, 1, 3), ExpandMark::Both).unwrap();
    e.commit();
    d.delete(&l, 0).unwrap(); d.commit();
    d.merge(&mut e).unwrap();
    d
}

fn run<F: Fn(&[u8]) + Send + Sync + Copy + 'static>(name: &str, good: &[u8], fix: bool, f: F, out: &mut BTreeMap<String, (usize, String)>) {
    let vals = [0u8, 1, 2, 0x7f, 0x80, 0xff];
    let mut hangs = 0;
    for pos in 0..good.len() {
        for v in vals {
            for mode in 0..5 {
                if hangs >= 3 { return; }
                let mut bad = good.to_vec();
                match mode { 0 => { if bad[pos] == v { continue; } bad[pos] = v; } 1 => { bad[pos] = bad[pos].wrapping_add(v | 1); } 2 => { if v != 0 { continue; } bad.remove(pos); } 3 => { bad.insert(pos, v); } _ => { bad[pos] = v; if pos + 1 < bad.len() { bad[pos + 1] = v ^ 0x81; } } }
                if fix { fix_len(&mut bad, good.len()); fix_checksum(&mut bad); }
                let input = bad.clone();
                let (tx, rx) = std::sync::mpsc::channel();
                std::thread::spawn(move || {
                    LOC.with(|l| *l.borrow_mut() = None);
                    let r = std::panic::catch_unwind(std::panic::AssertUnwindSafe(|| f(&input)));
                    let loc = LOC.with(|l| l.borrow().clone());
                    let _ = tx.send((r.is_err(), loc));
                });
                match rx.recv_timeout(std::time::Duration::from_secs(4)) {
                    Ok((true, loc)) => {
                        let e = out.entry(format!("{} :: {}", name, loc.unwrap_or("?".into()))).or_insert((0, hex::encode(&bad)));
                        e.0 += 1;
                    }
                    Ok((false, _)) => {}
                    Err(_) => {
                        hangs += 1;
                        let e = out.entry(format!("{} :: HANG(>4s) #{}", name, hangs)).or_insert((0, hex::encode(&bad)));
                        e.0 += 1;
                    }
                }
            }
        }
    }
}

thread_local! { static LOC: std::cell::RefCell<Option<String>> = std::cell::RefCell::new(None); }

#[test]
fn probe() {
    std::panic::set_hook(Box::new(|info| {
        let loc = info.location().map(|l| format!("{}:{}", l.file(), l.line())).unwrap_or_default();
        LOC.with(|l| *l.borrow_mut() = Some(loc));
    }));
    let mut out = BTreeMap::new();
    let mut d = sample_doc();
    let saved = d.save();
    let nocomp = d.save_nocompress();
    run("load", &saved, true, |b| { if let Ok(d) = Automerge::load(b) { exercise(&d); } }, &mut out);
    run("load(nocompress)", &nocomp, true, |b| { if let Ok(d) = Automerge::load(b) { exercise(&d); } }, &mut out);
    let changes: Vec<Change> = d.get_changes(&[]);
    let cbytes = changes[0].raw_bytes().to_vec();
    run("Change::from_bytes+apply", &cbytes, true, |b| { if let Ok(c) = Change::from_bytes(b.to_vec()) { let mut x = Automerge::new(); let _ = x.apply_changes([c]); } }, &mut out);
    run("load_incremental(change)", &cbytes, true, |b| { let mut x = Automerge::new(); if x.load_incremental(b).is_ok() { exercise(&x); } }, &mut out);
    let hashes: Vec<_> = changes.iter().map(|c| c.hash()).collect();
    let bundle = d.bundle(hashes).unwrap();
    let bb = bundle.bytes().to_vec();
    run("load_incremental(bundle)", &bb, true, |b| { let mut x = Automerge::new(); if x.load_incremental(b).is_ok() { exercise(&x); } }, &mut out);
    // sync message
    let mut peer = AutoCommit::new();
    let mut s1 = sync::State::new(); let mut s2 = sync::State::new();
    let m0 = peer.sync().generate_sync_message(&mut s2).unwrap();
    d.sync().receive_sync_message(&mut s1, m0).unwrap();
    let m1 = d.sync().generate_sync_message(&mut s1).unwrap().encode();
    run("Message::decode+receive+generate", &m1, false, |b| { if let Ok(m) = sync::Message::decode(b) { let mut x = Automerge::new(); let mut s = sync::State::new(); let _ = x.receive_sync_message(&mut s, m); let _ = x.generate_sync_message(&mut s); } }, &mut out);
    let st = s1.encode();
    run("State::decode", &st, false, |b| { let _ = sync::State::decode(b); }, &mut out);
    let _ = std::panic::take_hook();
    let mut lines = vec![];
    for (k, (n, ex)) in &out { lines.push(format!("{}\t{}\t{}", k, n, ex)); }
    std::fs::write("/tmp/d7c_panics.tsv", lines.join("\n")).unwrap();
    eprintln!("distinct panic sites: {}", out.len());
}
