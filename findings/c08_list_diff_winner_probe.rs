use automerge::transaction::Transactable;
use automerge::{ActorId, AutoCommit, ChangeHash, ObjType, ReadDoc, TextEncoding, ROOT};

const ENC: TextEncoding = TextEncoding::UnicodeCodePoint;

fn assert_diff_transforms(doc: &mut AutoCommit, h1: &[ChangeHash], h2: &[ChangeHash]) {
    let mut actual = doc.hydrate(&ROOT, Some(h1)).unwrap();
    let expected = doc.hydrate(&ROOT, Some(h2)).unwrap();
    let patches = doc.document().diff(h1, h2);
    actual.apply_patches(ENC, patches.clone()).unwrap_or_else(|e| panic!("patches do not apply: {e:?}\n{patches:#?}"));
    assert_eq!(actual, expected, "diff does not transform one state into the other\n{patches:#?}");
}

#[test]
fn list_overwrite_of_own_conflicting_value_keeps_new_winner() {
    let mut a = AutoCommit::new_with_encoding(ENC).with_actor(ActorId::from(vec![1]));
    let l = a.put_object(ROOT, "l", ObjType::List).unwrap();
    a.insert(&l, 0, "base").unwrap();
    a.commit();
    let mut b = a.fork().with_actor(ActorId::from(vec![2]));
    a.put(&l, 0, "from-a").unwrap(); a.commit();
    b.put(&l, 0, "from-b").unwrap(); b.commit();
    a.merge(&mut b).unwrap();
    let h1 = a.get_heads();
    b.put(&l, 0, "from-b-again").unwrap(); b.commit();
    a.merge(&mut b).unwrap();
    let h2 = a.get_heads();
    assert_eq!(a.get_all(&l, 0).unwrap().len(), 2);
    assert_diff_transforms(&mut a, &h1, &h2);
    assert_diff_transforms(&mut a, &h2, &h1);
}

#[test]
fn list_three_way_middle_overwritten() {
    let mut first = AutoCommit::new_with_encoding(ENC).with_actor(ActorId::from(vec![1]));
    let l = first.put_object(ROOT, "l", ObjType::List).unwrap();
    first.insert(&l, 0, "base").unwrap();
    first.commit();
    let mut second = first.fork().with_actor(ActorId::from(vec![2]));
    let mut third = first.fork().with_actor(ActorId::from(vec![3]));
    first.put(&l, 0, "one").unwrap(); first.commit();
    second.put(&l, 0, "two").unwrap(); second.commit();
    third.put(&l, 0, "three").unwrap(); third.commit();
    first.merge(&mut second).unwrap();
    first.merge(&mut third).unwrap();
    let h1 = first.get_heads();
    // second has only seen its own value: this supersedes "two" only, with a low counter
    second.put(&l, 0, 2).unwrap(); second.commit();
    first.merge(&mut second).unwrap();
    let h2 = first.get_heads();
    assert_diff_transforms(&mut first, &h1, &h2);
    assert_diff_transforms(&mut first, &h2, &h1);
}
