use automerge::{legacy as l, transaction::Transactable, ActorId, AutoCommit, Automerge, Change, ExpandedChange, ObjType, ReadDoc, ROOT};
fn try_it(name: &str, f: impl FnOnce() + std::panic::UnwindSafe) {
    match std::panic::catch_unwind(f) { Ok(()) => eprintln!("HYP2 {} -> ok", name), Err(e) => eprintln!("HYP2 {} -> PANIC {:?}", name, e.downcast_ref::<String>().cloned().or(e.downcast_ref::<&str>().map(|s| s.to_string()))) }
}
fn ch(ops: Vec<l::Op>, actor: ActorId, start: u64, deps: Vec<automerge::ChangeHash>) -> Change {
    Change::from(ExpandedChange { operations: ops, actor_id: actor, hash: None, seq: 1, start_op: std::num::NonZero::new(start).unwrap(), time: 0, message: None, deps, extra_bytes: vec![] })
}
fn exercise(d: &Automerge) {
    let _ = d.hydrate(None);
    let _ = serde_json::to_string(&automerge::AutoSerde::from(d));
    for k in d.keys(ROOT) { let _ = d.get(ROOT, k.as_str()); let _ = d.get_all(ROOT, k.as_str()); }
    let _ = d.map_range(ROOT, ..).count();
    let saved = d.save();
    let r = Automerge::load(&saved).map(|x| { let _ = x.hydrate(None); });
    eprintln!("      reload: {:?}", r.is_ok());
}
#[test]
fn hyp2() {
    let a = ActorId::from(vec![7u8; 4]);
    let a1 = a.clone();
    try_it("increment op on a map key that holds nothing", move || {
        let c = ch(vec![l::Op { action: l::OpType::Increment(5), obj: l::ObjectId::Root, key: l::Key::Map("k".into()), pred: l::SortedVec::new(), insert: false }], a1, 1, vec![]);
        let mut d = Automerge::new(); let r = d.load_incremental(c.raw_bytes()); eprintln!("   apply {:?}", r.map(|_| ()));
        exercise(&d);
    });
    let a2 = a.clone();
    try_it("delete op with no predecessor", move || {
        let c = ch(vec![l::Op { action: l::OpType::Delete, obj: l::ObjectId::Root, key: l::Key::Map("k".into()), pred: l::SortedVec::new(), insert: false }], a2, 1, vec![]);
        let mut d = Automerge::new(); let r = d.load_incremental(c.raw_bytes()); eprintln!("   apply {:?}", r.map(|_| ()));
        exercise(&d);
    });
    let a3 = a.clone();
    try_it("mark op in a map", move || {
        let c = ch(vec![l::Op { action: l::OpType::MarkBegin(l::MarkData { name: "b".into(), value: true.into(), expand: false }), obj: l::ObjectId::Root, key: l::Key::Map("k".into()), pred: l::SortedVec::new(), insert: false }], a3, 1, vec![]);
        let mut d = Automerge::new(); let r = d.load_incremental(c.raw_bytes()); eprintln!("   apply {:?}", r.map(|_| ()));
        exercise(&d);
    });
    let a4 = a.clone();
    try_it("increment of a non-counter value", move || {
        let mut base = AutoCommit::new().with_actor(ActorId::from(vec![1u8; 4]));
        base.put(&ROOT, "k", "str").unwrap(); let h = base.commit().unwrap();
        let c = ch(vec![l::Op { action: l::OpType::Increment(5), obj: l::ObjectId::Root, key: l::Key::Map("k".into()), pred: vec![l::OpId(1, ActorId::from(vec![1u8; 4]))].into(), insert: false }], a4, 2, vec![h]);
        let mut d = base.document().clone(); let r = d.load_incremental(c.raw_bytes()); eprintln!("   apply {:?}", r.map(|_| ()));
        exercise(&d);
    });
}
