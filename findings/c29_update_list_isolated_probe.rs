use automerge::{transaction::Transactable, AutoCommit, ObjType, ReadDoc, ROOT, hydrate_list, hydrate};

#[test]
fn update_object_on_list_under_isolation() {
    let mut doc = AutoCommit::new();
    let list = doc.put_object(ROOT, "l", ObjType::List).unwrap();
    doc.insert(&list, 0, "a").unwrap();
    doc.insert(&list, 1, "b").unwrap();
    doc.commit();
    let heads = doc.get_heads();
    // later edits, outside the scope
    doc.insert(&list, 2, "c").unwrap();
    doc.insert(&list, 3, "d").unwrap();
    doc.commit();

    // reference: the same edit on a fork at heads
    let mut fork = doc.fork_at(&heads).unwrap();
    let target: hydrate::Value = hydrate_list!["a", "b", "x"].into();
    fork.update_object(&list, &target).unwrap();
    let want: Vec<String> = fork.list_range(&list, ..).map(|i| format!("{:?}", i.value)).collect();

    doc.isolate(&heads);
    let before: Vec<String> = doc.list_range(&list, ..).map(|i| format!("{:?}", i.value)).collect();
    assert_eq!(before.len(), 2, "isolated view shows the state at heads");
    doc.update_object(&list, &target).unwrap();
    let got: Vec<String> = doc.list_range(&list, ..).map(|i| format!("{:?}", i.value)).collect();
    assert_eq!(got, want, "isolated update_object(list) must reach the target value");
}
