use automerge::{transaction::Transactable, ActorId, AutoCommit, Automerge, ObjType, PatchLog, ReadDoc, ROOT};
fn try_it(name: &str, f: impl FnOnce() + std::panic::UnwindSafe) {
    match std::panic::catch_unwind(f) { Ok(()) => eprintln!("C37B {} -> ok", name), Err(e) => eprintln!("C37B {} -> PANIC {:?}", name, e.downcast_ref::<String>().cloned().or(e.downcast_ref::<&str>().map(|s| s.to_string()))) }
}
#[test]
fn c37b() {
    try_it("cursor of list A resolved against list B (same document)", || {
        let mut d = AutoCommit::new();
        let a = d.put_object(&ROOT, "a", ObjType::List).unwrap();
        let b = d.put_object(&ROOT, "b", ObjType::List).unwrap();
        for i in 0..3 { d.insert(&a, i, i as i64).unwrap(); d.insert(&b, i, i as i64).unwrap(); }
        let ta = d.put_object(&ROOT, "ta", ObjType::Text).unwrap();
        let tb = d.put_object(&ROOT, "tb", ObjType::Text).unwrap();
        d.splice_text(&ta, 0, 0, "hello").unwrap(); d.splice_text(&tb, 0, 0, "world").unwrap();
        d.commit();
        let ca = d.get_cursor(&a, 1, None).unwrap();
        eprintln!("   list: {:?}", d.get_cursor_position(&b, &ca, None));
        let cta = d.get_cursor(&ta, 1, None).unwrap();
        eprintln!("   text: {:?}", d.get_cursor_position(&tb, &cta, None));
        eprintln!("   list cursor on text: {:?}", d.get_cursor_position(&tb, &ca, None));
        let heads = d.get_heads();
        eprintln!("   at heads: {:?}", d.get_cursor_position(&b, &ca, Some(&heads)));
    });
    try_it("make_patches / diff with a patch log that has seen another document", || {
        let mut d1 = AutoCommit::new().with_actor(ActorId::from(vec![5u8; 4]));
        d1.put(&ROOT, "k", 1).unwrap(); d1.commit();
        let mut d2 = Automerge::new().with_actor(ActorId::from(vec![1u8; 4]));
        let mut log = PatchLog::active();
        { let mut tx = d2.transaction_log_patches(log).unwrap(); tx.put(ROOT, "x", 1).unwrap(); let (_, l) = tx.commit(); log = l; }
        let doc1: &Automerge = d1.document();
        let r = std::panic::catch_unwind(std::panic::AssertUnwindSafe(|| doc1.make_patches(&mut log)));
        eprintln!("   make_patches on another document: {:?}", r.map(|p| p.len()).map_err(|_| "panic"));
    });
}
