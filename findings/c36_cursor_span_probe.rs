// Demonstration for seeded change C36-1.
//
// Property C36: every `AMbyteSpan` handed out by the C API borrows from the
// `AMresult` that owns the underlying handle and must stay valid until that
// result is passed to `AMresultFree()`.
//
// The crate is a `staticlib`, so an integration test cannot link against it;
// its sources are therefore compiled directly into this test binary and the
// `extern "C"` entry points are called exactly as a C caller would.
#![allow(dead_code, unused_imports, unused_macros, clippy::all)]

include!("../src/lib.rs");

use std::alloc::{GlobalAlloc, Layout, System};
use std::sync::atomic::{AtomicBool, AtomicUsize, Ordering};

use byte_span::{AMbyteSpan, AMstr};
use cursor::{AMcursor, AMcursorBytes, AMcursorFromStr, AMcursorStr};
use item::AMitemToCursor;
use result::{AMresultFree, AMresultItem, AMresultStatus, AMstatus};
/// A global allocator that reports whether one watched block has been
/// released. This lets the test observe a dangling `AMbyteSpan` without ever
/// dereferencing it.
struct WatchAlloc;

static WATCHED: AtomicUsize = AtomicUsize::new(0);
static WATCHED_FREED: AtomicBool = AtomicBool::new(false);

unsafe impl GlobalAlloc for WatchAlloc {
    unsafe fn alloc(&self, layout: Layout) -> *mut u8 {
        System.alloc(layout)
    }
    unsafe fn dealloc(&self, ptr: *mut u8, layout: Layout) {
        let watched = WATCHED.load(Ordering::SeqCst);
        if watched != 0 && watched == ptr as usize {
            WATCHED_FREED.store(true, Ordering::SeqCst);
        }
        System.dealloc(ptr, layout)
    }
    unsafe fn realloc(&self, ptr: *mut u8, layout: Layout, new_size: usize) -> *mut u8 {
        let watched = WATCHED.load(Ordering::SeqCst);
        let new_ptr = System.realloc(ptr, layout, new_size);
        if watched != 0 && watched == ptr as usize && new_ptr != ptr {
            WATCHED_FREED.store(true, Ordering::SeqCst);
        }
        new_ptr
    }
}

#[global_allocator]
static GLOBAL: WatchAlloc = WatchAlloc;


#[test]
fn cursor_spans_outlive_a_second_call() {
    use automerge::{transaction::Transactable, ReadDoc};
    let mut d = automerge::AutoCommit::new();
    let t = d.put_object(automerge::ROOT, "t", automerge::ObjType::Text).unwrap();
    d.splice_text(&t, 0, 0, "hello").unwrap();
    let cur = d.get_cursor(&t, 2, None).unwrap().to_string();
    unsafe {
        let c = std::ffi::CString::new(cur.clone()).unwrap();
        let res = AMcursorFromStr(AMstr(c.as_ptr()));
        assert!(AMresultStatus(res) == AMstatus::Ok);
        let mut cursor: *const AMcursor = std::ptr::null();
        assert!(AMitemToCursor(AMresultItem(res), &mut cursor));
        for (name, f) in [("AMcursorStr", AMcursorStr as unsafe extern "C" fn(*const AMcursor) -> AMbyteSpan), ("AMcursorBytes", AMcursorBytes as unsafe extern "C" fn(*const AMcursor) -> AMbyteSpan)] {
            let first = f(cursor);
            WATCHED_FREED.store(false, Ordering::SeqCst);
            WATCHED.store(first.src as usize, Ordering::SeqCst);
            let second = f(cursor);
            let freed_early = WATCHED_FREED.load(Ordering::SeqCst);
            WATCHED.store(0, Ordering::SeqCst);
            eprintln!("C36 {}: first span {:p}, second span {:p}, storage of the first span freed while the AMresult is alive: {}", name, first.src, second.src, freed_early);
        }
        AMresultFree(res);
    }
}
