use automerge::{transaction::Transactable, AutoCommit, ObjType, ReadDoc, ROOT, ActorId};

fn setup() -> (AutoCommit, automerge::ObjId, automerge::Cursor, automerge::Cursor) {
    let mut a = AutoCommit::new().with_actor(ActorId::from([1u8; 16]));
    let list = a.put_object(ROOT, "l", ObjType::List).unwrap();
    a.insert(&list, 0, "p").unwrap();
    a.insert(&list, 1, "q").unwrap();
    a.commit();
    let mut b = a.fork().with_actor(ActorId::from([9u8; 16]));
    a.put(&list, 1, "from-a").unwrap();
    a.commit();
    b.put(&list, 1, "from-b").unwrap();
    b.commit();
    // cursors on a's value of element 1, taken before the merge
    let after = a.get_cursor(&list, 1, None).unwrap();
    let before = a.get_cursor_moving(&list, 1, None, automerge::MoveCursor::Before).unwrap();
    a.merge(&mut b).unwrap();
    // b's actor is greater: "from-b" wins, "from-a" is a visible conflicting value of element 1
    assert_eq!(a.get_all(&list, 1).unwrap().len(), 2);
    (a, list, after, before)
}

#[test]
fn cursor_on_conflict_loser_after() {
    let (mut a, list, after, _) = setup();
    assert_eq!(a.get_cursor_position(&list, &after, None).unwrap(), 1);
}

#[test]
fn cursor_on_conflict_loser_before() {
    let (mut a, list, _, before) = setup();
    assert_eq!(a.get_cursor_position(&list, &before, None).unwrap(), 1);
}

#[test]
fn cursor_on_conflict_loser_at_heads_agrees() {
    let (mut a, list, _, before) = setup();
    let heads = a.get_heads();
    assert_eq!(a.get_cursor_position(&list, &before, Some(&heads)).unwrap(), 1);
}
