fn leb(mut v: u64, out: &mut Vec<u8>) { loop { let b = (v & 0x7f) as u8; v >>= 7; if v == 0 { out.push(b); break; } out.push(b | 0x80); } }
#[test]
fn bool_counts_overflow() {
    let mut b = vec![]; leb(1u64 << 63, &mut b); leb(1u64 << 63, &mut b);
    let r = std::panic::catch_unwind(|| hexane::Column::<bool>::load(&b).map(|c| c.len()));
    eprintln!("BOOL two runs of 2^63 ({} bytes): {:?}", b.len(), r.as_ref().map_err(|e| e.downcast_ref::<String>().cloned().or(e.downcast_ref::<&str>().map(|s| s.to_string()))));
}
