use automerge::{transaction::Transactable, AutoCommit, ObjType, ReadDoc, ROOT, iter::Span};

fn text_of(doc: &AutoCommit, t: &automerge::ObjId) -> String { doc.text(t).unwrap() }

#[test]
fn update_spans_deletes_whole_grapheme() {
    let mut doc = AutoCommit::new();
    let t = doc.put_object(ROOT, "t", ObjType::Text).unwrap();
    doc.splice_text(&t, 0, 0, "e\u{301}x").unwrap();
    doc.commit();
    doc.update_spans(&t, automerge::marks::UpdateSpansConfig::default(), [Span::Text { text: "x".into(), marks: None }]).unwrap();
    assert_eq!(text_of(&doc, &t), "x");
}

#[test]
fn update_spans_replaces_whole_grapheme() {
    let mut doc = AutoCommit::new();
    let t = doc.put_object(ROOT, "t", ObjType::Text).unwrap();
    doc.splice_text(&t, 0, 0, "ae\u{301}x").unwrap();
    doc.commit();
    doc.update_spans(&t, automerge::marks::UpdateSpansConfig::default(), [Span::Text { text: "aox".into(), marks: None }]).unwrap();
    assert_eq!(text_of(&doc, &t), "aox");
}
