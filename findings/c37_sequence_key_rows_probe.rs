use automerge::{legacy as l, transaction::Transactable, ActorId, AutoCommit, Automerge, Change, Cursor, ExpandedChange, ObjType, ReadDoc, ROOT, marks::{Mark, ExpandMark}};
fn try_it(name: &str, f: impl FnOnce() + std::panic::UnwindSafe) {
    match std::panic::catch_unwind(f) { Ok(()) => eprintln!("HYP3 {} -> ok", name), Err(e) => eprintln!("HYP3 {} -> PANIC {:?}", name, e.downcast_ref::<String>().cloned().or(e.downcast_ref::<&str>().map(|s| s.to_string()))) }
}
fn ch(ops: Vec<l::Op>, actor: ActorId, start: u64, deps: Vec<automerge::ChangeHash>) -> Change {
    Change::from(ExpandedChange { operations: ops, actor_id: actor, hash: None, seq: 1, start_op: std::num::NonZero::new(start).unwrap(), time: 0, message: None, deps, extra_bytes: vec![] })
}
#[test]
fn hyp3() {
    let base_actor = ActorId::from(vec![1u8; 4]);
    let a = ActorId::from(vec![7u8; 4]);
    for (kind, ty) in [("list", ObjType::List), ("text", ObjType::Text)] {
        let a2 = a.clone(); let ba = base_actor.clone();
        try_it(&format!("map-keyed op inside a {}: cursors, blocks, splices", kind), move || {
            let mut base = AutoCommit::new().with_actor(ba.clone());
            let obj = base.put_object(&ROOT, "o", ty).unwrap();            // op 1
            if ty == ObjType::Text { base.splice_text(&obj, 0, 0, "abc").unwrap(); } else { for i in 0..3 { base.insert(&obj, i, i as i64).unwrap(); } }   // ops 2..4
            let h = base.commit().unwrap();
            let c = ch(vec![l::Op { action: l::OpType::Put("x".into()), obj: l::ObjectId::Id(l::OpId(1, ba.clone())), key: l::Key::Map("k".into()), pred: l::SortedVec::new(), insert: false }], a2.clone(), 5, vec![h]);
            let mut d = base.clone();
            d.load_incremental(c.raw_bytes()).unwrap();
            // a cursor that names the crafted op (counter 5 of actor a2)
            for s in [format!("5@{}", a2.to_hex_string()), format!("-5@{}", a2.to_hex_string())] {
                if let Ok(cur) = Cursor::try_from(s.as_str()) {
                    eprintln!("   cursor {} -> {:?}", s, d.get_cursor_position(&obj, &cur, None));
                    let heads = d.get_heads();
                    eprintln!("   cursor {} at heads -> {:?}", s, d.get_cursor_position(&obj, &cur, Some(&heads)));
                }
            }
            eprintln!("   len {} ", d.length(&obj));
            if ty == ObjType::Text {
                eprintln!("   text {:?}", d.text(&obj));
                eprintln!("   spans {:?}", d.spans(&obj).map(|s| s.count()));
                eprintln!("   mark {:?}", d.mark(&obj, Mark::new("b".into(), true, 0, 2), ExpandMark::Both));
                eprintln!("   split_block {:?}", d.split_block(&obj, 1).map(|_| ()));
                eprintln!("   join_block {:?}", d.join_block(&obj, 1));
                eprintln!("   splice {:?}", d.splice_text(&obj, 0, 3, "zz"));
            } else {
                eprintln!("   get_all {:?}", d.get_all(&obj, 0).map(|v| v.len()));
                eprintln!("   delete {:?}", d.delete(&obj, 0));
                eprintln!("   splice {:?}", d.splice(&obj, 0, 2, [automerge::ScalarValue::Int(1)]));
            }
            let _ = d.hydrate(&ROOT, None);
            let _ = d.save();
            d.commit();
            let hh = d.get_heads(); let _ = d.diff(&[], &hh);
        });
    }
}
