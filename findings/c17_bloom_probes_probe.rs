use automerge::sync::{self, BloomFilter, SyncDoc};
use automerge::{transaction::Transactable, AutoCommit, ROOT};
fn leb(mut v: u64, out: &mut Vec<u8>) { loop { let b = (v & 0x7f) as u8; v >>= 7; if v == 0 { out.push(b); break; } out.push(b | 0x80); } }
fn peak_mb() -> u64 { std::fs::read_to_string("/proc/self/status").unwrap().lines().find(|l| l.starts_with("VmHWM")).unwrap().split_whitespace().nth(1).unwrap().parse::<u64>().unwrap() / 1024 }
#[test]
fn bloom() {
    // filter: 1 entry, 10 bits per entry, num_probes = 2^28, 2 bytes of bits
    let mut f = vec![]; leb(1, &mut f); leb(10, &mut f); leb(1 << 28, &mut f); f.extend([0xff, 0xff]);
    let filter = BloomFilter::try_from(&f[..]).unwrap();
    // put it into a sync message's `have` and let a document with a few changes answer
    let mut d = AutoCommit::new();
    for i in 0..3 { d.put(&ROOT, "k", i).unwrap(); d.commit(); }
    let mut peer = AutoCommit::new();
    let mut s_peer = sync::State::new();
    let mut msg = peer.sync().generate_sync_message(&mut s_peer).unwrap();
    msg.have = vec![sync::Have { last_sync: vec![], bloom: filter }];
    let bytes = msg.encode();
    let base = peak_mb(); let t = std::time::Instant::now();
    let m = sync::Message::decode(&bytes).unwrap();
    eprintln!("   decoded have: {:?}", m.have.len());
    let mut st = sync::State::new();
    d.sync().receive_sync_message(&mut st, m).unwrap();
    let out = d.sync().generate_sync_message(&mut st);
    eprintln!("   reply: {:?}", out.map(|m| format!("{:?}", m).chars().take(200).collect::<String>()));
    let h = d.get_heads()[0];
    let base2 = peak_mb(); let t2 = std::time::Instant::now();
    let filter2 = BloomFilter::try_from(&f[..]).unwrap();
    let r = filter2.contains_hash(&h);
    eprintln!("BLOOM filter of {} bytes, contains_hash -> {}: peak RSS grew by {} MB, {:?}", f.len(), r, peak_mb() - base2, t2.elapsed());
    eprintln!("BLOOM message of {} bytes: peak RSS grew by {} MB, {:?}", bytes.len(), peak_mb() - base, t.elapsed());
}
