// C27: init_root_from_hydrate "overwrites the keys of the root object with the values from
// `value`" (its documentation) and must create exactly the given value, with the same state and
// reload as building it call by call.
use automerge::transaction::Transactable;
use automerge::{hydrate_map, ActorId, AutoCommit, ObjType, ReadDoc, Value, ROOT};

#[test]
fn init_root_from_hydrate_on_a_document_that_already_has_content() {
    // the document already has a root key and a child object
    let mut doc = AutoCommit::new().with_actor(ActorId::from(vec![1u8; 4]));
    doc.put(ROOT, "a", 1_i64).unwrap();
    let m = doc.put_object(ROOT, "m", ObjType::Map).unwrap();
    doc.put(&m, "x", 1_i64).unwrap();
    doc.commit();

    // the same thing done call by call
    let mut by_hand = doc.fork().with_actor(ActorId::from(vec![2u8; 4]));
    by_hand.put(ROOT, "a", 2_i64).unwrap();
    let z = by_hand.put_object(ROOT, "z", ObjType::Map).unwrap();
    by_hand.put(&z, "q", 1_i64).unwrap();
    by_hand.commit();

    let value = hydrate_map! {
        "a" => 2_i64,
        "z" => hydrate_map!{ "q" => 1_i64 },
    };
    doc.init_root_from_hydrate(&value).unwrap();
    doc.commit();

    assert_eq!(
        doc.get(ROOT, "a").unwrap().map(|(v, _)| v),
        Some(Value::int(2)),
        "C27: after init_root_from_hydrate the root key `a` must hold the given value 2 (the old value 1 is overwritten)"
    );
    assert!(
        doc.get(ROOT, "z").unwrap().is_some(),
        "C27: after init_root_from_hydrate the root key `z` from the given value must exist"
    );
    assert_eq!(
        doc.hydrate(ROOT, None).unwrap(),
        by_hand.hydrate(ROOT, None).unwrap(),
        "C27: init_root_from_hydrate must give the same state as building the value call by call"
    );
    let reloaded = AutoCommit::load(&doc.save()).expect("C27: the document's own save() must load");
    assert_eq!(
        reloaded.hydrate(ROOT, None).unwrap(),
        by_hand.hydrate(ROOT, None).unwrap(),
        "C27: the reloaded document must hold the given value too"
    );
}
