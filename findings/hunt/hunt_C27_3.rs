// C27: after update_text(obj, s) the text is s, for every prior document state.
use automerge::transaction::Transactable;
use automerge::{ActorId, AutoCommit, ObjType, ReadDoc, ROOT};

#[test]
fn update_text_over_an_element_that_holds_several_characters() {
    let mut doc = AutoCommit::new().with_actor(ActorId::from(vec![1u8; 4]));
    let t = doc.put_object(ROOT, "t", ObjType::Text).unwrap();
    // one element whose value is a five character string (what `insert` with a string does);
    // text() and length() report it as five units
    doc.insert(&t, 0, "hello").unwrap();
    doc.commit();
    assert_eq!(doc.text(&t).unwrap(), "hello");
    assert_eq!(doc.length(&t), 5);

    doc.update_text(&t, "hxllo").unwrap();
    assert_eq!(
        doc.text(&t).unwrap(),
        "hxllo",
        "C27: update_text returned Ok, so the text must now be the requested string"
    );
}
