use automerge::transaction::Transactable;
use automerge::{ActorId, AutoCommit, ObjType, ReadDoc, TextEncoding, ROOT};

// Property C37: values the library itself produced, such as patches passed to
// hydrate::Value::apply_patches, are always accepted (and reproduce the document).
#[test]
fn join_block_inside_a_multi_unit_block_marker_logs_a_patch_that_fits_the_text() {
    let enc = TextEncoding::Utf8CodeUnit;
    let mut doc = AutoCommit::new_with_encoding(enc);
    doc.set_actor(ActorId::from(vec![1u8]));
    let text = doc.put_object(ROOT, "t", ObjType::Text).unwrap();
    // a block marker is 3 units wide in UTF-8 (U+FFFC)
    doc.split_block(&text, 0).unwrap();
    doc.commit();
    assert_eq!(doc.length(&text), 3);

    doc.update_diff_cursor();
    let mut hydrated = doc.hydrate(&ROOT, None).unwrap();

    // index 1 is inside the marker; the call succeeds and removes the marker
    doc.join_block(&text, 1).unwrap();
    doc.commit();
    assert_eq!(doc.length(&text), 0);
    assert_eq!(doc.text(&text).unwrap(), "");

    let patches = doc.diff_incremental();
    let shown = format!("{patches:?}");
    let result = hydrated.apply_patches(enc, patches);
    assert!(
        result.is_ok(),
        "patches produced by the library must be accepted by apply_patches, got {result:?} for {shown}"
    );
    assert_eq!(
        hydrated,
        doc.hydrate(&ROOT, None).unwrap(),
        "applying the library's own patches must reproduce the document; patches were {shown}"
    );
}
