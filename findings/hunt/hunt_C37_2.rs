use automerge::transaction::Transactable;
use automerge::{ActorId, AutoCommit, ReadDoc, TextEncoding, ROOT};

// Property C37 (isolation at older heads / historical heads): diff(before, after)
// answers for the heads it was given, whatever the isolation state of the document.
#[test]
fn diff_between_explicit_heads_while_isolated_is_not_answered_from_the_isolated_patch_log() {
    let enc = TextEncoding::UnicodeCodePoint;
    let mut doc = AutoCommit::new_with_encoding(enc);
    doc.set_actor(ActorId::from(vec![1u8]));
    doc.put(ROOT, "a", 1).unwrap();
    doc.commit();
    let h1 = doc.get_heads();
    doc.put(ROOT, "b", 2).unwrap();
    doc.commit();
    let h2 = doc.get_heads();

    doc.isolate(&h1);
    doc.update_diff_cursor();

    let mut actual = doc.hydrate(&ROOT, Some(&h1)).unwrap();
    let expected = doc.hydrate(&ROOT, Some(&h2)).unwrap();
    let patches = doc.diff(&h1, &h2);
    let shown = format!("{patches:?}");
    actual.apply_patches(enc, patches).unwrap();
    assert_eq!(
        actual, expected,
        "diff(h1, h2) must describe the change from h1 to h2 (put b = 2); patches were {shown}"
    );
}
