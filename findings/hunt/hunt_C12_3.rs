use automerge::{
    transaction::{CommitOptions, Transactable},
    ActorId, AutoCommit, ReadDoc, ROOT,
};

// The pieces written by one writer must be loadable in any order. Here the writer records an
// empty change, then works isolated at the empty heads. The isolated change is written with the
// writer's own actor and seq 2 but without a dependency on its seq 1 change, so a reader that
// receives the second piece first applies seq 2 before seq 1.
#[test]
fn pieces_loaded_in_reverse_order_after_isolated_edit() {
    let mut writer = AutoCommit::new().with_actor(ActorId::from(vec![5u8, 5, 5]));
    writer.empty_change(CommitOptions::default());
    let piece1 = writer.save_incremental();

    writer.isolate(&[]);
    writer.put(&ROOT, "k", 1).unwrap();
    writer.integrate();
    let piece2 = writer.save_incremental();
    assert!(!piece1.is_empty() && !piece2.is_empty());

    // in order: fine
    let mut in_order = AutoCommit::new();
    in_order.load_incremental(&piece1).unwrap();
    in_order.load_incremental(&piece2).unwrap();
    assert_eq!(in_order.get_heads(), writer.get_heads());

    // reverse order
    let result = std::panic::catch_unwind(|| {
        let mut reader = AutoCommit::new();
        reader.load_incremental(&piece2).unwrap();
        reader.load_incremental(&piece1).unwrap();
        reader
    });
    assert!(
        result.is_ok(),
        "C12: load_incremental over the writer's pieces must work in every order, it panicked"
    );
    let mut reader = result.unwrap();
    let mut got = reader.get_heads();
    got.sort();
    let mut want = writer.get_heads();
    want.sort();
    assert_eq!(got, want, "C12: reader fed every piece must equal the writer");
    assert_eq!(
        reader.get(&ROOT, "k").unwrap().map(|(v, _)| v.to_string()),
        writer.get(&ROOT, "k").unwrap().map(|(v, _)| v.to_string())
    );
}
