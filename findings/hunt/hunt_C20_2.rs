// C20: two-peer sync converges and goes quiet.
//
// A holds a persisted sync state for B (State::encode / State::decode, the documented way to
// resume with the same peer) whose shared heads name a change X. B has since lost its data
// (the case the "reset" message exists for), has made a new change Y and now connects as a
// read-only (publish-only) peer. Every message of A advertises `have.last_sync = [X]`; B does not
// know X, so `generate_sync_message` on B returns `Message::reset(..)` unconditionally - before it
// looks at in_flight / have_responded and before it computes any changes to send. The reset
// carries B's heads but none of B's changes. A cannot drop X from its shared heads (B's heads are
// unknown to A so the old shared heads are kept), and B, being read-only, never applies X. The two
// peers ping-pong for ever: neither ever returns None and A never receives Y.

use automerge::sync::{self, SyncDoc};
use automerge::transaction::{CommitOptions, Transactable};
use automerge::{ActorId, Automerge, ReadDoc, ROOT};

fn commit_put(doc: &mut Automerge, key: &str, value: i64) {
    let mut tx = doc.transaction();
    tx.put(ROOT, key, value).unwrap();
    tx.commit_with(CommitOptions::default().with_time(0));
}

fn sync_until_quiet(
    a: &mut Automerge,
    sa: &mut sync::State,
    b: &mut Automerge,
    sb: &mut sync::State,
    bound: usize,
) -> Option<usize> {
    for round in 0..bound {
        let mut any = false;
        if let Some(m) = a.generate_sync_message(sa) {
            any = true;
            let m = sync::Message::decode(&m.encode()).unwrap();
            b.receive_sync_message(sb, m).unwrap();
        }
        if let Some(m) = b.generate_sync_message(sb) {
            any = true;
            let m = sync::Message::decode(&m.encode()).unwrap();
            a.receive_sync_message(sa, m).unwrap();
        }
        if !any {
            return Some(round);
        }
    }
    None
}

fn scenario(b_read_only: bool) {
    // session 1: A and B (both read-write) sync a change X
    let mut a = Automerge::new().with_actor(ActorId::from(vec![1u8]));
    commit_put(&mut a, "x", 1);
    let mut b_old = Automerge::new().with_actor(ActorId::from(vec![2u8]));
    let mut sa = sync::State::new();
    let mut sb_old = sync::State::new();
    assert!(sync_until_quiet(&mut a, &mut sa, &mut b_old, &mut sb_old, 10).is_some());
    assert_eq!(a.get_heads(), b_old.get_heads());
    // A persists its sync state for B
    let persisted = sa.encode();

    // B loses its data, starts again with one change Y
    let mut b = Automerge::new().with_actor(ActorId::from(vec![2u8]));
    commit_put(&mut b, "y", 2);
    let y = b.get_heads()[0];

    // session 2
    let mut sa = sync::State::decode(&persisted).unwrap();
    let mut sb = if b_read_only {
        sync::State::new_read_only()
    } else {
        sync::State::new()
    };
    let rounds = sync_until_quiet(&mut a, &mut sa, &mut b, &mut sb, 50);
    assert!(
        rounds.is_some(),
        "C20: with no edits and messages flowing both peers must return None from \
         generate_sync_message within a bounded number of rounds; still talking after 50 rounds, \
         A has B's change: {}",
        a.get_change_by_hash(&y).is_some()
    );
    assert!(
        a.get_change_by_hash(&y).is_some(),
        "C20: the read-write peer A must end up with the change of peer B"
    );
}

#[test]
fn reset_with_read_only_peer_goes_quiet() {
    scenario(true);
}

/// Control: the same data-loss scenario converges when B is an ordinary read-write peer.
#[test]
fn control_reset_with_read_write_peer() {
    scenario(false);
}
