// C30: object ids returned by the API (here: in the patches of diff_incremental) must name the
// objects that were really changed, also when the local actor is inserted before the actors of
// the loaded data in the sorted actor table.
use automerge::{transaction::Transactable, ActorId, AutoCommit, ObjType, ReadDoc, ROOT};

#[test]
fn incremental_patches_after_load_then_local_edit_by_smaller_actor() {
    // data written by a "large" actor
    let mut remote = AutoCommit::new().with_actor(ActorId::from(vec![9u8]));
    let list = remote.put_object(ROOT, "list", ObjType::List).unwrap();
    let inner = remote.insert_object(&list, 0, ObjType::Map).unwrap();
    remote.put(&inner, "k", "v").unwrap();
    let bytes = remote.save();

    // a fresh session with a "small" actor which observes patches
    let mut doc = AutoCommit::new().with_actor(ActorId::from(vec![1u8]));
    doc.update_diff_cursor();
    doc.load_incremental(&bytes).unwrap();
    // a local edit: actor 1 is inserted in front of actor 9 in the actor table
    doc.put(ROOT, "local", 1).unwrap();

    // ids from the other replica work here
    assert_eq!(doc.object_type(&list).unwrap(), ObjType::List);
    assert_eq!(doc.object_type(&inner).unwrap(), ObjType::Map);

    let patches = doc.diff_incremental();
    let shown: Vec<String> = patches
        .iter()
        .map(|p| format!("{} {:?} {:?}", p.obj, p.path, p.action))
        .collect();
    assert!(
        patches.iter().any(|p| p.obj == list),
        "C30: the patches must name the list {} whose element was inserted, got {:#?}",
        list,
        shown
    );
    assert!(
        patches.iter().any(|p| p.obj == inner),
        "C30: the patches must name the map {} whose key was set, got {:#?}",
        inner,
        shown
    );
    for p in &patches {
        assert!(
            doc.object_type(&p.obj).is_ok(),
            "C30: patch names object {} which does not exist in the document: {:#?}",
            p.obj,
            shown
        );
    }
}
