use automerge::{transaction::Transactable, AutoCommit, ObjType, ReadDoc, TextEncoding, ROOT};

// A writer which has not changed anything since its last save produces an empty
// save_incremental() piece. Feeding that (empty) piece to a fresh reader of the same text
// encoding must have no effect at all; afterwards the reader, fed the next pieces, must be
// equal to the writer.
#[test]
fn empty_incremental_piece_must_not_change_the_reader() {
    let enc = TextEncoding::Utf16CodeUnit;
    let mut writer = AutoCommit::new_with_encoding(enc);

    // nothing written yet: the piece is empty
    let piece0 = writer.save_incremental();
    assert!(piece0.is_empty());

    let text = writer.put_object(&ROOT, "text", ObjType::Text).unwrap();
    writer.splice_text(&text, 0, 0, "a\u{1F600}b").unwrap();
    let piece1 = writer.save_incremental();

    let mut reader = AutoCommit::new_with_encoding(enc);
    reader.load_incremental(&piece0).unwrap();
    assert_eq!(
        reader.text_encoding(),
        enc,
        "C12: loading an empty incremental piece must have no effect on the reader (its text encoding changed)"
    );
    reader.load_incremental(&piece1).unwrap();

    assert_eq!(writer.length(&text), 4);
    assert_eq!(
        reader.length(&text),
        writer.length(&text),
        "C12: reader fed every piece must equal the writer"
    );
}
