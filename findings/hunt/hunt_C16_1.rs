// C16: any document that load accepts behaves like a valid one: every read succeeds
// without panicking.
use automerge::transaction::Transactable;
use automerge::{ActorId, AutoCommit, ReadDoc, ScalarValue, ROOT};

#[test]
fn loaded_doc_with_counter_near_i64_max_can_be_read() {
    let mut d = AutoCommit::new().with_actor(ActorId::from(vec![1u8; 4]));
    d.put(ROOT, "c", ScalarValue::counter(i64::MAX)).unwrap();
    d.increment(ROOT, "c", 1).unwrap(); // accepted by the public API
    d.commit();
    let bytes = d.save();
    let loaded = AutoCommit::load(&bytes).expect("the library's own save output must load");
    let r = std::panic::catch_unwind(std::panic::AssertUnwindSafe(|| {
        let _ = loaded.get(ROOT, "c");
        let _ = loaded.document_hydrate();
    }));
    assert!(
        r.is_ok(),
        "C16: a document accepted by load must be readable without panicking, but get()/hydrate() on a counter whose increments exceed i64::MAX panicked (arithmetic overflow)"
    );
}

trait H {
    fn document_hydrate(&self);
}
impl H for AutoCommit {
    fn document_hydrate(&self) {
        let mut c = self.clone();
        let _ = c.document().hydrate(None);
    }
}
