// C16: any document that load accepts behaves like a valid one: edits and merges work.
use automerge::transaction::{CommitOptions, Transactable};
use automerge::{ActorId, AutoCommit, ROOT};

#[test]
fn loaded_doc_with_extreme_change_time_can_be_edited() {
    let mut d = AutoCommit::new().with_actor(ActorId::from(vec![1u8; 4]));
    d.put(ROOT, "a", 1).unwrap();
    d.commit_with(CommitOptions::default().with_time(i64::MIN));
    let bytes = d.save();
    let mut loaded = AutoCommit::load(&bytes).expect("the library's own save output must load");
    let r = std::panic::catch_unwind(std::panic::AssertUnwindSafe(|| {
        loaded.put(ROOT, "b", 2).unwrap();
        loaded.commit_with(CommitOptions::default().with_time(1));
        let b2 = loaded.save();
        AutoCommit::load(&b2).expect("save after edit must load");
    }));
    assert!(
        r.is_ok(),
        "C16: a loaded document must accept further edits, but committing a change with time 1 after a change with time i64::MIN panicked (timestamp delta overflow in the change graph)"
    );
}

#[test]
fn concatenation_of_two_saves_with_extreme_times_loads() {
    let mut a = AutoCommit::new().with_actor(ActorId::from(vec![1u8; 4]));
    a.put(ROOT, "a", 1).unwrap();
    a.commit_with(CommitOptions::default().with_time(i64::MIN));
    let mut b = AutoCommit::new().with_actor(ActorId::from(vec![2u8; 4]));
    b.put(ROOT, "b", 1).unwrap();
    b.commit_with(CommitOptions::default().with_time(i64::MAX));
    let mut bytes = a.save();
    bytes.extend(b.save_incremental());
    let r = std::panic::catch_unwind(|| AutoCommit::load(&bytes).map(|_| ()));
    assert!(
        matches!(r, Ok(Ok(()))),
        "C16: save() ++ save_incremental() of library documents must load without panicking, got {r:?}"
    );
}
