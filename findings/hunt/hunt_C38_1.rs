// C38: a change that would duplicate an (actor, seq) pair must be rejected or discarded and the
// document must stay consistent. Rejecting such a stale duplicate must not throw away queued
// changes which continue the actor branch the document already holds.
use automerge::transaction::Transactable;
use automerge::{ActorId, AutoCommit, AutomergeError, ReadDoc, ROOT};

#[test]
fn rejecting_stale_duplicate_seq_must_not_drop_queued_changes_of_the_documents_own_branch() {
    let a = ActorId::from(vec![0xaa]);
    let b = ActorId::from(vec![0xbb]);

    // actor A makes A1..A4 (k = 1..4)
    let mut origin = AutoCommit::new().with_actor(a.clone());
    origin.put(ROOT, "k", 1).unwrap();
    origin.commit();
    let saved1 = origin.save();
    let h1 = origin.get_heads();
    origin.put(ROOT, "k", 2).unwrap();
    origin.commit();
    let saved2 = origin.save();
    let h2 = origin.get_heads();
    origin.put(ROOT, "k", 3).unwrap();
    origin.commit();
    let h3 = origin.get_heads();
    let a3 = origin.get_changes(&h2);
    origin.put(ROOT, "k", 4).unwrap();
    origin.commit();
    let a4 = origin.get_changes(&h3);
    assert_eq!((a3[0].seq(), a4[0].seq()), (3, 4));

    // a stale reload of the save at A1 reuses actor A and makes a conflicting seq 2
    let mut stale = AutoCommit::load(&saved1).unwrap().with_actor(a.clone());
    stale.put(ROOT, "stale", 1).unwrap();
    stale.commit();
    let a2_conflicting = stale.get_changes(&h1);
    assert_eq!(a2_conflicting[0].seq(), 2);

    // the receiver holds A1, A2 and has A4 queued (accepted with Ok) waiting for A3
    let mut recv = AutoCommit::load(&saved2).unwrap().with_actor(b);
    recv.apply_changes(a4.clone()).unwrap();
    assert_eq!(recv.get_missing_deps(&[]), h3);

    // the conflicting seq 2 is rejected, as the property requires
    let r = recv.apply_changes(a2_conflicting);
    assert!(
        matches!(r, Err(AutomergeError::DuplicateSeqNumber(2, _))),
        "{:?}",
        r
    );

    // ... but the rejection must leave the queued A4 alone: it descends from the A2 the
    // document holds, not from the rejected one
    assert_eq!(
        recv.get_missing_deps(&[]),
        h3,
        "C38: rejecting a duplicate (actor, seq) must leave the document and its queue consistent; \
         the queued seq-4 change of the document's own branch was silently dropped"
    );

    // and once A3 arrives, the previously accepted A4 must be released
    recv.apply_changes(a3).unwrap();
    assert_eq!(
        recv.get_heads(),
        origin.get_heads(),
        "C38: A4 was accepted (Ok) before the rejected duplicate arrived and must be applied once A3 is there"
    );
    assert_eq!(recv.get(ROOT, "k").unwrap().unwrap().0.to_i64(), Some(4));
}
