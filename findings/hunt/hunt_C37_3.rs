use automerge::transaction::Transactable;
use automerge::{ActorId, AutoCommit, ObjType, ReadDoc, TextEncoding, ROOT};

// Property C37: patches the library itself produced are always accepted by
// hydrate::Value::apply_patches (and reproduce the document they describe).
//
// One merge delivers (a) a concurrent put with the LOWER op id and (b) the delete of the
// value currently on display. The surviving value is the concurrent put, so the patch must
// put it; the library only emits `Conflict`.
#[test]
fn merge_that_deletes_the_displayed_map_value_and_adds_a_lower_id_concurrent_value() {
    let enc = TextEncoding::UnicodeCodePoint;
    let mut base = AutoCommit::new_with_encoding(enc);
    base.set_actor(ActorId::from(vec![0u8]));
    base.put(ROOT, "x", 0).unwrap();
    base.commit();
    let mut view = base.fork().with_actor(ActorId::from(vec![9u8]));
    let mut hi = base.fork().with_actor(ActorId::from(vec![2u8]));
    let mut lo = base.fork().with_actor(ActorId::from(vec![1u8]));

    hi.put(ROOT, "t", 96).unwrap(); // 2@02
    hi.commit();
    lo.put(ROOT, "t", 8).unwrap(); // 2@01, concurrent, loses against 2@02
    lo.commit();

    view.merge(&mut hi).unwrap();
    view.update_diff_cursor();
    let mut hydrated = view.hydrate(&ROOT, None).unwrap();

    hi.delete(ROOT, "t").unwrap(); // deletes only 2@02
    hi.commit();
    hi.merge(&mut lo).unwrap();
    view.merge(&mut hi).unwrap(); // delivers 2@01 and the delete of 2@02 together
    assert_eq!(view.get(ROOT, "t").unwrap().unwrap().0.to_i64(), Some(8));
    assert_eq!(view.get_all(ROOT, "t").unwrap().len(), 1);

    let patches = view.diff_incremental();
    let shown = format!("{patches:?}");
    hydrated.apply_patches(enc, patches).unwrap();
    assert_eq!(
        hydrated,
        view.hydrate(&ROOT, None).unwrap(),
        "applying the library's own patches must reproduce the document (t = 8, no conflict); patches were {shown}"
    );
}

#[test]
fn merge_that_deletes_the_displayed_list_value_and_adds_a_lower_id_concurrent_value() {
    let enc = TextEncoding::UnicodeCodePoint;
    let mut base = AutoCommit::new_with_encoding(enc);
    base.set_actor(ActorId::from(vec![0u8]));
    let list = base.put_object(ROOT, "l", ObjType::List).unwrap();
    base.insert(&list, 0, 0).unwrap();
    base.commit();
    let mut view = base.fork().with_actor(ActorId::from(vec![9u8]));
    let mut hi = base.fork().with_actor(ActorId::from(vec![2u8]));
    let mut lo = base.fork().with_actor(ActorId::from(vec![1u8]));

    hi.put(&list, 0, 96).unwrap();
    hi.commit();
    lo.put(&list, 0, 8).unwrap();
    lo.commit();

    view.merge(&mut hi).unwrap();
    view.update_diff_cursor();
    let mut hydrated = view.hydrate(&ROOT, None).unwrap();

    hi.delete(&list, 0).unwrap();
    hi.commit();
    hi.merge(&mut lo).unwrap();
    view.merge(&mut hi).unwrap();
    assert_eq!(view.get(&list, 0).unwrap().unwrap().0.to_i64(), Some(8));

    let patches = view.diff_incremental();
    let shown = format!("{patches:?}");
    hydrated.apply_patches(enc, patches).unwrap();
    assert_eq!(
        hydrated,
        view.hydrate(&ROOT, None).unwrap(),
        "applying the library's own patches must reproduce the document (l = [8], no conflict); patches were {shown}"
    );
}
