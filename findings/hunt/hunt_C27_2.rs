// C27: after update_text(obj, s) the text is s, in every TextEncoding.
use automerge::transaction::Transactable;
use automerge::{ActorId, AutoCommit, ObjType, ReadDoc, TextEncoding, ROOT};

#[test]
fn update_text_grapheme_cluster_encoding_combining_mark_typed_separately() {
    let mut doc = AutoCommit::new_with_encoding(TextEncoding::GraphemeCluster)
        .with_actor(ActorId::from(vec![1u8; 4]));
    let t = doc.put_object(ROOT, "t", ObjType::Text).unwrap();
    // "e" and the combining acute accent arrive in two splices, so they are two elements of
    // width 1 each, although together they read as the single grapheme "é"
    doc.splice_text(&t, 0, 0, "ae").unwrap();
    doc.splice_text(&t, 2, 0, "\u{301}b").unwrap();
    assert_eq!(doc.text(&t).unwrap(), "ae\u{301}b");
    assert_eq!(doc.length(&t), 4);

    doc.update_text(&t, "ae\u{301}xb").unwrap();
    assert_eq!(
        doc.text(&t).unwrap(),
        "ae\u{301}xb",
        "C27: after update_text(obj, s) the text must be s (an x inserted after the accented e)"
    );

    doc.update_text(&t, "ab").unwrap();
    assert_eq!(
        doc.text(&t).unwrap(),
        "ab",
        "C27: after update_text(obj, s) the text must be s (the accented e removed)"
    );
}
