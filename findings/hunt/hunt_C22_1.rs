// Property C22: a read-only sync state never applies incoming changes, the other peer still
// receives all of the read-only peer's changes, and after switching back to read-write the peer
// eventually receives every change it skipped.
use automerge::sync::{self, SyncDoc};
use automerge::transaction::Transactable;
use automerge::{ActorId, AutoCommit, ReadDoc, ROOT};

fn sync_until_quiet(
    a: &mut AutoCommit,
    sa: &mut sync::State,
    b: &mut AutoCommit,
    sb: &mut sync::State,
) {
    for _ in 0..50 {
        let ma = a.sync().generate_sync_message(sa);
        let mb = b.sync().generate_sync_message(sb);
        if ma.is_none() && mb.is_none() {
            return;
        }
        if let Some(m) = ma {
            b.sync().receive_sync_message(sb, m).unwrap();
        }
        if let Some(m) = mb {
            a.sync().receive_sync_message(sa, m).unwrap();
        }
    }
    panic!("sync did not quiesce");
}

/// returns true if A ends up with B's change
fn scenario(v: i64, b_read_only: bool) -> bool {
    let mut a = AutoCommit::new().with_actor(ActorId::from(vec![1u8]));
    let mut b = AutoCommit::new().with_actor(ActorId::from(vec![2u8]));
    a.put(ROOT, "from_a", 1).unwrap();
    a.commit();
    b.put(ROOT, "from_b", v).unwrap();
    b.commit();
    let mut sa = sync::State::new_read_only();
    let mut sb = if b_read_only {
        sync::State::new_read_only()
    } else {
        sync::State::new()
    };
    sync_until_quiet(&mut a, &mut sa, &mut b, &mut sb);
    assert!(a.get(ROOT, "from_b").unwrap().is_none());
    // A goes back to read-write, B keeps its mode
    sa.set_read_only(false);
    sync_until_quiet(&mut a, &mut sa, &mut b, &mut sb);
    if b_read_only {
        assert!(b.get(ROOT, "from_a").unwrap().is_none());
    }
    a.get(ROOT, "from_b").unwrap().is_some()
}

// B's single change (actor 02, put from_b = 193, time 0) happens to be a false positive in the
// Bloom filter that A (actor 01, put from_a = 1) builds over its own changes. The sync protocol
// normally recovers from that: the receiver sees heads it does not have and asks for them by hash.
#[test]
fn control_same_documents_converge_when_b_is_read_write() {
    assert!(scenario(193, false));
}

#[test]
fn read_only_peer_stays_silent_after_the_other_side_switches_back_to_read_write() {
    assert!(
        scenario(193, true),
        "C22: after A's sync state is switched back to read-write, A must eventually receive \
         every change it skipped, and a read-only peer (B) must still deliver all of its changes \
         to the other peer; instead the sync quiesced with A never receiving B's change"
    );
}
