use automerge::transaction::Transactable;
use automerge::{ActorId, AutoCommit, ReadDoc, ScalarValue, ROOT};

// C09: the patches emitted for a local increment must turn the previous view into the new state,
// including the counter value and the conflict flag.
#[test]
fn local_increment_of_two_conflicting_counters_patches_the_winner() {
    let mut a = AutoCommit::new().with_actor(ActorId::from(vec![1u8]));
    let mut b = AutoCommit::new().with_actor(ActorId::from(vec![2u8]));
    a.put(ROOT, "k", ScalarValue::counter(100)).unwrap();
    a.commit();
    b.put(ROOT, "k", ScalarValue::counter(200)).unwrap();
    b.commit();
    b.merge(&mut a).unwrap();

    // view of the conflicted state: the counter of actor 02 wins
    let mut view = b.hydrate(&ROOT, None).unwrap();
    b.update_diff_cursor();
    assert_eq!(b.get_all(ROOT, "k").unwrap().len(), 2);

    // an increment applies to both counters, both stay alive, the key stays conflicted
    b.increment(ROOT, "k", 2).unwrap();
    b.commit();
    assert_eq!(b.get_all(ROOT, "k").unwrap().len(), 2);

    let patches = b.diff_incremental();
    view.apply_patches(b.text_encoding(), patches.clone())
        .unwrap();
    let expected = b.hydrate(&ROOT, None).unwrap();
    assert_eq!(
        view, expected,
        "C09: applying the emitted patches to a view of the previous state must yield the new \
         state including counter values and conflict flags (the winner is counter 202 and the \
         key is still conflicted); patches were {patches:?}"
    );
}
