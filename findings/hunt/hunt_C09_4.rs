use automerge::transaction::Transactable;
use automerge::{ActorId, AutoCommit, ReadDoc, ScalarValue, ROOT};

// C09: the patches emitted by merge() must turn the previous view into the new state.
#[test]
fn remote_increment_that_removes_the_winning_plain_value_and_exposes_the_counter() {
    let mut a = AutoCommit::new().with_actor(ActorId::from(vec![1u8]));
    a.put(ROOT, "other", 0).unwrap();
    a.put(ROOT, "k", "plain").unwrap(); // op 2@01
    a.commit();
    let mut b = AutoCommit::new().with_actor(ActorId::from(vec![2u8]));
    b.put(ROOT, "k", ScalarValue::counter(10)).unwrap(); // op 1@02, loses against 2@01
    b.commit();

    // d sees the conflict, "plain" wins
    let mut d = a.fork().with_actor(ActorId::from(vec![4u8]));
    d.merge(&mut b).unwrap();
    assert_eq!(d.get_all(ROOT, "k").unwrap().len(), 2);

    // c sees the same conflict and increments the key: the increment updates the counter and
    // overwrites the plain value
    let mut c = d.fork().with_actor(ActorId::from(vec![3u8]));
    c.increment(ROOT, "k", 2).unwrap();
    c.commit();
    assert_eq!(c.get_all(ROOT, "k").unwrap().len(), 1);

    let mut view = d.hydrate(&ROOT, None).unwrap();
    d.update_diff_cursor();
    d.merge(&mut c).unwrap();

    let patches = d.diff_incremental();
    let applied = view.apply_patches(d.text_encoding(), patches.clone());
    let expected = d.hydrate(&ROOT, None).unwrap();
    assert!(
        applied.is_ok() && view == expected,
        "C09: applying the patches of merge() to a view of the previous state (k = \"plain\", \
         conflicted) must yield the new state (k = counter 12, not conflicted); apply result \
         {applied:?}, view {view:?}, expected {expected:?}, patches {patches:?}"
    );
}
