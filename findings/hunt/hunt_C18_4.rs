use automerge::transaction::{CommitOptions, Transactable};
use automerge::{ActorId, AutoCommit, Automerge, Change, ROOT};

// C18: every change of a history round-trips; the timestamp of a change is an i64 and the change
// encoding itself holds any i64.
#[test]
fn changes_with_far_apart_timestamps() {
    let mut doc = AutoCommit::new().with_actor(ActorId::from(vec![1, 1, 1, 1]));
    doc.put(&ROOT, "a", 1).unwrap();
    doc.commit_with(CommitOptions::default().with_time(i64::MIN));
    doc.put(&ROOT, "a", 2).unwrap();
    // panics here in a debug build: "attempt to subtract with overflow"
    doc.commit_with(CommitOptions::default().with_time(1));

    let changes = doc.get_changes(&[]);
    assert_eq!(changes[0].timestamp(), i64::MIN);
    assert_eq!(changes[1].timestamp(), 1);
    for c in &changes {
        let again = Change::from_bytes(c.raw_bytes().to_vec()).unwrap();
        assert_eq!(again.hash(), c.hash());
    }
    let loaded = Automerge::load(&doc.save()).expect("the document's own save() must load");
    let reloaded = loaded.get_changes(&[]);
    assert_eq!(reloaded[0].raw_bytes(), changes[0].raw_bytes());
    assert_eq!(reloaded[1].raw_bytes(), changes[1].raw_bytes());
}
