// C31: anonymize must preserve sequence lengths / text widths in every TextEncoding.
// In a GraphemeCluster document each text op holds one whole grapheme cluster (possibly several
// code points, e.g. "e" + U+0301). anonymize replaces every code point independently, so the
// replacement string is usually no longer a single cluster and the op's width changes.
use automerge::transaction::Transactable;
use automerge::{AutoCommit, Automerge, LoadOptions, ObjType, ReadDoc, TextEncoding, Value, ROOT};

#[test]
fn anonymize_preserves_text_width_in_grapheme_cluster_encoding() {
    let mut source = AutoCommit::new_with_encoding(TextEncoding::GraphemeCluster);
    let text = source.put_object(ROOT, "t", ObjType::Text).unwrap();
    // 40 clusters "e" + <distinct combining mark>, then a flag (two regional indicators).
    let mut content = String::new();
    for i in 0..40_u32 {
        content.push('e');
        content.push(char::from_u32(0x300 + i).unwrap());
    }
    content.push_str("\u{1F1EC}\u{1F1E7}");
    source.splice_text(&text, 0, 0, &content).unwrap();
    source.commit();
    assert_eq!(source.length(&text), 41);

    let source = Automerge::load_with_options(
        &source.save(),
        LoadOptions::new().text_encoding(TextEncoding::GraphemeCluster),
    )
    .unwrap();
    assert_eq!(source.length(&text), 41);

    let anonymized = source.anonymize().unwrap();
    assert_eq!(anonymized.text_encoding(), TextEncoding::GraphemeCluster);
    assert_eq!(
        source.get_changes(&[])[0].len(),
        anonymized.get_changes(&[])[0].len()
    );
    let anonymized_text = anonymized
        .keys(ROOT)
        .find_map(|key| match anonymized.get(ROOT, key).unwrap() {
            Some((Value::Object(ObjType::Text), id)) => Some(id),
            _ => None,
        })
        .unwrap();
    assert_eq!(
        source.length(&text),
        anonymized.length(&anonymized_text),
        "C31: anonymize must keep the text width (sequence length) of every text object; \
         the anonymized GraphemeCluster text {:?} has a different length",
        anonymized.text(&anonymized_text).unwrap()
    );
}
