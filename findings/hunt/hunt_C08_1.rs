// C08: applying the patches of diff(H1, H2) to the state at H1 must yield the state at H2,
// including conflict flags and counter values.
//
// Between H1 and H2 a winning counter is incremented AND a concurrent (losing) value
// appears on the same key / list element. The diff reports only the Increment; the new
// conflict flag is lost.

use automerge::transaction::Transactable;
use automerge::{
    ActorId, AutoCommit, ObjType, Patch, PatchAction, Prop, ReadDoc, ScalarValue, TextEncoding, ROOT,
};

fn flags_conflict(patches: &[Patch], prop: &Prop) -> bool {
    patches.iter().any(|p| match (&p.action, prop) {
        (PatchAction::Conflict { prop: q }, _) => q == prop,
        (PatchAction::PutMap { key, conflict, .. }, Prop::Map(k)) => key == k && *conflict,
        (PatchAction::PutSeq { index, conflict, .. }, Prop::Seq(i)) => index == i && *conflict,
        _ => false,
    })
}

#[test]
fn map_counter_incremented_and_newly_conflicted() {
    let mut base = AutoCommit::new().with_actor(ActorId::from(vec![9u8]));
    base.put(&ROOT, "z", 0).unwrap();
    base.commit();

    // actor 02 wins over actor 01 for ops with the same counter
    let mut doc1 = base.fork().with_actor(ActorId::from(vec![2u8]));
    let mut doc2 = base.fork().with_actor(ActorId::from(vec![1u8]));

    doc1.put(&ROOT, "a", ScalarValue::counter(1)).unwrap();
    doc1.commit();
    let h1 = doc1.get_heads();

    doc2.put(&ROOT, "a", 2).unwrap();
    doc2.commit();

    doc1.increment(&ROOT, "a", 3).unwrap();
    doc1.commit();
    doc1.merge(&mut doc2).unwrap();
    let h2 = doc1.get_heads();

    // sanity: the state at H2 is a conflicted counter of 4, at H1 an unconflicted counter of 1
    assert_eq!(doc1.get_all_at(&ROOT, "a", &h1).unwrap().len(), 1);
    assert_eq!(doc1.get_all_at(&ROOT, "a", &h2).unwrap().len(), 2);

    let am = doc1.document().clone();
    let patches = am.diff(&h1, &h2);
    let mut state = am.hydrate(Some(&h1));
    state
        .apply_patches(TextEncoding::platform_default(), patches.clone())
        .unwrap();
    let want = am.hydrate(Some(&h2));
    assert!(
        flags_conflict(&patches, &Prop::Map("a".into())),
        "C08: diff(H1,H2) must transform the state at H1 into the state at H2 including conflict \
         flags; key \"a\" is unconflicted at H1 and conflicted at H2 but no patch says so: {patches:?}"
    );
    assert_eq!(
        state, want,
        "C08: applying diff(H1,H2) to the state at H1 must give the state at H2"
    );
}

#[test]
fn list_counter_incremented_and_newly_conflicted() {
    let mut base = AutoCommit::new().with_actor(ActorId::from(vec![9u8]));
    let list = base.put_object(&ROOT, "l", ObjType::List).unwrap();
    base.insert(&list, 0, "x").unwrap();
    base.commit();

    let mut doc1 = base.fork().with_actor(ActorId::from(vec![2u8]));
    let mut doc2 = base.fork().with_actor(ActorId::from(vec![1u8]));

    doc1.put(&list, 0, ScalarValue::counter(1)).unwrap();
    doc1.commit();
    let h1 = doc1.get_heads();

    doc2.put(&list, 0, 2).unwrap();
    doc2.commit();

    doc1.increment(&list, 0, 3).unwrap();
    doc1.commit();
    doc1.merge(&mut doc2).unwrap();
    let h2 = doc1.get_heads();

    assert_eq!(doc1.get_all_at(&list, 0, &h1).unwrap().len(), 1);
    assert_eq!(doc1.get_all_at(&list, 0, &h2).unwrap().len(), 2);

    let am = doc1.document().clone();
    let patches = am.diff(&h1, &h2);
    let mut state = am.hydrate(Some(&h1));
    state
        .apply_patches(TextEncoding::platform_default(), patches.clone())
        .unwrap();
    let want = am.hydrate(Some(&h2));
    assert!(
        flags_conflict(&patches, &Prop::Seq(0)),
        "C08: diff(H1,H2) must transform the state at H1 into the state at H2 including conflict \
         flags; element 0 is unconflicted at H1 and conflicted at H2 but no patch says so: {patches:?}"
    );
    assert_eq!(
        state, want,
        "C08: applying diff(H1,H2) to the state at H1 must give the state at H2"
    );
}
