use automerge::transaction::Transactable;
use automerge::{ActorId, AutoCommit, ObjType, ReadDoc, ROOT};

// C09: the patches emitted by merge() must turn the previous view into the new state.
#[test]
fn merge_of_delete_and_insert_after_an_element_that_was_concurrently_overwritten() {
    let mut a = AutoCommit::new().with_actor(ActorId::from(vec![1u8]));
    let list = a.put_object(ROOT, "l", ObjType::List).unwrap();
    a.insert(&list, 0, "x").unwrap();
    a.commit();

    let mut b = a.fork().with_actor(ActorId::from(vec![2u8]));
    let mut c = a.fork().with_actor(ActorId::from(vec![3u8]));

    // c overwrites the element
    c.put(&list, 0, "X").unwrap();
    c.commit();

    // b concurrently appends after the element and then deletes the element
    b.insert(&list, 1, "s").unwrap();
    b.delete(&list, 0).unwrap();
    b.commit();

    let mut view = c.hydrate(&ROOT, None).unwrap();
    c.update_diff_cursor();

    c.merge(&mut b).unwrap();
    // the overwritten element survives the concurrent delete
    assert_eq!(c.length(&list), 2);

    let patches = c.diff_incremental();
    let applied = view.apply_patches(c.text_encoding(), patches.clone());
    let expected = c.hydrate(&ROOT, None).unwrap();
    assert!(
        applied.is_ok() && view == expected,
        "C09: applying the patches of merge() to a view of the previous state must yield the new \
         state [\"X\", \"s\"]; apply result {applied:?}, view {view:?}, expected {expected:?}, \
         patches {patches:?}"
    );
}
