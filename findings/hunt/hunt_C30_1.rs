// C30: object ids returned by the API (here: in patches) keep referring to the same object
// after the actor table changes.
use automerge::{
    transaction::Transactable, ActorId, Automerge, ObjType, PatchLog, ReadDoc, ROOT,
};

#[test]
fn patch_ids_survive_actor_insertion_before_make_patches() {
    // document written by a "large" actor, changes recorded in a caller-held patch log
    let mut doc = Automerge::new().with_actor(ActorId::from(vec![9u8]));
    let mut tx = doc.transaction_log_patches(PatchLog::active()).unwrap();
    let list = tx.put_object(ROOT, "list", ObjType::List).unwrap();
    let inner = tx.insert_object(&list, 0, ObjType::Map).unwrap();
    tx.put(&inner, "k", "v").unwrap();
    let (_, mut patch_log) = tx.commit();

    // a replica with a smaller actor id: merging it inserts the actor *before* actor 9
    let mut other = Automerge::new().with_actor(ActorId::from(vec![1u8]));
    let mut tx = other.transaction();
    let omap = tx.put_object(ROOT, "other", ObjType::Map).unwrap();
    tx.put(&omap, "x", 1).unwrap();
    let olist = tx.put_object(ROOT, "olist", ObjType::List).unwrap();
    tx.insert(&olist, 0, 1).unwrap();
    tx.commit();
    doc.merge(&mut other).unwrap();

    // the ids handed out earlier still work
    assert_eq!(doc.object_type(&list).unwrap(), ObjType::List);
    assert_eq!(doc.object_type(&inner).unwrap(), ObjType::Map);

    let patches = doc.make_patches(&mut patch_log);
    let objs: Vec<String> = patches.iter().map(|p| format!("{} {:?}", p.obj, p.action)).collect();
    // the patch log recorded: put list at root, insert map into `list`, put k into `inner`
    assert!(
        patches.iter().any(|p| p.obj == list),
        "C30: patches must name the list {} that was edited, got {:#?}",
        list,
        objs
    );
    assert!(
        patches.iter().any(|p| p.obj == inner),
        "C30: patches must name the map {} that was edited, got {:#?}",
        inner,
        objs
    );
    for p in &patches {
        assert!(
            p.obj == ROOT || p.obj == list || p.obj == inner,
            "C30: patch names object {} which was never edited under this patch log: {:#?}",
            p.obj,
            objs
        );
    }
}
