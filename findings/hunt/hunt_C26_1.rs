// C26: a cursor resolves to its element's current index while the element is visible.
//
// Three actors. B and C concurrently overwrite list element 1; C (the higher
// actor, so its put sorts after B's inside the element) takes a cursor on its
// own value and then deletes it. After merging, element 1 is still visible
// (B's value survives) at index 1, but the indexed seek counts B's winning op,
// which sits *before* the cursor's op inside the same element, as a preceding
// element and answers 2 (and the debug_assert against the slow path fires in a
// debug build).
use automerge::transaction::Transactable;
use automerge::{ActorId, AutoCommit, MoveCursor, ObjType, ReadDoc, ROOT};

fn actor(b: u8) -> ActorId {
    ActorId::from(vec![b; 16])
}

#[test]
fn cursor_on_deleted_put_of_still_visible_element() {
    let mut a = AutoCommit::new().with_actor(actor(1));
    let list = a.put_object(ROOT, "l", ObjType::List).unwrap();
    a.insert(&list, 0, "p").unwrap();
    a.insert(&list, 1, "e").unwrap();
    a.insert(&list, 2, "q").unwrap();
    a.commit();
    let mut b = a.fork().with_actor(actor(2));
    let mut c = a.fork().with_actor(actor(3));
    b.put(&list, 1, "Z").unwrap();
    b.commit();
    c.put(&list, 1, "X").unwrap();
    c.commit();
    let cur_after = c.get_cursor(&list, 1, None).unwrap();
    let cur_before = c
        .get_cursor_moving(&list, 1, None, MoveCursor::Before)
        .unwrap();
    assert_eq!(c.get_cursor_position(&list, &cur_after, None).unwrap(), 1);
    c.delete(&list, 1).unwrap();
    c.commit();
    a.merge(&mut b).unwrap();
    a.merge(&mut c).unwrap();

    // the element is still there, holding B's value, between "p" and "q"
    assert_eq!(a.length(&list), 3);
    assert_eq!(a.get(&list, 1).unwrap().unwrap().0.to_str(), Some("Z"));

    let after = a.get_cursor_position(&list, &cur_after, None).unwrap();
    assert_eq!(
        after, 1,
        "C26: the cursor's element is still visible at index 1 (value Z), so the cursor must resolve to 1"
    );
    let before = a.get_cursor_position(&list, &cur_before, None).unwrap();
    assert_eq!(
        before, 1,
        "C26: the cursor's element is still visible at index 1 (value Z), so the Before cursor must resolve to 1"
    );
}
