// C28: after a transaction is rolled back the document cannot be told apart from its state
// before the transaction began (state, heads, actor table, saved bytes, later behaviour).
//
// Scenario: the document holds a change in its causal queue (its dependency has not arrived
// yet) that was authored by the same actor id the document itself uses. Merely opening a
// transaction and rolling it back drops that queued change, so the saved bytes shrink and
// the change never applies once its dependency arrives.

use automerge::transaction::Transactable;
use automerge::{ActorId, AutoCommit, Automerge, ReadDoc, ROOT};

#[test]
fn rollback_keeps_changes_queued_for_the_same_actor() {
    let actor = ActorId::from(vec![0x11u8; 4]);

    // two consecutive changes of one actor: c1 (seq 1) and c2 (seq 2, depends on c1)
    let mut author = AutoCommit::new().with_actor(actor.clone());
    author.put(ROOT, "k", 1).unwrap();
    author.commit();
    author.put(ROOT, "k", 2).unwrap();
    author.commit();
    let changes = author.get_changes(&[]);
    assert_eq!(changes.len(), 2);
    let (c1, c2) = (changes[0].clone(), changes[1].clone());

    // a replica with the same actor id receives only c2: it waits in the queue for c1
    let mut doc = Automerge::new().with_actor(actor);
    doc.apply_changes(vec![c2]).unwrap();
    assert_eq!(doc.get_missing_deps(&[]), vec![c1.hash()]);
    let pristine = doc.clone();

    // a transaction that is rolled back
    {
        let mut tx = doc.transaction();
        tx.put(ROOT, "other", 1).unwrap();
        assert_eq!(tx.rollback(), 1);
    }

    assert_eq!(
        doc.get_missing_deps(&[]),
        pristine.get_missing_deps(&[]),
        "C28: a rolled back transaction must leave the queued (not yet causally ready) changes of the document untouched"
    );
    assert_eq!(
        doc.save(),
        pristine.save(),
        "C28: the saved bytes after a rollback must equal the saved bytes before the transaction began"
    );

    // once the missing dependency arrives both documents must converge to k = 2
    let mut pristine = pristine;
    doc.apply_changes(vec![c1.clone()]).unwrap();
    pristine.apply_changes(vec![c1]).unwrap();
    assert_eq!(
        doc.get_heads(),
        pristine.get_heads(),
        "C28: later changes must have the same effect on the rolled back document as on the untouched one"
    );
    assert_eq!(
        doc.get(ROOT, "k").unwrap().map(|(v, _)| v.to_string()),
        pristine.get(ROOT, "k").unwrap().map(|(v, _)| v.to_string()),
    );
}
