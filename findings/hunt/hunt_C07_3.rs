use automerge::marks::{ExpandMark, Mark};
use automerge::transaction::Transactable;
use automerge::{AutoCommit, ObjType, ReadDoc, ROOT};

// Property C07: a document isolated at older heads behaves like a document
// that contains exactly those heads' ancestors, and fork_at(heads) of any
// heads of the history produces such a document.
//
// Scenario: text "yz" (old_heads); afterwards a non-expanding mark is put on
// "yz". The document is isolated at old_heads (where the mark does not exist)
// and "q" is appended. On a document that only has old_heads' ancestors the
// new character is inserted after the element "z". The isolated insert instead
// anchors on the MarkEnd op of the later mark, an op which is not an ancestor
// of the change, so the history up to the new heads is not self contained.
#[test]
fn isolated_insert_must_not_reference_ops_outside_the_isolated_heads() {
    let mut doc = AutoCommit::new();
    let t = doc.put_object(&ROOT, "t", ObjType::Text).unwrap(); // op 1
    doc.splice_text(&t, 0, 0, "yz").unwrap(); // ops 2, 3
    doc.commit();
    let old_heads = doc.get_heads();

    // ops 4 (MarkBegin) and 5 (MarkEnd): not part of old_heads
    doc.mark(&t, Mark::new("link".into(), 0, 0, 2), ExpandMark::None)
        .unwrap();
    doc.commit();

    // reference: the same edit on a document that has exactly old_heads' ancestors
    let mut reference = doc.fork_at(&old_heads).unwrap();
    reference.splice_text(&t, 2, 0, "q").unwrap();
    reference.commit();
    let ref_op = reference
        .get_last_local_change()
        .unwrap()
        .decode()
        .operations[0]
        .clone();

    doc.isolate(&old_heads);
    doc.splice_text(&t, 2, 0, "q").unwrap();
    doc.commit();
    assert_eq!(doc.text(&t).unwrap(), "yzq");
    let new_heads = doc.get_heads();
    let change = doc.get_change_by_hash(&new_heads[0]).unwrap().decode();
    assert_eq!(change.deps, old_heads);
    let iso_op = change.operations[0].clone();

    assert_eq!(
        format!("{:?}", iso_op.key),
        format!("{:?}", ref_op.key),
        "C07: an insert made while isolated at old_heads must anchor on the same element as the same insert \
         on fork_at(old_heads) (the element 'z', op 3); it anchored on an op that is not an ancestor of old_heads"
    );

    let forked = std::panic::catch_unwind(std::panic::AssertUnwindSafe(|| {
        doc.fork_at(&new_heads)
            .map(|f| f.text(&t).unwrap())
            .map_err(|e| e.to_string())
    }));
    assert_eq!(
        forked.map_err(|_| "fork_at panicked".to_string()),
        Ok(Ok("yzq".to_string())),
        "C07: fork_at(heads) must produce a document whose reads equal the isolated reads at those heads"
    );
}
