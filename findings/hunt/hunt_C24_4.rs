use automerge::{
    marks::{ExpandMark, Mark},
    transaction::Transactable,
    ActorId, AutoCommit, ObjType, ReadDoc, TextEncoding, ROOT,
};

// C24: every index the API accepts is measured in the document's text encoding.
// mark() and marks() use encoded indexes; get_marks(obj, index) must address the same
// character with the same index.
#[test]
fn get_marks_index_is_measured_in_the_text_encoding() {
    for enc in [
        TextEncoding::UnicodeCodePoint,
        TextEncoding::Utf8CodeUnit,
        TextEncoding::Utf16CodeUnit,
        TextEncoding::GraphemeCluster,
    ] {
        let mut a = AutoCommit::new_with_encoding(enc).with_actor(ActorId::from(vec![1u8; 4]));
        let t = a.put_object(ROOT, "t", ObjType::Text).unwrap();
        a.splice_text(&t, 0, 0, "a😀b").unwrap();
        let len = a.length(&t); // 3 / 6 / 4 / 3
        // mark exactly the last character, 'b'
        a.mark(
            &t,
            Mark::new("bold".to_string(), true, len - 1, len),
            ExpandMark::None,
        )
        .unwrap();
        a.commit();

        let marks = a.marks(&t).unwrap();
        assert_eq!(marks.len(), 1);
        assert_eq!((marks[0].start, marks[0].end), (len - 1, len));
        assert_eq!(
            a.get(&t, len - 1).unwrap().map(|(v, _)| v.to_string()),
            Some("\"b\"".to_string())
        );

        let on_b = a.get_marks(&t, len - 1, None).unwrap();
        assert_eq!(
            on_b.iter().map(|(k, _)| k.to_string()).collect::<Vec<_>>(),
            vec!["bold".to_string()],
            "{enc:?}: get_marks at index {} (the 'b' that marks() reports as bold {}..{}) \
             must contain the mark",
            len - 1,
            len - 1,
            len
        );
        // index 1 is the emoji in every encoding; it is not marked
        let on_emoji = a.get_marks(&t, 1, None).unwrap();
        assert_eq!(on_emoji.iter().count(), 0, "{enc:?}: the emoji is not marked");
    }
}
