// C31: anonymize must keep the document shape for histories with marks.
// Two concurrent marks with the same name and the SAME value that overlap are reported by
// marks() as one span. anonymize replaces each mark value independently, so the two values
// become different and the anonymized document reports two spans (the visible mark structure of
// the text changes, and with it the patches/spans a reader of the anonymized document sees).
use automerge::marks::{ExpandMark, Mark};
use automerge::transaction::Transactable;
use automerge::{ActorId, AutoCommit, Automerge, ObjType, ReadDoc, Value, ROOT};

#[test]
fn anonymize_preserves_mark_span_structure() {
    let mut a = AutoCommit::new().with_actor(ActorId::from(vec![1_u8; 4]));
    let text = a.put_object(ROOT, "t", ObjType::Text).unwrap();
    a.splice_text(&text, 0, 0, "abcdefghijklmnop").unwrap();
    a.commit();
    let mut b = a.fork().with_actor(ActorId::from(vec![2_u8; 4]));
    a.mark(
        &text,
        Mark::new("comment".into(), "same-value", 0, 6),
        ExpandMark::None,
    )
    .unwrap();
    b.mark(
        &text,
        Mark::new("comment".into(), "same-value", 4, 10),
        ExpandMark::None,
    )
    .unwrap();
    a.commit();
    b.commit();
    a.merge(&mut b).unwrap();

    let source = Automerge::load(&a.save()).unwrap();
    let source_spans = source
        .marks(&text)
        .unwrap()
        .iter()
        .map(|m| (m.start, m.end))
        .collect::<Vec<_>>();
    assert_eq!(source_spans, vec![(0, 10)]);

    let anonymized = source.anonymize().unwrap();
    let anonymized_text = anonymized
        .keys(ROOT)
        .find_map(|key| match anonymized.get(ROOT, key).unwrap() {
            Some((Value::Object(ObjType::Text), id)) => Some(id),
            _ => None,
        })
        .unwrap();
    let anonymized_spans = anonymized
        .marks(&anonymized_text)
        .unwrap()
        .iter()
        .map(|m| (m.start, m.end))
        .collect::<Vec<_>>();
    assert_eq!(
        source_spans, anonymized_spans,
        "C31: the anonymized document must have the same mark span structure as the source \
         (equal mark values must stay equal, distinct ones distinct)"
    );
}
