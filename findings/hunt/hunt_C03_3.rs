// C03: an editing call with an index out of range returns an error (and changes nothing).
//
// delete(list, 7) on a two element list fails with InvalidIndex(7), and so does a splice
// at index 7 that inserts something. A splice / splice_text at the same out of range index
// that only deletes is accepted silently: it returns Ok(()) and does nothing.
use automerge::transaction::Transactable;
use automerge::{ActorId, AutoCommit, AutomergeError, ObjType, ReadDoc, ScalarValue, ROOT};

#[test]
fn delete_only_splice_past_the_end_is_an_error() {
    let mut doc = AutoCommit::new().with_actor(ActorId::from(vec![1u8; 16]));
    let l = doc.put_object(ROOT, "l", ObjType::List).unwrap();
    doc.insert(&l, 0, 1).unwrap();
    doc.insert(&l, 1, 2).unwrap();
    let t = doc.put_object(ROOT, "t", ObjType::Text).unwrap();
    doc.splice_text(&t, 0, 0, "ab").unwrap();
    doc.commit();

    // the reference behaviour of the same out of range index
    assert!(matches!(
        doc.delete(&l, 7),
        Err(AutomergeError::InvalidIndex(7))
    ));
    assert!(matches!(
        doc.splice(&l, 7, 1, vec![ScalarValue::Int(9)]),
        Err(AutomergeError::InvalidIndex(7))
    ));
    assert!(matches!(
        doc.splice_text(&t, 7, 1, "x"),
        Err(AutomergeError::InvalidIndex(7))
    ));

    let list = doc.splice(&l, 7, 1, Vec::<ScalarValue>::new());
    let text = doc.splice_text(&t, 7, 1, "");
    assert_eq!(doc.length(&l), 2);
    assert_eq!(doc.text(&t).unwrap(), "ab");
    assert!(
        list.is_err() && text.is_err(),
        "index 7 is out of range for a sequence of length 2: a splice that deletes there must \
         return InvalidIndex like delete() and an inserting splice do, \
         got splice -> {list:?}, splice_text -> {text:?}"
    );
}
