// C26: once its element is deleted, a MoveCursor::Before cursor resolves to the index
// of the nearest surviving predecessor along the insertion chain (or 0).
//
// List [x, a, b]; element 1 is overwritten with a plain put (it survives, with a
// new value). A Before cursor is taken on b (inserted after a), then b is
// deleted. The nearest surviving predecessor is element 1, so the cursor must
// resolve to 1. The walk in get_cursor_position_for only looks at whether the
// predecessor's *insert op* is visible; an overwritten insert op is not, so the
// walk steps over the live element and answers 0 (the index of x).
use automerge::transaction::Transactable;
use automerge::{ActorId, AutoCommit, MoveCursor, ObjType, ReadDoc, ROOT};

#[test]
fn before_cursor_steps_over_overwritten_predecessor() {
    let mut a = AutoCommit::new().with_actor(ActorId::from(vec![1u8; 16]));
    let list = a.put_object(ROOT, "l", ObjType::List).unwrap();
    a.insert(&list, 0, "x").unwrap();
    a.insert(&list, 1, "a").unwrap();
    a.insert(&list, 2, "b").unwrap();
    a.commit();
    a.put(&list, 1, "a2").unwrap();
    a.commit();
    let cur = a
        .get_cursor_moving(&list, 2, None, MoveCursor::Before)
        .unwrap();
    assert_eq!(a.get_cursor_position(&list, &cur, None).unwrap(), 2);
    a.delete(&list, 2).unwrap();
    a.commit();

    assert_eq!(a.length(&list), 2);
    assert_eq!(a.get(&list, 1).unwrap().unwrap().0.to_str(), Some("a2"));

    let pos = a.get_cursor_position(&list, &cur, None).unwrap();
    assert_eq!(
        pos, 1,
        "C26: b was inserted after element 1, which still exists (value a2) at index 1; \
         a Before cursor on the deleted b must resolve to 1, its nearest surviving predecessor"
    );
}
