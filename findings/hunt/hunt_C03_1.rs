// C03: join_block must delete the element at `index` - every value of it - so that the
// element is gone from the open transaction, after commit, and after save + load.
//
// When the element holds conflicting values (two actors overwrote it concurrently),
// join_block only supersedes the winning value. The live document hides the element, but
// the losing value is still a live op: it reappears once the document is saved and loaded
// (or merged into another peer).
use automerge::transaction::Transactable;
use automerge::{ActorId, AutoCommit, ObjType, ReadDoc, ROOT};

fn actor(b: u8) -> ActorId {
    ActorId::from(vec![b; 16])
}

#[test]
fn join_block_on_a_conflicted_element_deletes_every_value() {
    let mut a = AutoCommit::new().with_actor(actor(1));
    let t = a.put_object(ROOT, "t", ObjType::Text).unwrap();
    a.splice_text(&t, 0, 0, "ab").unwrap();
    a.split_block(&t, 1).unwrap(); // "a", block, "b"
    a.commit();

    // two peers concurrently overwrite the block element
    let mut b = a.fork().with_actor(actor(2));
    let mut c = a.fork().with_actor(actor(3));
    b.put(&t, 1, "x").unwrap();
    c.put(&t, 1, "y").unwrap();
    a.merge(&mut b).unwrap();
    a.merge(&mut c).unwrap();
    assert_eq!(a.text(&t).unwrap(), "ayb");
    assert_eq!(a.get_all(&t, 1).unwrap().len(), 2);

    a.join_block(&t, 1).unwrap();
    assert_eq!(
        a.text(&t).unwrap(),
        "ab",
        "join_block(1) removes the element at index 1 (open transaction)"
    );
    a.commit();
    assert_eq!(a.text(&t).unwrap(), "ab", "after commit");

    let reloaded = AutoCommit::load(&a.save()).unwrap();
    assert_eq!(
        reloaded.text(&t).unwrap(),
        a.text(&t).unwrap(),
        "join_block(1) must delete the whole element: the saved document must show the \
         same text as the live one (live {:?} len {}, reloaded {:?} len {})",
        a.text(&t).unwrap(),
        a.length(&t),
        reloaded.text(&t).unwrap(),
        reloaded.length(&t),
    );
}

// A further consequence of the same defect (debug builds): the value that join_block left
// behind makes the indexed and the scanning insert queries disagree, so the next
// splice_text after the removed element trips the debug_assert in OpSet::query_insert_at.
#[test]
fn splice_after_join_block_on_a_conflicted_element_does_not_panic() {
    let mut a = AutoCommit::new().with_actor(actor(1));
    let t = a.put_object(ROOT, "t", ObjType::Text).unwrap();
    a.splice_text(&t, 0, 0, "abcd").unwrap();
    a.split_block(&t, 1).unwrap();
    a.commit();
    let mut b = a.fork().with_actor(actor(2));
    let mut c = a.fork().with_actor(actor(3));
    b.put(&t, 1, "x").unwrap();
    c.put(&t, 1, "y").unwrap();
    a.merge(&mut b).unwrap();
    a.merge(&mut c).unwrap();
    a.join_block(&t, 1).unwrap();
    a.commit();
    assert_eq!(a.text(&t).unwrap(), "abcd");
    // inserting at index 2 of "abcd" must give "abZcd" (it panics in a debug build)
    a.splice_text(&t, 2, 0, "Z").unwrap();
    assert_eq!(a.text(&t).unwrap(), "abZcd");
}
