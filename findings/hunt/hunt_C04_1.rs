// C04: the dependencies of a change are exactly the heads it was made on. For an isolated
// transaction these are the isolation heads - a set of changes. Handing the same head twice to
// AutoCommit::isolate / Automerge::transaction_at (the library itself documents that heads are
// compared "order and duplicates ignored") must not produce a change that lists the same
// dependency twice.
use automerge::transaction::Transactable;
use automerge::{ActorId, AutoCommit, Automerge, PatchLog, ReadDoc, ROOT};
use std::collections::BTreeSet;

#[test]
fn isolating_at_a_repeated_head_writes_the_dependency_twice() {
    let mut doc = AutoCommit::new().with_actor(ActorId::from(vec![1u8; 4]));
    doc.put(ROOT, "a", 1).unwrap();
    let h = doc.commit().unwrap();

    doc.isolate(&[h, h]);
    doc.put(ROOT, "b", 1).unwrap();
    let h2 = doc.commit().unwrap();
    doc.integrate();

    let change = doc.get_change_by_hash(&h2).unwrap();
    let distinct: BTreeSet<_> = change.deps().iter().copied().collect();
    assert_eq!(distinct, BTreeSet::from([h]));
    assert_eq!(
        change.deps().to_vec(),
        vec![h],
        "the dependencies of a change are exactly the (set of) heads it was made on: each head once"
    );
}

#[test]
fn transaction_at_a_repeated_head_writes_the_dependency_twice() {
    let mut doc = Automerge::new().with_actor(ActorId::from(vec![1u8; 4]));
    let mut tx = doc.transaction();
    tx.put(ROOT, "a", 1).unwrap();
    let h = tx.commit().0.unwrap();

    let mut tx = doc.transaction_at(PatchLog::inactive(), &[h, h]).unwrap();
    tx.put(ROOT, "b", 1).unwrap();
    let h2 = tx.commit().0.unwrap();

    let change = doc.get_change_by_hash(&h2).unwrap();
    assert_eq!(
        change.deps().to_vec(),
        vec![h],
        "the dependencies of a change are exactly the (set of) heads it was made on: each head once"
    );
}
