use automerge::{
    transaction::{CommitOptions, Transactable},
    ActorId, AutoCommit, Automerge, ObjType, ReadDoc, ROOT,
};

// A writer which is isolated at older heads (here: the empty heads) and records an empty change
// must still produce a save() that loads, and save ++ save_incremental must load to the
// writer's document.
#[test]
fn save_after_isolated_empty_change_must_load() {
    let mut writer = AutoCommit::new().with_actor(ActorId::from(vec![5u8, 5, 5]));
    writer.put_object(&ROOT, "list", ObjType::List).unwrap();
    writer.commit();
    let saved = writer.save();

    writer.isolate(&[]);
    writer.empty_change(CommitOptions::default());
    let inc = writer.save_incremental();
    writer.integrate();

    // the reader at the earlier point, fed the incremental piece
    let mut reader = Automerge::load(&saved).unwrap();
    let r = reader.load_incremental(&inc);
    assert!(
        r.is_ok(),
        "C12: a reader equal to the writer at the save must accept the later piece: {:?}",
        r
    );
    let mut want = writer.get_heads();
    want.sort();
    let mut got = reader.get_heads();
    got.sort();
    assert_eq!(got, want, "C12: reader fed every piece must equal the writer");

    // concatenation of the save and the later piece
    let mut bytes = saved.clone();
    bytes.extend_from_slice(&inc);
    let loaded = Automerge::load(&bytes);
    assert!(
        loaded.is_ok(),
        "C12: save ++ save_incremental must load: {:?}",
        loaded.err()
    );

    // the writer's own full save
    let full = writer.save();
    let loaded = Automerge::load(&full);
    assert!(
        loaded.is_ok(),
        "C12: the writer's own save() output must load: {:?}",
        loaded.err()
    );
    assert_eq!(loaded.unwrap().length(&ROOT), 1);
}
