// C01 (convergence) - isolation at older heads.
//
// A replica isolated at older heads H shows the document as a replica holding
// exactly the changes of H shows it, and must be able to make the same edits.
// Here key "k" holds the conflict {counter 1@01, null 1@02} at H (the null wins)
// and has since been overwritten by a later change. A plain replica at H
// increments the counter without trouble; the isolated replica panics inside
// OpSet::reset_top ("assertion failed: v", a plain assert!, so also in release).
use automerge::transaction::Transactable;
use automerge::{ActorId, AutoCommit, ReadDoc, ScalarValue, ROOT};

fn actor(b: u8) -> ActorId {
    ActorId::from(vec![b])
}

#[test]
fn increment_in_isolation_on_an_overwritten_conflict() {
    // two actors write the same key concurrently: 1@01 = counter, 1@02 = null
    let mut a = AutoCommit::new().with_actor(actor(1));
    let mut b = AutoCommit::new().with_actor(actor(2));
    a.put(&ROOT, "k", ScalarValue::counter(1)).unwrap();
    b.put(&ROOT, "k", ScalarValue::Null).unwrap();
    a.merge(&mut b).unwrap();
    let old_heads = a.get_heads();
    assert_eq!(a.get_all(&ROOT, "k").unwrap().len(), 2);

    // control: a replica that holds exactly the changes of `old_heads` can increment
    let mut control = a.fork().with_actor(actor(3));
    control.increment(&ROOT, "k", 5).unwrap();
    control.commit();
    let control_view = format!("{:?}", control.get_all(&ROOT, "k").unwrap());

    // the document moves on: the conflict is overwritten
    a.put(&ROOT, "k", 2).unwrap();
    a.commit();

    // the same edit, made in isolation at the old heads
    let result = std::panic::catch_unwind(move || {
        a.isolate(&old_heads);
        a.increment(&ROOT, "k", 5).unwrap();
        a.commit();
        let isolated_view = format!("{:?}", a.get_all(&ROOT, "k").unwrap());
        a.integrate();
        // the result must still be a loadable document
        let bytes = a.save();
        AutoCommit::load(&bytes).expect("document saved after the isolated edit must load");
        isolated_view
    });
    assert!(
        result.is_ok(),
        "C01: a document isolated at heads H shows the same state as a replica holding exactly \
         the changes of H, so increment() on the conflicted counter must succeed as it does \
         there (the control replica then sees {control_view}); instead the isolated increment \
         panicked"
    );
}
