// C20: two-peer sync converges and goes quiet, including Bloom filter false positives.
//
// Peer B is a read-only (publish-only) peer: it ignores incoming changes but must still send its
// own. Peer A starts read-only too and is then switched to read-write with
// `State::set_read_only(false)`, which resets A's sync state and makes A announce itself afresh
// (SYNC_RESET). B's only change X happens to be a false positive of A's Bloom filter (found by
// brute force over the value B writes, nothing is forged). B therefore computes "nothing to send",
// and because B is read-only and has already responded once with the same heads it returns None
// without ever telling A its heads. A never learns that X exists, so A can never ask for it with
// `need`: both peers are quiet, and A is missing B's change for good.

use automerge::sync::{self, BloomFilter, SyncDoc};
use automerge::transaction::{CommitOptions, Transactable};
use automerge::{ActorId, Automerge, ReadDoc, ROOT};

fn commit_put(doc: &mut Automerge, key: &str, value: i64) {
    let mut tx = doc.transaction();
    tx.put(ROOT, key, value).unwrap();
    tx.commit_with(CommitOptions::default().with_time(0));
}

/// Exchange messages over a reliable in-order link until both sides return None.
/// Returns the number of rounds used, or None if the bound was hit.
fn sync_until_quiet(
    a: &mut Automerge,
    sa: &mut sync::State,
    b: &mut Automerge,
    sb: &mut sync::State,
    bound: usize,
) -> Option<usize> {
    for round in 0..bound {
        let mut any = false;
        if let Some(m) = a.generate_sync_message(sa) {
            any = true;
            let m = sync::Message::decode(&m.encode()).unwrap();
            b.receive_sync_message(sb, m).unwrap();
        }
        if let Some(m) = b.generate_sync_message(sb) {
            any = true;
            let m = sync::Message::decode(&m.encode()).unwrap();
            a.receive_sync_message(sa, m).unwrap();
        }
        if !any {
            return Some(round);
        }
    }
    None
}

#[test]
fn read_write_peer_gets_read_only_peers_change_despite_bloom_false_positive() {
    scenario(true);
}

/// Control: the same scenario passes when B's change is not a false positive.
#[test]
fn control_without_false_positive() {
    scenario(false);
}

fn scenario(false_positive: bool) {
    // A: three changes by actor 01
    let mut a = Automerge::new().with_actor(ActorId::from(vec![1u8]));
    for i in 0..3 {
        commit_put(&mut a, "a", i);
    }
    let a_hashes: Vec<_> = a.get_changes(&[]).into_iter().map(|c| c.hash()).collect();
    // the filter A advertises when its `last_sync` is empty
    let a_bloom = BloomFilter::from_hashes(a_hashes.iter());

    // B: one change by actor 02 whose hash is a genuine false positive of A's filter
    let mut found = None;
    for v in 0..100_000i64 {
        let mut b = Automerge::new().with_actor(ActorId::from(vec![2u8]));
        commit_put(&mut b, "b", v);
        let x = b.get_heads()[0];
        if a_bloom.contains_hash(&x) == false_positive {
            found = Some((b, x));
            break;
        }
    }
    let (mut b, x) = found.expect("no Bloom false positive found in 100000 candidates");
    assert!(a.get_change_by_hash(&x).is_none());

    // both ends start as read-only peers and talk until quiet
    let mut sa = sync::State::new_read_only();
    let mut sb = sync::State::new_read_only();
    assert!(sync_until_quiet(&mut a, &mut sa, &mut b, &mut sb, 10).is_some());
    assert!(a.get_change_by_hash(&x).is_none(), "A was read-only so far");

    // A becomes a read-write peer; B stays read-only. No edits from here on.
    sa.set_read_only(false);
    let rounds = sync_until_quiet(&mut a, &mut sa, &mut b, &mut sb, 10);
    assert!(
        rounds.is_some(),
        "C20: both peers must return None within a bounded number of rounds"
    );
    assert!(
        a.get_change_by_hash(&x).is_some(),
        "C20: once both peers are quiet the read-write peer A must hold every change of the \
         read-only peer B (a read-only peer still sends its own changes), even when B's change is a \
         false positive of A's Bloom filter; went quiet after {} round(s) with A heads {:?} and B heads {:?}",
        rounds.unwrap(),
        a.get_heads(),
        b.get_heads()
    );
}
