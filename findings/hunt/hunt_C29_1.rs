use automerge::transaction::{CommitOptions, Transactable};
use automerge::{ActorId, AutoCommit, ReadDoc, ROOT};

// C29: changes committed under isolate(heads) depend only on those heads and
// the isolated chain.
#[test]
fn empty_change_under_isolation_depends_only_on_isolated_heads() {
    let mut doc = AutoCommit::new().with_actor(ActorId::from(vec![1u8; 4]));
    doc.put(ROOT, "k", 1).unwrap();
    doc.commit();
    let h1 = doc.get_heads();
    doc.put(ROOT, "k", 2).unwrap();
    doc.commit();
    let h2 = doc.get_heads();
    assert_ne!(h1, h2);

    doc.isolate(&h1);
    assert_eq!(doc.get_heads(), h1);
    let e = doc.empty_change(CommitOptions::default());
    let change = doc.get_change_by_hash(&e).unwrap();
    assert_eq!(
        change.deps(),
        h1.as_slice(),
        "an empty change made under isolate(h1) must depend only on h1, not on the un-isolated heads {:?}",
        h2
    );
    assert_eq!(
        doc.get_heads(),
        vec![e],
        "the empty change made under isolation must become the isolated head"
    );
    assert_eq!(doc.get(ROOT, "k").unwrap().unwrap().0.to_i64(), Some(1));
}
