use automerge::hydrate_map;
use automerge::iter::Span;
use automerge::marks::UpdateSpansConfig;
use automerge::transaction::Transactable;
use automerge::{ActorId, AutoCommit, ObjType, ReadDoc, ROOT};

// C06: a transaction operation that returns an error leaves the document observably unchanged.
// update_spans is only valid on a text object; on a list it returns InvalidOp, but only after
// it has already rewritten the maps inside the list.
#[test]
fn update_spans_rejected_on_a_list_must_not_change_the_list() {
    let mut doc = AutoCommit::new().with_actor(ActorId::from(vec![0x55_u8; 4]));
    let list = doc.put_object(ROOT, "list", ObjType::List).unwrap();
    let item = doc.insert_object(&list, 0, ObjType::Map).unwrap();
    doc.put(&item, "title", "keep me").unwrap();
    doc.commit();

    let saved_before = doc.clone().save();
    assert_eq!(doc.pending_ops(), 0);

    let result = doc.update_spans(
        &list,
        UpdateSpansConfig::default(),
        vec![
            Span::Block(hydrate_map! {"type" => "paragraph"}),
            Span::Text {
                text: "hello".to_string(),
                marks: None,
            },
        ],
    );
    assert!(
        result.is_err(),
        "update_spans on a list is rejected (it is a text operation): {result:?}"
    );

    assert_eq!(
        doc.pending_ops(),
        0,
        "C06: update_spans returned an error, so it must not leave operations in the transaction"
    );
    assert_eq!(
        doc.get(&item, "title")
            .unwrap()
            .map(|(v, _)| v.to_string()),
        Some("\"keep me\"".to_string()),
        "C06: update_spans returned an error, so the map inside the list must be unchanged"
    );
    assert!(
        doc.get(&item, "type").unwrap().is_none(),
        "C06: update_spans returned an error, so no key may have been added to the map inside the list"
    );
    assert_eq!(
        doc.clone().save(),
        saved_before,
        "C06: the document saved after the failed call must equal the document saved before it"
    );
}
