use automerge::marks::{ExpandMark, Mark};
use automerge::transaction::Transactable;
use automerge::{ActorId, AutoCommit, ObjType, ReadDoc, ScalarValue, ROOT};

// C29: a change committed under isolate(heads) depends only on those heads:
// every op it refers to must be in the history of `heads`.
#[test]
fn isolated_insert_must_not_reference_a_mark_outside_the_isolation_heads() {
    let mut doc = AutoCommit::new().with_actor(ActorId::from(vec![1u8; 4]));
    let t = doc.put_object(ROOT, "t", ObjType::Text).unwrap();
    doc.splice_text(&t, 0, 0, "abc").unwrap();
    doc.commit();
    let h = doc.get_heads();

    // a later change (not in `h`) adds an expanding mark starting at index 1
    doc.mark(
        &t,
        Mark::new("bold".into(), ScalarValue::from(true), 1, 3),
        ExpandMark::Both,
    )
    .unwrap();
    doc.commit();

    // a peer that only ever saw `h`
    let mut peer = doc.fork_at(&h).unwrap();

    doc.isolate(&h);
    assert_eq!(doc.text(&t).unwrap(), "abc");
    assert!(doc.marks(&t).unwrap().is_empty());
    doc.splice_text(&t, 1, 0, "X").unwrap();
    let hash = doc.commit().unwrap();
    assert_eq!(doc.text(&t).unwrap(), "aXbc");

    let change = doc.get_change_by_hash(&hash).unwrap();
    assert_eq!(change.deps(), h.as_slice());

    // the change declares only `h` as dependency, so a peer at `h` must be able to apply it
    let applied = std::panic::catch_unwind(std::panic::AssertUnwindSafe(|| {
        peer.apply_changes(vec![change.clone()])
            .map(|_| peer.text(&t).unwrap())
    }));
    let ops = format!("{:?}", change.decode().operations);
    match applied {
        Ok(Ok(text)) => assert_eq!(
            text, "aXbc",
            "a change made under isolate(h) must depend only on h; its ops are {ops}"
        ),
        other => panic!(
            "a change made under isolate(h) with deps == h must apply to a peer at h, got {other:?}; \
             its ops refer to an element outside h: {ops}"
        ),
    }
}
