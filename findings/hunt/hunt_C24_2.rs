use automerge::{
    transaction::Transactable, ActorId, AutoCommit, ObjType, ReadDoc, ScalarValue, TextEncoding,
    ROOT,
};

// C24: a text object's length equals the width of its string.
// A text element holds a conflict between a counter (actor 1) and a string (actor 2, the
// winner). A local increment removes the string and leaves the counter as the element's only
// value, which text() renders as U+FFFC. The element is still there, so it must still have
// the width of U+FFFC.
#[test]
fn increment_over_conflicted_text_element_keeps_its_width() {
    for enc in [
        TextEncoding::UnicodeCodePoint,
        TextEncoding::Utf8CodeUnit,
        TextEncoding::Utf16CodeUnit,
        TextEncoding::GraphemeCluster,
    ] {
        let mut a = AutoCommit::new_with_encoding(enc).with_actor(ActorId::from(vec![1u8; 4]));
        let t = a.put_object(ROOT, "t", ObjType::Text).unwrap();
        a.splice_text(&t, 0, 0, "axb").unwrap();
        a.commit();
        let mut b = a.fork().with_actor(ActorId::from(vec![2u8; 4]));
        a.put(&t, 1, ScalarValue::counter(1)).unwrap();
        b.put(&t, 1, "é").unwrap();
        a.commit();
        b.commit();
        a.merge(&mut b).unwrap();
        assert_eq!(a.text(&t).unwrap(), "aéb");

        a.increment(&t, 1, 3).unwrap();
        a.commit();

        let text = a.text(&t).unwrap();
        assert_eq!(text, "a\u{fffc}b");
        let unit = match enc {
            TextEncoding::Utf8CodeUnit => 3,
            _ => 1,
        };
        assert_eq!(
            a.length(&t),
            2 + unit,
            "{enc:?}: length must equal the width of text() = {text:?}"
        );
        // the last character is found at the index its predecessors' widths add up to
        assert_eq!(
            a.get(&t, 1 + unit).unwrap().map(|(v, _)| v.to_string()),
            Some("\"b\"".to_string()),
            "{enc:?}: 'b' must be at index {}",
            1 + unit
        );
    }
}
