// Property C22: ... the other peer still receives all of the read-only peer's changes, and after
// switching the state back to read-write the sync carries on until both sides have everything.
//
// Peer B is an implementation that predates the sync message flags: its messages carry no flags
// section and it cannot see the flags of the messages it receives. That is modelled with the
// public `Message::flags` field, cleared on every message in both directions (this is exactly
// what `Message::decode` yields for the bytes such a peer sends).
use automerge::sync::{self, SyncDoc};
use automerge::transaction::Transactable;
use automerge::{ActorId, AutoCommit, ReadDoc, ROOT};

fn old_wire(mut m: sync::Message) -> sync::Message {
    m.flags = None;
    sync::Message::decode(&m.encode()).unwrap()
}

fn sync_until_quiet(
    a: &mut AutoCommit,
    sa: &mut sync::State,
    b: &mut AutoCommit,
    sb: &mut sync::State,
) {
    for _ in 0..50 {
        let ma = a.sync().generate_sync_message(sa);
        let mb = b.sync().generate_sync_message(sb);
        if ma.is_none() && mb.is_none() {
            return;
        }
        if let Some(m) = ma {
            b.sync().receive_sync_message(sb, old_wire(m)).unwrap();
        }
        if let Some(m) = mb {
            a.sync().receive_sync_message(sa, old_wire(m)).unwrap();
        }
    }
    panic!("sync did not quiesce");
}

#[test]
fn switch_to_read_write_with_old_empty_peer_never_delivers_our_change() {
    let mut a = AutoCommit::new().with_actor(ActorId::from(vec![1u8]));
    let mut b = AutoCommit::new().with_actor(ActorId::from(vec![2u8]));
    let mut sa = sync::State::new_read_only();
    let mut sb = sync::State::new();

    // read-only phase: both documents are still empty, the peers exchange their (empty) heads
    sync_until_quiet(&mut a, &mut sa, &mut b, &mut sb);

    // A writes, then switches its sync state back to read-write
    a.put(ROOT, "from_a", "hello").unwrap();
    a.commit();
    sa.set_read_only(false);

    sync_until_quiet(&mut a, &mut sa, &mut b, &mut sb);

    assert!(
        b.get(ROOT, "from_a").unwrap().is_some(),
        "C22: once both sync states are read-write the sync must deliver A's change to B; \
         instead A announced empty heads, B (whose heads are empty too) had nothing to answer, \
         and A never sent its real heads or its change (a heads {:?}, b heads {:?})",
        a.get_heads(),
        b.get_heads()
    );
}

// control: the same schedule without the read-only episode converges
#[test]
fn control_same_schedule_without_read_only() {
    let mut a = AutoCommit::new().with_actor(ActorId::from(vec![1u8]));
    let mut b = AutoCommit::new().with_actor(ActorId::from(vec![2u8]));
    let mut sa = sync::State::new();
    let mut sb = sync::State::new();
    sync_until_quiet(&mut a, &mut sa, &mut b, &mut sb);
    a.put(ROOT, "from_a", "hello").unwrap();
    a.commit();
    sync_until_quiet(&mut a, &mut sa, &mut b, &mut sb);
    assert!(b.get(ROOT, "from_a").unwrap().is_some());
}
