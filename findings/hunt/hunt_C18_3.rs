use automerge::transaction::Transactable;
use automerge::{ActorId, AutoCommit, Automerge, ReadDoc, ROOT};

// C18: a bundle gives back byte-identical changes and loading it has the same effect as applying
// them. Naming a hash twice does not name more changes.
#[test]
fn bundle_of_hashes_that_repeat_a_hash() {
    let mut doc = AutoCommit::new().with_actor(ActorId::from(vec![2, 2, 2, 2]));
    doc.put(&ROOT, "a", 1).unwrap();
    doc.commit();
    doc.put(&ROOT, "b", 2).unwrap();
    doc.commit();
    let changes = doc.get_changes(&[]);
    let (h0, h1) = (changes[0].hash(), changes[1].hash());

    // the same hash twice
    let bundle = doc.document().bundle([h0, h0]).unwrap();
    let out = bundle.to_changes();
    assert!(
        out.is_ok(),
        "a bundle that bundle() built without an error must give its changes back, got {:?}",
        out.err()
    );
    let out = out.unwrap();
    assert_eq!(out.len(), 1, "the hashes name one change");
    assert_eq!(out[0].raw_bytes(), changes[0].raw_bytes());

    // a repeated hash among others
    let bundle = doc.document().bundle([h1, h0, h1]).unwrap();
    let out = bundle.to_changes().unwrap();
    assert_eq!(
        out.len(),
        2,
        "the hashes name two changes, the bundle must hold each of them once"
    );
    let mut fresh = Automerge::new();
    fresh.load_incremental(bundle.bytes()).unwrap();
    assert_eq!(fresh.get_heads(), doc.get_heads());
}
