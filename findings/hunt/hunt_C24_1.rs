use automerge::{
    transaction::Transactable, ActorId, AutoCommit, ObjType, ReadDoc, TextEncoding, ROOT,
};

// C24: a text object's length equals the width of its string, also at historical heads.
// Two actors concurrently overwrite the same character; the element then shows ONE value
// (the winner), so it must contribute the winner's width only.
#[test]
fn length_at_counts_only_the_winner_of_a_conflicted_text_element() {
    for enc in [
        TextEncoding::UnicodeCodePoint,
        TextEncoding::Utf8CodeUnit,
        TextEncoding::Utf16CodeUnit,
        TextEncoding::GraphemeCluster,
    ] {
        let mut a = AutoCommit::new_with_encoding(enc).with_actor(ActorId::from(vec![1u8; 4]));
        let t = a.put_object(ROOT, "t", ObjType::Text).unwrap();
        a.splice_text(&t, 0, 0, "axb").unwrap();
        a.commit();
        let mut b = a.fork().with_actor(ActorId::from(vec![2u8; 4]));
        // index 1 is one unit in every encoding ("a" is ASCII)
        a.put(&t, 1, "é").unwrap();
        b.put(&t, 1, "😀").unwrap();
        a.commit();
        b.commit();
        a.merge(&mut b).unwrap();
        let heads = a.get_heads();

        let text = a.text(&t).unwrap();
        assert_eq!(text, "a😀b");
        let expected = a.length(&t); // 3 / 6 / 4 / 3
        assert_eq!(a.text_at(&t, &heads).unwrap(), text);

        // move the document on so that `heads` is a strictly older version
        a.put(ROOT, "other", 1).unwrap();
        a.commit();

        assert_eq!(a.text_at(&t, &heads).unwrap(), text);
        assert_eq!(
            a.length_at(&t, &heads),
            expected,
            "{enc:?}: length_at(heads) must equal the width of text_at(heads) = {text:?} \
             (the losing conflicting value must not add width)"
        );
    }
}
