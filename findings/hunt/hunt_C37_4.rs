use automerge::transaction::Transactable;
use automerge::{ActorId, AutoCommit, ObjType, ReadDoc, TextEncoding, ROOT};

// Property C37: patches the library itself produced are always accepted by
// hydrate::Value::apply_patches. A consumer that applies every batch returned by
// diff_incremental() must be able to keep doing so across isolate(&[]) / integrate().
#[test]
fn diff_incremental_across_isolation_at_empty_heads_does_not_replay_delivered_patches() {
    let enc = TextEncoding::UnicodeCodePoint;
    let mut doc = AutoCommit::new_with_encoding(enc);
    doc.set_actor(ActorId::from(vec![1u8]));
    let text = doc.put_object(ROOT, "t", ObjType::Text).unwrap();
    doc.splice_text(&text, 0, 0, "ab").unwrap();
    doc.commit();

    doc.update_diff_cursor();
    let mut hydrated = doc.hydrate(&ROOT, None).unwrap();

    doc.splice_text(&text, 1, 0, "X").unwrap();
    doc.commit();
    doc.isolate(&[]);
    let first = doc.diff_incremental();
    hydrated.apply_patches(enc, first).unwrap();
    assert_eq!(hydrated, doc.hydrate(&ROOT, None).unwrap(), "view at the empty heads");

    doc.integrate();
    let second = doc.diff_incremental();
    let shown = format!("{second:?}");
    let result = hydrated.apply_patches(enc, second);
    assert!(
        result.is_ok(),
        "the second diff_incremental() must only describe what changed since the first one, got {result:?} for {shown}"
    );
    assert_eq!(hydrated, doc.hydrate(&ROOT, None).unwrap(), "patches were {shown}");
}
