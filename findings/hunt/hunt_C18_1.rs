use automerge::transaction::Transactable;
use automerge::{ActorId, AutoCommit, Change, ObjType, ROOT};

// C18: Change::from_bytes of a change's compressed bytes gives an EQUAL change with the same hash.
#[test]
fn change_parsed_from_its_compressed_bytes_equals_the_change() {
    let mut doc = AutoCommit::new().with_actor(ActorId::from(vec![1, 1, 1, 1]));
    let text = doc.put_object(&ROOT, "t", ObjType::Text).unwrap();
    // more than 256 bytes of ops, so that Change::bytes() really compresses
    doc.splice_text(&text, 0, 0, &"hello world ".repeat(100)).unwrap();
    doc.commit();
    let original = doc.get_changes(&[]).remove(0);

    let mut copy = original.clone();
    let compressed = copy.bytes().to_vec();
    assert!(compressed.len() < original.raw_bytes().len(), "the change is compressed");

    let parsed = Change::from_bytes(compressed).unwrap();
    assert_eq!(parsed.hash(), original.hash());
    assert_eq!(parsed.raw_bytes(), original.raw_bytes());

    assert!(
        copy == original,
        "asking a change for its compressed bytes must not make it unequal to its own clone"
    );
    assert!(
        parsed == original,
        "a change parsed from the compressed bytes of a change must be equal to that change \
         (same hash, same raw bytes), whether or not either side has cached a compressed form"
    );
}
