// C26: once its element is deleted, a MoveCursor::Before cursor resolves to the index
// of the nearest surviving predecessor along the insertion chain (or 0).
//
// Text "abcde" with a mark over [1,3) that expands on both sides. Typing "X" at
// index 1 puts X inside the mark: its insertion reference (key) is the mark's
// *begin op*, which sits between 'a' and 'b'. A Before cursor is taken on X and
// X is deleted again ("abcde"). The nearest surviving predecessor of X is 'a'
// (index 0). The Before walk in get_cursor_position_for looks up X's key with
// seek_list_opid; that key is the mark op, which is not a sequence element. The
// indexed path reports the mark op as `visible` (release: the walk stops there and
// answers 1, the index of 'b', an element *after* the cursor), while the slow path
// skips marks and reports it invisible (debug: the debug_assert_eq in
// seek_list_opid panics).
use automerge::marks::{ExpandMark, Mark};
use automerge::transaction::Transactable;
use automerge::{ActorId, AutoCommit, MoveCursor, ObjType, ReadDoc, ROOT};

#[test]
fn before_cursor_whose_insertion_parent_is_a_mark_op() {
    let mut a = AutoCommit::new().with_actor(ActorId::from(vec![1u8; 16]));
    let text = a.put_object(ROOT, "t", ObjType::Text).unwrap();
    a.splice_text(&text, 0, 0, "abcde").unwrap();
    a.mark(
        &text,
        Mark::new("bold".into(), true, 1, 3),
        ExpandMark::Both,
    )
    .unwrap();
    a.commit();
    a.splice_text(&text, 1, 0, "X").unwrap();
    a.commit();
    assert_eq!(a.text(&text).unwrap(), "aXbcde");
    let cur = a
        .get_cursor_moving(&text, 1, None, MoveCursor::Before)
        .unwrap();
    assert_eq!(a.get_cursor_position(&text, &cur, None).unwrap(), 1);
    a.splice_text(&text, 1, 1, "").unwrap();
    a.commit();
    assert_eq!(a.text(&text).unwrap(), "abcde");

    let r = std::panic::catch_unwind(std::panic::AssertUnwindSafe(|| {
        a.get_cursor_position(&text, &cur, None)
    }));
    let pos = match r {
        Ok(p) => p.unwrap(),
        Err(_) => panic!(
            "C26: get_cursor_position panicked; a Before cursor on the deleted X must resolve to 0, the index of its surviving predecessor 'a'"
        ),
    };
    assert_eq!(
        pos, 0,
        "C26: X was typed between 'a' and 'b' and then deleted; a Before cursor on X must resolve \
         to 0 (its nearest surviving predecessor 'a'), never to an element after it"
    );
}
