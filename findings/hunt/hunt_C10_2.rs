// C10: a change retrieved from a document is byte-identical to the change as created and
// its hash is the SHA-256 of its chunk. ScalarValue::Unknown { type_code, bytes } is a public
// value; put() accepts it with any u8 type_code. Either the value is refused, or the change
// that carries it must come back unchanged.
use automerge::transaction::Transactable;
use automerge::{ActorId, AutoCommit, ReadDoc, ScalarValue, ROOT};
use std::panic::{catch_unwind, AssertUnwindSafe};

#[test]
fn unknown_value_with_type_code_16_keeps_history_intact() {
    let mut doc = AutoCommit::new().with_actor(ActorId::from(vec![1u8]));
    let value = ScalarValue::Unknown {
        type_code: 16,
        bytes: vec![7u8],
    };
    if doc.put(ROOT, "a", value).is_err() {
        return; // refusing the value is fine
    }
    doc.put(ROOT, "b", "after").unwrap();
    let h1 = doc.commit().unwrap();
    assert_eq!(doc.get_heads(), vec![h1]);

    let r = catch_unwind(AssertUnwindSafe(|| doc.get_change_by_hash(&h1)));
    let c1 = r
        .expect("C10: get_change_by_hash of the hash commit() returned must not panic")
        .expect("C10: the committed change must be retrievable by its hash");
    assert_eq!(
        c1.hash(),
        h1,
        "C10: the change retrieved by hash must have that hash (it is rebuilt from the ops)"
    );

    let all = catch_unwind(AssertUnwindSafe(|| doc.get_changes(&[])))
        .expect("C10: get_changes must not panic");
    assert_eq!(all.len(), 1);
    assert_eq!(all[0].raw_bytes(), c1.raw_bytes());

    let bytes = doc.save();
    let l = AutoCommit::load(&bytes).expect("C10: the document's own save() must load");
    assert_eq!(l.get(ROOT, "b").unwrap().unwrap().0.to_str(), Some("after"));
}
