// C03: an editing call that returns an error changes nothing.
//
// replace_block(index) is join_block(index) followed by split_block(index). When `index`
// lies inside a multi-unit element (here the 2nd..4th UTF-8 code unit of an emoji) the join
// step deletes the whole element, which shortens the text so much that `index` is now past
// the end and the split step fails with InvalidIndex. The call returns Err, but the
// deletion stays in the open transaction and is committed with it.
use automerge::transaction::Transactable;
use automerge::{ActorId, AutoCommit, ObjType, ReadDoc, TextEncoding, ROOT};

#[test]
fn failed_replace_block_changes_nothing() {
    let mut doc = AutoCommit::new_with_encoding(TextEncoding::Utf8CodeUnit)
        .with_actor(ActorId::from(vec![1u8; 16]));
    let t = doc.put_object(ROOT, "t", ObjType::Text).unwrap();
    doc.splice_text(&t, 0, 0, "😀").unwrap(); // one element, four UTF-8 code units
    doc.commit();
    assert_eq!(doc.length(&t), 4);

    let result = doc.replace_block(&t, 2);
    assert!(result.is_err(), "index 2 is not a block marker: {result:?}");

    assert_eq!(
        doc.text(&t).unwrap(),
        "😀",
        "replace_block returned {result:?}: a failed call must leave the text unchanged \
         (open transaction)"
    );
    doc.commit();
    let reloaded = AutoCommit::load_with_options(
        &doc.save(),
        automerge::LoadOptions::new().text_encoding(TextEncoding::Utf8CodeUnit),
    )
    .unwrap();
    assert_eq!(reloaded.text(&t).unwrap(), "😀", "after commit, save and load");
}
